"""Per-property metadata used by the driver for evidence files (rule of non-triviality, assumptions, fuzz targets)."""

COMMON_ASSUME = [
    "Go std crypto/aes, crypto/md5, crypto/sha1, crypto/sha256, math/big (Mul, Mod), encoding/json and rapid v1.3.0 are trusted",
    "the harness's own reference implementations (harness/ref, written from the RFC texts, self-tested against RFC vectors and std at the start of every run) are correct",
    "properties are established only for the cases generated; nothing is proved",
]

NOT_APPLICABLE = {}

EXPLORATION_NOTE = ("trusted base: Go std crypto primitives and math/big, rapid v1.3.0, the harness's RFC-text reference implementations "
                    "(self-tested against RFC vectors and std on every run); establishes the property for the generated cases only")

META = {
    "C01": {
        "technique": "property-based testing (rapid): round trip protect -> unprotect through two separate SA objects, all 9 suites x 2 roles x 2 header modes; differential nil-key path vs plain codec",
        "level_text": "Round-trip oracle between two independently constructed SA objects holding the same key bytes (sender role r, receiver role !r), over generated domain messages (empty list included), all nine suites, both roles, header pre-parsed or not, random keys; the library's IV/padding draws come from the real source or from an injected stream (all-zero / all-0xff / drawn). With no key the entry points are compared with plain Encode/Decode. Exploration.",
        "level_note": EXPLORATION_NOTE,
        "rule": "rapid draws (message of the encodable domain whose protected form fits 16 bits, suite, 4 keys with distinct directions, sender role, header mode, optional entropy stream); every case is non-trivial (the empty payload list goes through the keyed path too); distinct by hash of the input; labels count suites, directions, header modes",
        "assumptions": COMMON_ASSUME + ["SK_e/SK_a of the two directions are distinct (guaranteed by construction, as a real key derivation gives them)"],
        "fuzz": [{"name": "FuzzC01RoundTrip", "seconds": 60}],
    },
    "C02": {
        "hang_s": 900,  # one case = tens of thousands of DecodeDecrypt calls (each rejected one pays for pkg/errors stack captures)
        "technique": "property-based testing (rapid) + exhaustive single-bit flips / prefixes per message; oracle: error (or, for a changed first-payload type, exactly the nil-key outcome); spy cipher and spy MAC objects observe call order",
        "level_text": "For each generated protected message (library- or reference-produced): EVERY single-bit flip, every proper prefix, extensions (also shaped like skippable payloads, with and without adjusted length), multi-octet edits, header/body, body/ICV and IV/ciphertext splices of two messages under the same keys, presentation under unrelated keys (all keys or integrity keys only) and reflection to the producing role must end in an error with zero Decrypt calls seen by a spy cipher; for the genuine message the spy log must show the MAC computed over exactly the received bytes before the first Decrypt call on the sender-direction cipher. Exploration, exhaustive per message for flips and prefixes (messages up to ~300 inner octets).",
        "level_note": EXPLORATION_NOTE + "; HMAC forgeries (<= 2^-96) are treated as impossible; the ordering assertions are made only if the spies observe the genuine path at all",
        "rule": "a case = one genuine protected message with its whole family of alterations (thousands of DecodeDecrypt calls); all cases are non-trivial; distinct by hash of the input; labels count alteration classes (flip:header/sk-header/iv/ciphertext/icv, prefix, extension, edit, splice:*, cross-key, reflection, carve-out)",
        "assumptions": COMMON_ASSUME + ["an altered input is never byte-identical to a genuine message (asserted by construction)"],
    },
    "C06": {
        "technique": "property-based testing (rapid): differential against an independent SK opener / builder (RFC 7296 s3.14), both directions, all 16 legal pad lengths",
        "level_text": "Forward: the library's protected message is opened by a reference receiver (own HMAC, own CBC, strict inner parser) that checks header, single SK payload, next-payload field, both length fields, IV, ICV over everything before it, padding law, and recovers the payloads. Reverse: a reference sender builds the message with every legal pad length (0..255 compatible with the block size), arbitrary pad octets and IV; the library must accept and decode it. Exploration.",
        "level_note": EXPLORATION_NOTE,
        "rule": "rapid draws (message, suite, keys, direction, header mode); reverse cases try all 16 legal pad lengths each; all cases non-trivial; distinct by hash of the input",
        "assumptions": COMMON_ASSUME,
        "fuzz": [{"name": "FuzzC06Reverse", "seconds": 60}],
    },
    "C07": {
        "technique": "property-based testing (rapid): differential against RFC-text prf+/SKEYSEED/key slicing, probes of the keyed objects, two-party runs through NewIKESAKey with reference modexp",
        "level_text": "SK_d..SK_pr are compared with slices of the reference prf+(prf(Ni|Nr, g^ir), Ni|Nr|SPIi|SPIr) for generated nonces/secrets/SPIs over all 27 algorithm combinations x 2 groups (every 20th case sweeps all 54); the SA's Integ/Prf objects must equal the reference HMAC under the respective key on a probe string and the cipher objects must interoperate with textbook CBC under SK_ei/SK_er. Two-party: initiator (library exponent under injected entropy) and responder (NewIKESAKey on the proposal, optionally through the wire) must both equal the reference derivation from B^a mod p and open each other's messages. Exploration.",
        "level_note": EXPLORATION_NOTE,
        "rule": "derive: (suite, nonces 1..512, secret 1..512 incl. leading zeros, SPIs); two-party: (suite, nonces, SPIs, two entropy streams, message); all non-trivial; distinct by hash",
        "assumptions": COMMON_ASSUME + ["key/output lengths typed in from RFC 2403/2404/4868/3602/7296"],
    },
    "C08": {
        "technique": "property-based testing (rapid) over derivation histories on one SA object: RFC-text KEYMAT and fresh-copy differential after every step",
        "level_text": "Sequences of up to 200 Child SA derivations (3 key sizes x {none, 3 integrity algorithms}, nonces 0..256 octets) on ONE IKE SA object; after every step the four keys must equal the slices of the reference prf+(SK_d, Ni|Nr) in the order ei, ai, er, ar and the result of the same derivation on a freshly constructed copy. SK_d is installed directly or produced by a full IKE SA derivation. Exploration.",
        "level_note": EXPLORATION_NOTE,
        "rule": "a case = one history; non-trivial = at least 2 derivations; distinct by hash; labels: no-integrity, KEYMAT > 1 / > 3 prf blocks, empty nonce, 100th derivation",
        "assumptions": COMMON_ASSUME,
    },
    "C09": {
        "technique": "property-based testing (rapid) + deterministic tables: differential against primes computed from the RFC pi formula and a square-and-multiply modexp; entropy-stream and fault injection through crypto/rand.Reader",
        "level_text": "Prime identity through the API (GetSharedKey(1, P-1 / P / P+1) for P from the RFC formula), public/shared values against a reference modexp for edge exponents (0, 1, 2, p-2..p+1, 2^k+-1, small, random) and peer values up to 2^2056, two-party agreement, exact output length with leading zeros; GenerateRandomNumber under injected entropy (function of the stream, range, consumption, too-small candidates skipped, different streams differ) and failure injected at every read of the random source for GenerateRandomNumber, CalculateDiffieHellmanMaterials and NewIKESAKey (error and no key). Exploration plus enumerated fault points.",
        "level": "fault_enumeration",
        "level_note": EXPLORATION_NOTE + "; relies on go1.23 crypto/rand semantics (replaceable Reader, Read returns errors)",
        "rule": "values: (group, exponent x, second exponent, peer value y) from a mixture of special and random values; exponents: (entropy stream, mode); non-trivial = a result with a leading zero octet, an operand >= p, a special exponent, or any entropy/fault case; distinct by hash",
        "assumptions": COMMON_ASSUME + ["the RFC 2409 / RFC 3526 primes are reproduced from 2^n - 2^(n-64) - 1 + 2^64 (floor(2^(n-130) pi) + c) with pi from Machin's series; both are checked to be safe primes at start-up"],
    },
    "C10": {
        "technique": "exhaustive tables (wrong key sizes 0..64; ciphertext lengths 0..96 x 256 pad-length octets; fault at every read) + property-based testing (rapid) of call histories on one cipher object against textbook AES-CBC",
        "level_text": "Histories of encrypt / decrypt-reference-ciphertext (any legal pad length) / decrypt-garbage / encrypt-with-failing-source on ONE cipher object: inverse, size law n < 16k <= n+256, textbook-CBC structure and pad-length octet, IV is a 16-octet chunk handed out by the (injected) random source during the call, no IV repeats with the system source, long-lived object == fresh object (same stream => same ciphertext), error and nil ciphertext when the source fails; exhaustive: keys of every wrong size refused, every short/misaligned length and every recovered pad-length octet against the reference accept/reject rule. Exploration with exhaustive sub-tables and enumerated fault points.",
        "level": "fault_enumeration",
        "level_note": EXPLORATION_NOTE + "; relies on go1.23 crypto/rand semantics",
        "rule": "history cases: (key size, key, 1..8 operations); non-trivial = a plaintext longer than one block or of length = 15, 0 mod 16, a fault that fired, or a history of >= 2 operations; table cases are all non-trivial; distinct by hash",
        "assumptions": COMMON_ASSUME,
    },
    "C11": {
        "technique": "exhaustive enumeration (all advertised algorithms and single-choice proposals; all 65536 transform identifiers x 42 attribute classes x 7 decode functions, directly and via the wire, in the thorough tier) + property-based testing (rapid) of ill-formed proposals against a reference mapping table",
        "level_text": "Every advertised name -> descriptor -> transform -> real SA payload on the wire -> descriptor must be the identity with RFC lengths; all 54 IKE and all Child single-choice proposals must rebuild the same algorithms; every transform identifier with every attribute class (absent, key length with boundary values, foreign types incl. 14+128k, TLV) through each decode function must match the reference mapping (never a different identifier or key size); proposals with an unsupported transform must not yield an SA. The thorough tier enumerates the full identifier space (exhaustive), the quick tier boundary identifiers.",
        "level_note": EXPLORATION_NOTE,
        "rule": "table cases = (8 identifiers, 42 attribute classes) each evaluated for 7 decode functions x {direct, via wire}; non-trivial = contains an identifier <= 14 or a key-length class; advertised/bad-proposal cases all non-trivial; distinct by hash",
        "assumptions": COMMON_ASSUME + ["transform structs offered directly to the decode functions are consistent (AttributePresent=false implies zero attribute fields), as the wire decoder and the builders produce them"],
        "exhaustive_all": ["advertised"],
        "extra_packages": ["./propsmin"],
    },
    "C14": {
        "technique": "property-based testing (rapid): round trip + strict independent EAP parser + get-equals-set through the public attribute API; exhaustive setter size table",
        "level_text": "EAP packets of every method built through the API (SetAttr in random order with overwrites) are marshalled 9 times (identical bytes), parsed by a strict reference parser (length field, Success/Failure bare, expanded layout, attribute lengths in words, zero padding, exact bit lengths, attributes once) and decoded again; values read back after SetAttr and after decode must equal the values set; every fixed-size attribute x every size 0..300 against the allowed set. Exploration with an exhaustive setter table.",
        "level_note": EXPLORATION_NOTE,
        "rule": "codec cases: EAP model (+ SetAttr call sequence); non-trivial = AKA' with >= 2 attributes or a value whose length is not a multiple of 4 or AT_CHECKCODE, or expanded with data; setter table cases all non-trivial; distinct by hash",
        "assumptions": COMMON_ASSUME,
        "fuzz": [{"name": "FuzzC14Codec", "seconds": 60}],
    },
    "C15": {
        "technique": "property-based testing (rapid): reference HMAC-SHA-256-128 over the wire image, sender/receiver agreement, per-octet sensitivity, independent encoder with arbitrary attribute order",
        "level_text": "Sender: the MAC returned for an API-built packet equals the reference HMAC over the marshalled packet with the AT_MAC value zeroed (field located by the reference parser), whatever AT_MAC held before. Receiver: after decoding the transmitted packet (library-built, or reference-built with attributes in any order) the computed value equals the carried one; every single-octet alteration of the packet that still decodes, and a changed key, must make computed != carried. Exploration, exhaustive over octets per packet (<= 200 octets).",
        "level_note": EXPLORATION_NOTE,
        "rule": "case = (K_aut of 32 or 0..80 octets, AKA' packet, previous AT_MAC, reference-built flag and attribute order); non-trivial = padded attribute, >= 3 attributes, or reference-built; distinct by hash",
        "assumptions": COMMON_ASSUME + ["reserved octets in reference-built packets are zero, as RFC 4187 demands of a sender"],
    },
    "C16": {
        "technique": "property-based testing (rapid): differential against RFC 5448 PRF' written out over the reference HMAC",
        "level_text": "The five outputs are compared with octets 0-15, 16-47, 48-79, 80-143, 144-207 of the reference PRF'(IK'|CK', \"EAP-AKA'\"|Identity) for keys of 1..64 octets (mostly 16, unequal lengths favoured) and identities of 0..255 arbitrary octets (non-UTF-8, NULs, the prefix itself); empty IK'/CK' must be refused. Exploration.",
        "level_note": EXPLORATION_NOTE,
        "rule": "case = (IK', CK', identity octets); non-trivial = unequal key lengths, an identity octet >= 0x80 or NUL, or any non-empty identity; distinct by hash",
        "assumptions": COMMON_ASSUME,
    },
    "C17": {
        "technique": "property-based testing (rapid) over operation histories (<= 64) on one long-lived SA object vs fresh objects and the reference, checked after every step",
        "level_text": "Histories over {protect as either role, unprotect genuine (from a fresh library peer or the reference builder), unprotect tampered / truncated / garbage (also SK-shaped garbage reaching the MAC), derive Child SA} on ONE IKESAKey; before every step a fresh SA is built from the same bytes: what L protects a fresh peer and the reference open, genuine messages are accepted with the right content, forged ones rejected, garbage gives the fresh object's outcome, child keys equal fresh-object and reference keys. Exploration.",
        "level_note": EXPLORATION_NOTE,
        "rule": "case = (suite, keys, 1..64 operations); non-trivial = >= 3 steps containing a rejected input followed by a genuine one, or two protects in a row; distinct by hash",
        "assumptions": COMMON_ASSUME,
    },
    "C18": {
        "technique": "property-based testing (rapid) of goroutine program sets under the Go race detector: concurrent results == sequential results",
        "level_text": "Generated sets of 2..64 goroutine programs (encode, decode, protect/unprotect, IKE/Child key derivation, DH, transform mapping, EAP codec/MAC/PRF', random numbers, decoding of one shared read-only slice), each on its own SA and messages, are run alone and then concurrently (GOMAXPROCS 2..16, drawn yield points) in a binary built with -race: any race report, any result differing from the sequential run, or a modified shared slice is a violation. The technique does not own the scheduler: schedules are sampled, not enumerated; a clean run is evidence for the schedules that happened. Exploration with a detector.",
        "level_note": EXPLORATION_NOTE + "; Go race detector (happens-before based) is trusted; failures here are schedule-dependent and do not shrink - the replay artefact is the race log / the program set",
        "rule": "case = one burst (program set, GOMAXPROCS); non-trivial = >= 4 goroutines with on average >= 1.5 operations each and >= 2 operation kinds; distinct by hash",
        "assumptions": COMMON_ASSUME + ["interleavings are produced by the Go runtime scheduler; none is forced"],
        "race": True, "shards": 8,
    },
    "C19": {
        "technique": "property-based testing (rapid) over builder arguments and prior container contents: fields == arguments, append-exactly-one, encoding parsed by the reference == TS 24.502 layouts built by the reference",
        "level_text": "NewHeader/NewMessage and all 27 Build* functions are called with generated arguments (octet strings up to 70000 where a limit exists, NAS PDUs up to 70000, QFI lists up to 300, all flag combinations) on containers with generated prior contents: the container grows by exactly one, earlier payloads are the same objects with unchanged fields, the new payload's fields equal the arguments, its encoding parsed by the independent parser equals the expected layout (3GPP layouts built by the reference from the arguments), and oversize arguments end in a builder or encode error, never a successful encoding with different fields. Exploration.",
        "level_note": EXPLORATION_NOTE,
        "rule": "case = (builder, arguments, prior contents); all non-trivial except EapExpanded without data; distinct by hash; labels count every builder and oversize/unencodable arguments",
        "assumptions": COMMON_ASSUME + ["numeric arguments wider than their wire field (CP attribute type >= 2^15) are outside the builders' domain"],
    },
    "C20": {
        "technique": "property-based testing (rapid): metamorphic scribble-invariance of decoded messages, reflection walk for memory overlap with the input, repeated-encode determinism, before/after models around Encode and EncodeEncrypt",
        "level_text": "Decode / DecodeDecrypt from a private buffer with spare capacity, snapshot the model, overwrite the whole buffer twice, snapshot again: equal; independently a reflection walk over all reachable slices (exported or not) must find none overlapping the buffer (IKEHeader.PayloadBytes excepted). Encode three times: identical bytes, unchanged message, result not referenced by the payloads, overwriting it changes neither the message nor the next encoding. EncodeEncrypt: payload objects the caller holds, the seven header fields and the SA key bytes unchanged, payload list == exactly one Encrypted payload. Exploration.",
        "level_note": EXPLORATION_NOTE,
        "rule": "decode cases: accepted byte strings (canonical / liberties / mutated / short-body / raw) and reference-protected messages; encode cases: domain messages; non-trivial = message with at least one variable-length field; distinct by hash",
        "assumptions": COMMON_ASSUME,
        "fuzz": [{"name": "FuzzC20Ownership", "seconds": 60}],
    },
    "C03": {
        "required_labels_thorough": ["kind:SA", "kind:KE", "kind:IDi", "kind:IDr", "kind:CERT", "kind:CERTREQ", "kind:AUTH", "kind:Nonce", "kind:Notify", "kind:Delete",
                                     "kind:Vendor", "kind:TSi", "kind:TSr", "kind:CP", "kind:EAP", "sa:tlv-attr", "sa:attrtype>=128", "sa:spi>=248", "notify:spi>=252",
                                     "aka:padded", "aka:checkcode", "aka:kdfinput>=252", "msg:empty", "msg:all-kinds", "msg:repeated-kind", "ts:v4+v6", "cp:value>255",
                                     "eap:none", "eap:identity", "eap:notification", "eap:nak", "eap:expanded", "eap:aka", "sa:multi-proposal", "sa:transforms>5"],
        "technique": "property-based testing (rapid): round trip decode(encode(m)) == m over generated domain messages",
        "level_text": "Generated-input search with a round-trip oracle on the harness's own message model; thousands of structurally diverse messages per run including boundary sizes (SPI 248-255, attribute types >= 128, TLV attributes, 64 KiB payloads, all 15 payload kinds). Exploration, not proof.",
        "level_note": EXPLORATION_NOTE,
        "rule": "rapid draws messages of the encodable domain (harness/gen: sizes from a mixture of small / boundary / uniform values, construction not rejection); "
                "a case is non-trivial if the message has >= 1 payload; distinct = distinct hash of (check, model JSON)",
        "assumptions": COMMON_ASSUME + ["equality is on the normalised model: nil == empty byte string; transforms compared per transform type in order (all the library's data model can hold)"],
        "fuzz": [{"name": "FuzzC03RoundTrip", "seconds": 60}],
    },
    "C04": {
        "technique": "deterministic exhaustive boundary sweeps + property-based testing (rapid) + native coverage-guided fuzzing, oracle: value-or-error, no panic/hang, capacity independence (exact-capacity vs poisoned spare capacity), whole = sum of parts",
        "level_text": "Every decoding entry point is driven with (a) exhaustive sweeps: every prefix of fixed templates, every value of every 8-bit size field and boundary values of every 16/32-bit length field combined with buffer lengths in a window around the implied extents, hand-built nested SA structures with consistent outer lengths, SK bodies of every short length with and without a valid ICV for all 9 suites and both roles; (b) rapid-generated raw and structure-mutated strings; (c) post-MAC inputs built by a reference SK builder with arbitrary inner octets and pad-length octets; (d) native fuzz targets in the thorough tier. A panic, a hang (watchdog) or any dependence of the outcome on memory behind the slice is a violation. Exploration with exhaustive sub-tables.",
        "level_note": EXPLORATION_NOTE + "; 'work bounded by the input length' is checked as termination plus an output-size guard, not as a complexity bound",
        "rule": "cases = (entry point, byte string [, suite, keys, role, header mode]); sweeps enumerate templates x size fields x values x truncation lengths, rapid draws raw / valid / mutated strings; non-trivial = the decoder got past its first bounds check (a value was returned, or the error is not one of the 'no sufficient bytes for the fixed header' messages); distinct by hash of (entry, octets, keys, role, header mode)",
        "assumptions": COMMON_ASSUME + ["capacity independence is observed through two (quick) or four (thorough) poison patterns in >= 96 octets of spare capacity and an exact-capacity copy on which any read past len panics"],
        "fuzz": [{"name": "FuzzC04Message", "seconds": 90}, {"name": "FuzzC04Body", "seconds": 90}, {"name": "FuzzC04EAP", "seconds": 60}, {"name": "FuzzC04UnprotectInner", "seconds": 90}],
        "timeout_quick": 900, "timeout_thorough": 7200,
    },
    "C12": {
        "technique": "property-based testing (rapid) over accepted byte strings (mutated / reference-built / short-body images) + native fuzzing: one-step fixed point of decode/encode, canonical input => byte-identical output",
        "level_text": "Metamorphic fixed-point oracle on byte strings the decoder accepts: decode, encode, decode again must give an equal message and the second encoding must equal the first; canonical reference-built datagrams must re-encode byte-identically. Inputs are structure-aware mutations of valid images (lengths, reserved bits, flags, type codes, attribute encodings), reference images with sender liberties, chains of supported payload types with arbitrary short bodies, raw strings, and bare EAP packets. Exploration.",
        "level_note": EXPLORATION_NOTE + "; an Encode error or panic on a decoded message discharges the premise (counted as 'unencodable' / 'encode_panics', printed as OBSERVATION), as the property is worded",
        "rule": "rapid draws a byte string by one of: canonical reference encoding, reference encoding with liberties, 1-4 structure-aware mutations of a valid image, raw octets, supported-type payloads with arbitrary short bodies; non-trivial = accepted by the decoder AND re-encodable (none of the inputs is produced by the library's own encoder); distinct by hash of the octets",
        "assumptions": COMMON_ASSUME + ["canonical = zero reserved bits, no unsupported payloads, transforms in ascending transform-type order (the library's data model cannot hold another order)"],
        "fuzz": [{"name": "FuzzC12Stable", "seconds": 90}, {"name": "FuzzC12EAPStable", "seconds": 60}],
    },
    "C13": {
        "technique": "exhaustive single-insertion table (239 type codes x positions x flag x hosts x entry points) + property-based testing (rapid) of multi-insertions; oracle: equals host message / error if critical",
        "level_text": "Metamorphic oracle: a reference-encoded message with inserted payloads of unimplemented types must decode exactly like the host message when none is critical and must be rejected when any is; critical flags on implemented types must change nothing. Single insertions are enumerated exhaustively; multiple / adjacent insertions with bodies up to 1024 octets and random reserved bits are generated. Exploration with an exhaustive sub-table.",
        "level_note": EXPLORATION_NOTE,
        "rule": "table: all type codes 1..32, 49..255 x {front, middle, end} x {critical, not} x 3 host messages x {whole message, payload container}; rapid: 1..4 insertions into generated domain messages; non-trivial = an insertion that is not at the end of the chain (the chain must be followed through it), or a critical one; distinct by hash of the input",
        "assumptions": COMMON_ASSUME,
        "fuzz": [{"name": "FuzzC13Insert", "seconds": 60}],
    },
    "C05": {
        "technique": "property-based testing (rapid): differential against an independently written RFC 7296 codec, both directions, with sender liberties",
        "level_text": "Differential testing against a strict reference parser (library output must be well-formed and parse to the same fields) and a reference encoder with random reserved bits / critical flags / transform interleavings (library must decode to the fields encoded). Catches symmetric encoder+decoder errors a round trip cannot see. Exploration.",
        "level_note": EXPLORATION_NOTE,
        "rule": "forward: rapid-drawn domain message, non-trivial if >= 1 payload; reverse: reference-encoded image with a rapid-drawn liberty stream, non-trivial if >= 1 payload and (>= 1 non-zero reserved site or a non-canonical transform interleaving); distinct by hash of the input",
        "assumptions": COMMON_ASSUME + ["byte equality with the canonical reference encoding is recorded (label) but not demanded: the RFC does not fix transform order"],
        "fuzz": [{"name": "FuzzC05Reverse", "seconds": 60}],
    },
}

# Additions of later rounds (DESIGN.md sections 3.5 and 5, "Later additions"), appended to the level texts.
ADDENDA = {
    "C01": "Also: the same datagram a second time in the other header mode, one SA object in both roles, two holders sending in one direction; messages housed in shared backing arrays (bridge.Arena); datagrams unprotected from roomy receive buffers with sentinel octets behind them; injected random streams that read short.",
    "C02": "Also: both cleartext type octets set to every value, truncations with re-framed lengths, receivers that accepted the genuine message first, roomy receive buffers (nothing behind the datagram written; a refused datagram is refused again from the same buffer).",
    "C03": "Also: every other message is housed in shared backing arrays (each octet string and list has spare capacity and another field of the message behind it) and must be unchanged after Encode.",
    "C04": "Also: an allocation guard (heap octets allocated per decoder call <= 16 MiB + 1 KiB per input octet), no write to the poisoned spare capacity behind the input, key sets whose algorithm descriptors were looked up by unknown names.",
    "C05": "Also: messages housed in shared backing arrays must be unchanged after Encode; traffic selector addresses include the ones address-handling code treats specially (IPv4-mapped etc.).",
    "C06": "Also: injected random streams delivered in short reads; messages housed in shared backing arrays; roomy receive buffers.",
    "C07": "Also: nonces and shared secret as views into one buffer (nothing in it may be written), second derivation on the same object (right keys or a refusal).",
    "C08": "Also: nonces up to 600 octets held back to back in one buffer, Child SAs negotiated first and keyed later, by-value copies of one negotiated template, empty non-nil key fields, an IKE SA holding the keyed PRF object only, keys of the last 16 Child SAs re-checked after every derivation.",
    "C09": "Also: transient failures of the random source (only read k fails), failures behind too-small candidates, sources that read short, arguments not modified; a hang that depends on earlier failures is reported after a second run of the shard.",
    "C10": "Also: plaintexts with spare capacity, sources that read short, transient failures enumerated at every read, ciphertexts handed out earlier re-checked at the end of the history.",
    "C11": "Also: every ordered pair of negotiations through every path to a descriptor (the first descriptor still describes its own algorithm after the second was decoded), the last 24 descriptors handed out asked again whenever a new one is obtained, unknown algorithm names answered with a plain nil descriptor.",
    "C13": "Also: insertions in the outer chain of a protected message, plain datagrams through DecodeDecrypt with and without keys, host messages carrying an opaque Encrypted payload.",
    "C14": "Also: refused SetAttr calls interleaved, Marshal after every SetAttr, the caller's value buffer and the receive buffer reused, a second decoded copy unaffected by changes to the first, decoding into an EAP value that has decoded before.",
    "C15": "Also: reference-built packets with repeated AT_KDF, with attributes outside the model and of more than 4096 octets; repeated computations (wrong key, right key twice, once more after a refused SetAttr); MAC of a decoded-then-modified packet.",
    "C16": "Also: IK' and CK' as views into one buffer (nothing in it may be written); keys returned earlier unchanged after further derivations.",
    "C17": "Also: authentic-but-malformed messages (right checksum; SK body of arbitrary length, impossible pad length, or octets that are no payload chain), tampering of a message just accepted; a step that never returns is a violation.",
    "C18": "Also: decode-modify-encode operations on messages and EAP packets (every reachable octet string of the decoded value is written to), decode inputs with unsupported payloads, sender liberties and mutations; the concurrent phase runs before the sequential reference run and every process starts with a cold burst of all operation kinds.",
    "C19": "Also: octet-string arguments as views with spare capacity (unchanged afterwards), Reset-then-build on all five container types, a Delete count argument disagreeing with the SPI list, a builder that returns an error appends nothing.",
    "C20": "Also: messages housed in shared backing arrays, every returned buffer overwritten (IKEHeader.Marshal() stays what it was), the caller's own container variable after EncodeEncrypt, six encodings of every accepted input.",
}
for _k, _v in ADDENDA.items():
    META[_k]["level_text"] = META[_k]["level_text"].rstrip() + " " + _v

# what rounds 7-9 of the seeded-change experiments added (DESIGN sections 3.6 - 3.8)
ADDENDA2 = {
    "C01": "Later: GOMAXPROCS rotated over the cases; 70000 round trips on one SA pair; every notify / configuration attribute type inside SK; pre-parsed headers taken from another (reused) buffer or from 28 octets alone; authenticated parts of exactly k*4096 octets; chains of up to 300 payloads; fields of a message related to each other (SPIs equal to the header's).",
    "C02": "Later: unknown payloads spliced in front of SK, header rewritten as an initial request, SK payload cut short with the rest framed as another payload, messages of 1-12 KiB with a spy under the cipher interface, authenticated parts of exactly k*4096 octets.",
    "C03": "Later: identifier sweeps (all 16-bit notify, attribute, group and transform ids; KE values shaped like their group; DER-like certificate data), messages of > 1 MiB, 1.1 million decodes in one process, the decoded message printed, re-encoded with edited header fields and with transform attributes switched between formats.",
    "C04": "Later: retention and goroutine census around a flood of 12000 datagrams (a quarter refused), identifier sweeps as payload bodies, direct inputs of up to 8 MB (two million skipped payloads, 60000 empty attributes, ciphertexts of 16 + k*65536 octets) under a 32 MiB stack limit.",
    "C05": "Later: identifier sweeps in both directions, network names / identities / KE shapes / DER data as contents, messages of > 1 MiB.",
    "C06": "Later: reference senders that chain IVs and use pad conventions of other protocols, authenticated parts of exactly k*4096 octets, SPIs starting with transport-shim prefixes.",
    "C07": "Later: arguments related to each other (nonce ending in the SPIs, nonce = secret), hash objects used as handed out and across Sum calls, an SA left idle for seconds.",
    "C08": "Later: nonces related to the IKE SA's and to earlier ones, templates keyed under another IKE SA before, ToProposal before keying, 2300 Child SAs of one IKE SA, an IKE SA left idle for seconds.",
    "C09": "Later: error kinds of the random source (EAGAIN, EINTR, EOF ...), k(p-1) exponents, 70000 exponents, peer values of every shape through CalculateDiffieHellmanMaterials with a pinned random stream, exponent objects changed in place.",
    "C10": "Later: chained IVs, 70000 encryptions on one object, arguments at every memory alignment, keys inside longer keying material, a cipher object left idle for seconds.",
    "C11": "Later: key-length sweeps for neighbouring identifiers, proposals of other protocols, a binary linking only the algorithm packages, the caller refilling its proposal / editing the transforms it was handed.",
    "C12": "Later: identifier sweeps through the canonical fixed point, related selectors and proposals, decoded messages printed before they are re-encoded.",
    "C13": "Later: bodies that read as fragments / nested chains for the registered unsupported types, every 8-bit identifier next to an unsupported payload, one type code several times, type codes named (String) before decoding, 1.1 million container decodes.",
    "C14": "Later: EAP lengths across octet boundaries, network names and digests of nothing as values, zero-value packets, nil and empty values, packets printed and asked for absent attributes, gaps of exactly 255..131072 SetAttr calls, a packet left idle for seconds.",
    "C15": "Later: two packets in lock step, RES bit lengths that are no multiple of 8, MAC after 30000 other packets and after seconds of idling, the method decoder called directly, decoded packets with edited header fields.",
    "C16": "Later: SUPI / NAI / SUCI identities, keys related to each other, empty keys as nil and as empty slices, 70000 derivations.",
    "C17": "Later: bulk histories (megabytes per SA) under changing GOMAXPROCS, runs of forgeries, an earlier datagram again (A B A), nonces related to earlier ones, Child SAs with a DH descriptor, an SA pair left idle for seconds.",
    "C18": "Later: error-path bursts, DH storms (96 goroutines on 4 processors), hammer bursts (8 goroutines repeating one operation with their own / the same arguments and the same read-only datagram), goroutine census after successful and after refused calls.",
    "C19": "Later: special-purpose IPv4 blocks, sequences of 2-10 builder calls with every earlier payload re-checked, NAS PDUs of 32-64 KiB in a row, PEM / text contents.",
    "C20": "Later: identifier sweeps, the decoded message printed, edited and re-encoded (receive buffer untouched, encoding outside it), decoded fields that do not overlap each other, pre-parsed headers from a reused buffer, a decoded message left idle for seconds.",
}
for _k, _v in ADDENDA2.items():
    META[_k]["level_text"] = META[_k]["level_text"].rstrip() + " " + _v
