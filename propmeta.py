"""Per-property metadata used by the driver for evidence files (rule of non-triviality, assumptions, fuzz targets)."""

COMMON_ASSUME = [
    "Go std crypto/aes, crypto/md5, crypto/sha1, crypto/sha256, math/big (Mul, Mod), encoding/json and rapid v1.3.0 are trusted",
    "the harness's own reference implementations (harness/ref, written from the RFC texts, self-tested against RFC vectors and std at the start of every run) are correct",
    "properties are established only for the cases generated; nothing is proved",
]

NOT_APPLICABLE = {}

EXPLORATION_NOTE = ("trusted base: Go std crypto primitives and math/big, rapid v1.3.0, the harness's RFC-text reference implementations "
                    "(self-tested against RFC vectors and std on every run); establishes the property for the generated cases only")

META = {
    "C03": {
        "technique": "property-based testing (rapid): round trip decode(encode(m)) == m over generated domain messages",
        "level_text": "Generated-input search with a round-trip oracle on the harness's own message model; thousands of structurally diverse messages per run including boundary sizes (SPI 248-255, attribute types >= 128, TLV attributes, 64 KiB payloads, all 15 payload kinds). Exploration, not proof.",
        "level_note": EXPLORATION_NOTE,
        "rule": "rapid draws messages of the encodable domain (harness/gen: sizes from a mixture of small / boundary / uniform values, construction not rejection); "
                "a case is non-trivial if the message has >= 1 payload; distinct = distinct hash of (check, model JSON)",
        "assumptions": COMMON_ASSUME + ["equality is on the normalised model: nil == empty byte string; transforms compared per transform type in order (all the library's data model can hold)"],
    },
    "C05": {
        "technique": "property-based testing (rapid): differential against an independently written RFC 7296 codec, both directions, with sender liberties",
        "level_text": "Differential testing against a strict reference parser (library output must be well-formed and parse to the same fields) and a reference encoder with random reserved bits / critical flags / transform interleavings (library must decode to the fields encoded). Catches symmetric encoder+decoder errors a round trip cannot see. Exploration.",
        "level_note": EXPLORATION_NOTE,
        "rule": "forward: rapid-drawn domain message, non-trivial if >= 1 payload; reverse: reference-encoded image with a rapid-drawn liberty stream, non-trivial if >= 1 payload and (>= 1 non-zero reserved site or a non-canonical transform interleaving); distinct by hash of the input",
        "assumptions": COMMON_ASSUME + ["byte equality with the canonical reference encoding is recorded (label) but not demanded: the RFC does not fix transform order"],
    },
}
