"""Per-property metadata used by the driver for evidence files (rule of non-triviality, assumptions, fuzz targets)."""

COMMON_ASSUME = [
    "Go std crypto/aes, crypto/md5, crypto/sha1, crypto/sha256, math/big (Mul, Mod), encoding/json and rapid v1.3.0 are trusted",
    "the harness's own reference implementations (harness/ref, written from the RFC texts, self-tested against RFC vectors and std at the start of every run) are correct",
    "properties are established only for the cases generated; nothing is proved",
]

NOT_APPLICABLE = {}

EXPLORATION_NOTE = ("trusted base: Go std crypto primitives and math/big, rapid v1.3.0, the harness's RFC-text reference implementations "
                    "(self-tested against RFC vectors and std on every run); establishes the property for the generated cases only")

META = {
    "C03": {
        "technique": "property-based testing (rapid): round trip decode(encode(m)) == m over generated domain messages",
        "level_text": "Generated-input search with a round-trip oracle on the harness's own message model; thousands of structurally diverse messages per run including boundary sizes (SPI 248-255, attribute types >= 128, TLV attributes, 64 KiB payloads, all 15 payload kinds). Exploration, not proof.",
        "level_note": EXPLORATION_NOTE,
        "rule": "rapid draws messages of the encodable domain (harness/gen: sizes from a mixture of small / boundary / uniform values, construction not rejection); "
                "a case is non-trivial if the message has >= 1 payload; distinct = distinct hash of (check, model JSON)",
        "assumptions": COMMON_ASSUME + ["equality is on the normalised model: nil == empty byte string; transforms compared per transform type in order (all the library's data model can hold)"],
    },
    "C04": {
        "technique": "deterministic exhaustive boundary sweeps + property-based testing (rapid) + native coverage-guided fuzzing, oracle: value-or-error, no panic/hang, capacity independence (exact-capacity vs poisoned spare capacity), whole = sum of parts",
        "level_text": "Every decoding entry point is driven with (a) exhaustive sweeps: every prefix of fixed templates, every value of every 8-bit size field and boundary values of every 16/32-bit length field combined with buffer lengths in a window around the implied extents, hand-built nested SA structures with consistent outer lengths, SK bodies of every short length with and without a valid ICV for all 9 suites and both roles; (b) rapid-generated raw and structure-mutated strings; (c) post-MAC inputs built by a reference SK builder with arbitrary inner octets and pad-length octets; (d) native fuzz targets in the thorough tier. A panic, a hang (watchdog) or any dependence of the outcome on memory behind the slice is a violation. Exploration with exhaustive sub-tables.",
        "level_note": EXPLORATION_NOTE + "; 'work bounded by the input length' is checked as termination plus an output-size guard, not as a complexity bound",
        "rule": "cases = (entry point, byte string [, suite, keys, role, header mode]); sweeps enumerate templates x size fields x values x truncation lengths, rapid draws raw / valid / mutated strings; non-trivial = the decoder got past its first bounds check (a value was returned, or the error is not one of the 'no sufficient bytes for the fixed header' messages); distinct by hash of (entry, octets, keys, role, header mode)",
        "assumptions": COMMON_ASSUME + ["capacity independence is observed through two (quick) or four (thorough) poison patterns in >= 96 octets of spare capacity and an exact-capacity copy on which any read past len panics"],
        "fuzz": [{"name": "FuzzC04Message", "seconds": 90}, {"name": "FuzzC04Body", "seconds": 90}, {"name": "FuzzC04EAP", "seconds": 60}, {"name": "FuzzC04UnprotectInner", "seconds": 90}],
        "timeout_quick": 900, "timeout_thorough": 7200,
    },
    "C12": {
        "technique": "property-based testing (rapid) over accepted byte strings (mutated / reference-built / short-body images) + native fuzzing: one-step fixed point of decode/encode, canonical input => byte-identical output",
        "level_text": "Metamorphic fixed-point oracle on byte strings the decoder accepts: decode, encode, decode again must give an equal message and the second encoding must equal the first; canonical reference-built datagrams must re-encode byte-identically. Inputs are structure-aware mutations of valid images (lengths, reserved bits, flags, type codes, attribute encodings), reference images with sender liberties, chains of supported payload types with arbitrary short bodies, raw strings, and bare EAP packets. Exploration.",
        "level_note": EXPLORATION_NOTE + "; an Encode error or panic on a decoded message discharges the premise (counted as 'unencodable' / 'encode_panics', printed as OBSERVATION), as the property is worded",
        "rule": "rapid draws a byte string by one of: canonical reference encoding, reference encoding with liberties, 1-4 structure-aware mutations of a valid image, raw octets, supported-type payloads with arbitrary short bodies; non-trivial = accepted by the decoder AND re-encodable (none of the inputs is produced by the library's own encoder); distinct by hash of the octets",
        "assumptions": COMMON_ASSUME + ["canonical = zero reserved bits, no unsupported payloads, transforms in ascending transform-type order (the library's data model cannot hold another order)"],
        "fuzz": [{"name": "FuzzC12Stable", "seconds": 90}, {"name": "FuzzC12EAPStable", "seconds": 60}],
    },
    "C13": {
        "technique": "exhaustive single-insertion table (239 type codes x positions x flag x hosts x entry points) + property-based testing (rapid) of multi-insertions; oracle: equals host message / error if critical",
        "level_text": "Metamorphic oracle: a reference-encoded message with inserted payloads of unimplemented types must decode exactly like the host message when none is critical and must be rejected when any is; critical flags on implemented types must change nothing. Single insertions are enumerated exhaustively; multiple / adjacent insertions with bodies up to 1024 octets and random reserved bits are generated. Exploration with an exhaustive sub-table.",
        "level_note": EXPLORATION_NOTE,
        "rule": "table: all type codes 1..32, 49..255 x {front, middle, end} x {critical, not} x 3 host messages x {whole message, payload container}; rapid: 1..4 insertions into generated domain messages; non-trivial = an insertion that is not at the end of the chain (the chain must be followed through it), or a critical one; distinct by hash of the input",
        "assumptions": COMMON_ASSUME,
    },
    "C05": {
        "technique": "property-based testing (rapid): differential against an independently written RFC 7296 codec, both directions, with sender liberties",
        "level_text": "Differential testing against a strict reference parser (library output must be well-formed and parse to the same fields) and a reference encoder with random reserved bits / critical flags / transform interleavings (library must decode to the fields encoded). Catches symmetric encoder+decoder errors a round trip cannot see. Exploration.",
        "level_note": EXPLORATION_NOTE,
        "rule": "forward: rapid-drawn domain message, non-trivial if >= 1 payload; reverse: reference-encoded image with a rapid-drawn liberty stream, non-trivial if >= 1 payload and (>= 1 non-zero reserved site or a non-canonical transform interleaving); distinct by hash of the input",
        "assumptions": COMMON_ASSUME + ["byte equality with the canonical reference encoding is recorded (label) but not demanded: the RFC does not fix transform order"],
    },
}
