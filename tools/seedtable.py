#!/usr/bin/env python3
"""Prints the markdown table of seeded changes (from /verif/seeded/*/meta.json and HANDMUTANTS.json)."""
import glob, json, os
rows = []
for f in sorted(glob.glob('/verif/seeded/*/meta.json')):
    m = json.load(open(f))
    d = os.path.basename(os.path.dirname(f))
    need = " ".join(m.get("needs_to_manifest", "").split())
    if len(need) > 260:
        need = need[:257] + "..."
    det = ", ".join(m.get("detected_by", [])) or "MISSED"
    ran = ", ".join("%s:%s" % (k, "VIOLATION" if v["exit"] == 1 else "pass") for k, v in m.get("checks", {}).items())
    rows.append("| `%s` | %s | %s | %s |" % (d, need.replace("|", "/"), det, ran))
print("| seeded change (sub-agent) | what it needs to manifest | caught by | quick checks run |")
print("|---|---|---|---|")
print("\n".join(rows))
print()
hm = json.load(open('/verif/seeded/HANDMUTANTS.json'))
print("| hand-written mutant | file | outcome |")
print("|---|---|---|")
for r in hm:
    if "checks" in r:
        o = ", ".join("%s: %s" % (k, "caught" if v["exit"] == 1 and v["violations"] else "not caught (exit %d)" % v["exit"]) for k, v in r["checks"].items())
    else:
        o = r.get("status", "?")
    print("| %s | %s | %s |" % (r["mutant"], r["file"], o))
