#!/bin/bash
# runs the repository's own pinned test suite (guard off) and prints pass/fail counts
cd /repo && go test -vet=off -count=1 -json ./... 2>&1 | python3 -c "
import sys,json
p=f=0
for l in sys.stdin:
    try: e=json.loads(l)
    except: continue
    if e.get('Test') and e.get('Action')=='pass': p+=1
    if e.get('Test') and e.get('Action')=='fail': f+=1; print('FAIL',e['Package'],e['Test'])
    if not e.get('Test') and e.get('Action')=='fail': print('PKG FAIL',e.get('Package'))
print('passed',p,'failed',f)
sys.exit(0 if f==0 and p>=240 else 1)"
