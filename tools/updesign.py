#!/usr/bin/env python3
"""Regenerates the seeded-change table inside DESIGN.md section 10 from seeded/*/meta.json (tools/seedtable.py)."""
import subprocess, re
out = subprocess.check_output(["python3", "/verif/tools/seedtable.py"]).decode()
table = out.split("\n\n")[0].rstrip("\n")
lines = open("/verif/DESIGN.md").read().split("\n")
i = next(k for k, l in enumerate(lines) if l.startswith("| seeded change (sub-agent)"))
j = i
while j < len(lines) and lines[j].startswith("|"):
    j += 1
lines[i:j] = table.split("\n")
open("/verif/DESIGN.md", "w").write("\n".join(lines))
print("table rows:", len(table.split("\n")) - 2)
