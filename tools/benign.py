#!/usr/bin/env python3
"""False-alarm experiment: applies a behaviour-preserving change (w.r.t. the listed properties) to /repo, runs ALL quick
checks, undoes it. Any check that does not exit 0 is either a false alarm of the harness or a change that is not benign
after all - to be decided by hand.

  benign.py <src_dir> <i> <slug>
"""
import concurrent.futures, json, os, re, shutil, subprocess, sys, time

ENV = dict(os.environ, GOFLAGS="-mod=mod", GOPROXY="off", GOSUMDB="off", GOTOOLCHAIN="local")
IDS = ["C%02d" % i for i in range(1, 21)]


def sh(cmd, cwd=None, timeout=3600):
    p = subprocess.run(cmd, shell=True, cwd=cwd, env=ENV, stdout=subprocess.PIPE, stderr=subprocess.STDOUT, timeout=timeout)
    return p.returncode, p.stdout.decode("utf-8", "replace")


def main():
    src, i, slug = sys.argv[1:4]
    diff = os.path.join(src, "benign%s.diff" % i)
    note = open(os.path.join(src, "note%s.txt" % i)).read() if os.path.exists(os.path.join(src, "note%s.txt" % i)) else ""
    rc, out = sh("git -C /repo status --porcelain")
    assert out.strip() == "", "/repo not clean: " + out
    rc, out = sh("git -C /repo apply %s" % diff)
    if rc != 0:
        print("does not apply:", out)
        return 1
    meta = {"slug": slug, "claim": note.strip(), "checks": {}}
    try:
        rc, out = sh("go build ./... 2>&1", cwd="/repo")
        if rc != 0:
            print("does not compile", out[-400:])
            return 1
        rc, out = sh("/verif/tools/repotest.sh")
        meta["library_suite"] = out.strip().splitlines()[-1]
        if rc != 0:
            print("library suite fails:", out[-400:])
            return 1

        def one(cid):
            t0 = time.time()
            rc, out = sh("./check %s quick" % cid, cwd="/verif")
            return cid, rc, out, time.time() - t0

        with concurrent.futures.ThreadPoolExecutor(max_workers=5) as ex:
            for cid, rc, out, dt in ex.map(one, IDS):
                viol = re.findall(r"^VIOLATION property=\S+ replay=\S+", out, re.M)
                meta["checks"][cid] = {"exit": rc, "violations": len(viol), "seconds": round(dt, 1)}
                if rc != 0:
                    meta["checks"][cid]["tail"] = out.strip().splitlines()[-8:]
                    print("  %s exit %d:" % (cid, rc))
                    for l in out.strip().splitlines()[-8:]:
                        print("      " + l[:400])
    finally:
        sh("git -C /repo checkout -- . && git -C /repo clean -fdq")
        rc, out = sh("git -C /repo status --porcelain")
        assert out.strip() == "", "/repo not clean after undo: " + out
        sh("git checkout -- evidence", cwd="/verif")
    bad = [c for c, r in meta["checks"].items() if r["exit"] != 0]
    meta["alarms"] = bad
    d = "/verif/seeded/benign/%s" % slug
    os.makedirs(d, exist_ok=True)
    shutil.copyfile(diff, os.path.join(d, "patch.diff"))
    json.dump(meta, open(os.path.join(d, "meta.json"), "w"), indent=1)
    print("%s: alarms=%s" % (slug, bad))
    return 0


if __name__ == "__main__":
    sys.exit(main())
