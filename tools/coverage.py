#!/usr/bin/env python3
"""Statement coverage of /repo reached by the quick tier of every check (C18 excluded: race build).

Not part of any verdict; it answers "does a generator never reach some live code?".  Prints the union coverage and the
uncovered blocks per file.  Scratch output in /verif/.work/cov (removed afterwards).
"""
import collections, glob, os, re, shutil, subprocess, sys

ROOT = os.path.dirname(os.path.dirname(os.path.abspath(__file__)))
COV = os.path.join(ROOT, ".work", "cov")
ENV = dict(os.environ, GOFLAGS="-mod=mod", GOPROXY="off", GOSUMDB="off", GOTOOLCHAIN="local", VERIF_ROOT=ROOT,
           VERIF_TIER="quick", VERIF_SEED=os.environ.get("VERIF_SEED", "1"), VERIF_OUT=os.path.join(COV, "out"))
shutil.rmtree(COV, ignore_errors=True)
os.makedirs(os.path.join(COV, "out"))
binp = os.path.join(COV, "props.cov.test")
subprocess.check_call(["go", "test", "-c", "-cover", "-coverpkg=github.com/free5gc/ike/...", "-o", binp, "./props"],
                      cwd=os.path.join(ROOT, "harness"), env=ENV)
ids = [p for p in ("C%02d" % i for i in range(1, 21)) if p != "C18"]
procs = [subprocess.Popen([binp, "-test.run", "^Test%s$" % p, "-test.count=1", "-test.timeout", "0",
                           "-test.coverprofile=" + os.path.join(COV, p + ".cov")], cwd=os.path.join(ROOT, "harness", "props"),
                          env=ENV, stdout=subprocess.DEVNULL, stderr=subprocess.DEVNULL) for p in ids]
for p in procs:
    p.wait()
blocks = {}
per = {}
for f in glob.glob(os.path.join(COV, "C*.cov")):
    pid = os.path.basename(f)[:3]
    c = t = 0
    for l in open(f):
        m = re.match(r"(.*):(\d+)\.\d+,(\d+)\.\d+ (\d+) (\d+)", l)
        if not m:
            continue
        k = (m.group(1), int(m.group(2)), int(m.group(3)), int(m.group(4)))
        blocks[k] = blocks.get(k, 0) + int(m.group(5))
        t += k[3]
        c += k[3] if int(m.group(5)) else 0
    per[pid] = 100.0 * c / max(t, 1)
tot = sum(k[3] for k in blocks)
cov = sum(k[3] for k, v in blocks.items() if v)
print("union statement coverage of github.com/free5gc/ike/... by the quick tiers: %.1f%% (%d/%d)" % (100.0 * cov / tot, cov, tot))
print("per check: " + " ".join("%s=%.0f%%" % kv for kv in sorted(per.items())))
by = collections.defaultdict(list)
for k, v in sorted(blocks.items()):
    if not v:
        by[k[0]].append("%d-%d" % (k[1], k[2]))
for f, ls in by.items():
    print(f.replace("github.com/free5gc/ike/", ""), " ".join(ls))
shutil.rmtree(COV, ignore_errors=True)
