#!/usr/bin/env python3
"""Confirms a seeded change and runs the checks against it.

  seed.py <prop> <src_dir> <i> <slug> [extra check ids...]

 1. in a scratch worktree of /repo (removed afterwards): the demo test passes on the unmodified library; with the
    change applied the library compiles, its own suite passes, and the demo test fails;
 2. applies the change to /repo, runs `./check <ID> quick` for the property (and extra ids), undoes it straight afterwards;
 3. stores patch.diff, the demo and meta.json under /verif/seeded/<prop>-<slug>/ if step 1 confirmed the change.
"""
import json, os, re, shutil, subprocess, sys, time

ENV = dict(os.environ, GOFLAGS="-mod=mod", GOPROXY="off", GOSUMDB="off", GOTOOLCHAIN="local")


def sh(cmd, cwd=None, timeout=1800):
    p = subprocess.run(cmd, shell=True, cwd=cwd, env=ENV, stdout=subprocess.PIPE, stderr=subprocess.STDOUT, timeout=timeout)
    return p.returncode, p.stdout.decode("utf-8", "replace")


def suite(wt):
    rc, out = sh("go test -vet=off -count=1 -json ./... 2>&1", cwd=wt)
    p = f = 0
    for l in out.splitlines():
        try:
            e = json.loads(l)
        except Exception:
            continue
        if e.get("Test") and e.get("Action") == "pass":
            p += 1
        if e.get("Action") == "fail":
            f += 1
    return p, f


def main():
    prop, src, i, slug = sys.argv[1:5]
    extra = sys.argv[5:]
    diff = os.path.join(src, "mutant%s.diff" % i)
    demo = os.path.join(src, "demo%s_test.go" % i)
    note = open(os.path.join(src, "note%s.txt" % i)).read() if os.path.exists(os.path.join(src, "note%s.txt" % i)) else ""
    head = open(demo).read(600)
    m = re.search(r"place in:\s*([^\s(]+)", head)
    place = (m.group(1) if m else ".").strip().rstrip("/")
    race = "-race " if "-race" in open(demo).read(1500) else ""
    if place in (".", "./"):
        place = ""
    wt = "/tmp/mt/wt-%s-%s" % (prop, i)
    shutil.rmtree(wt, ignore_errors=True)
    os.makedirs("/tmp/mt", exist_ok=True)
    sh("git -C /repo worktree prune")
    rc, out = sh("git -C /repo worktree add --detach %s HEAD" % wt)
    assert rc == 0, out
    meta = {"property": prop, "slug": slug, "source": "independent sub-agent given only the property text and a scratch worktree",
            "needs_to_manifest": note.strip(), "ran": []}
    ok = True
    try:
        dst = os.path.join(wt, place, "zz_seed_demo_test.go")
        shutil.copyfile(demo, dst)
        pkg = "./" + place if place else "."
        rc0, out0 = sh("go test %s-vet=off -count=1 %s 2>&1" % (race, pkg), cwd=wt)
        demo_pass_unmodified = rc0 == 0
        meta["ran"].append("demo test on the unmodified library: %s" % ("PASS" if demo_pass_unmodified else "FAIL\n" + out0[-600:]))
        os.remove(dst)
        rc, out = sh("git apply %s" % diff, cwd=wt)
        applied = rc == 0
        meta["ran"].append("git apply: %s" % ("ok" if applied else out))
        rcb, outb = sh("go build ./... 2>&1 | tail -5", cwd=wt)
        p, f = suite(wt)
        meta["ran"].append("library's own suite with the change: %d passed, %d failed" % (p, f))
        shutil.copyfile(demo, dst)
        rc1, out1 = sh("go test %s-vet=off -count=1 %s 2>&1" % (race, pkg), cwd=wt)
        demo_fail_mutated = rc1 != 0
        meta["ran"].append("demo test with the change: %s" % ("FAIL (as required)" if demo_fail_mutated else "PASS (change not demonstrated)"))
        ok = applied and demo_pass_unmodified and demo_fail_mutated and f == 0 and p >= 240
        meta["confirmed"] = ok
        print("confirm: apply=%s suite=%d/%d demo_unmod_pass=%s demo_mut_fail=%s => %s" % (applied, p, f, demo_pass_unmodified, demo_fail_mutated, ok))
        if not demo_fail_mutated:
            print(out1[-800:])
        if not demo_pass_unmodified:
            print(out0[-800:])
    finally:
        sh("git -C /repo worktree remove --force %s" % wt)
        shutil.rmtree(wt, ignore_errors=True)
    if not ok:
        print("NOT CONFIRMED - not kept")
        return 1
    # run the checks against the change applied to /repo
    rc, out = sh("git -C /repo status --porcelain")
    assert out.strip() == "", "/repo not clean: " + out
    results = {}
    rc, out = sh("git -C /repo apply %s" % diff)
    assert rc == 0, out
    try:
        for cid in [prop] + extra:
            t0 = time.time()
            rc, out = sh("./check %s quick" % cid, cwd="/verif", timeout=3600)
            viol = re.findall(r"^VIOLATION property=\S+ replay=\S+", out, re.M)
            results[cid] = {"exit": rc, "violations": len(viol), "seconds": round(time.time() - t0, 1), "tail": out.strip().splitlines()[-6:]}
            print("check %s quick -> exit %d, %d VIOLATION line(s), %.0fs" % (cid, rc, len(viol), time.time() - t0))
            for l in out.strip().splitlines()[-6:]:
                print("    " + l[:300])
    finally:
        sh("git -C /repo checkout -- . && git -C /repo clean -fdq")
        rc, out = sh("git -C /repo status --porcelain")
        assert out.strip() == "", "/repo not clean after undo: " + out
    meta["checks"] = results
    meta["detected_by"] = [c for c, r in results.items() if r["exit"] == 1 and r["violations"] > 0]
    d = "/verif/seeded/%s-%s" % (prop, slug)
    os.makedirs(d, exist_ok=True)
    shutil.copyfile(diff, os.path.join(d, "patch.diff"))
    shutil.copyfile(demo, os.path.join(d, "demo_test.go"))
    json.dump(meta, open(os.path.join(d, "meta.json"), "w"), indent=1)
    # restore evidence files written while the change was applied
    sh("git checkout -- evidence", cwd="/verif")
    print("kept in", d, "detected_by=", meta["detected_by"])
    return 0


if __name__ == "__main__":
    sys.exit(main())
