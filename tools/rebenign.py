#!/usr/bin/env python3
"""Re-runs every kept behaviour-preserving change (seeded/benign/*/patch.diff) against ALL quick checks, one change at a
time (tools/benign.py does the work); prints the changes that make a check exit non-zero. /repo must be clean and nobody
else may be applying patches to it meanwhile."""
import glob, os, shutil, subprocess, sys, tempfile
only = sys.argv[1:]
bad = 0
for d in sorted(glob.glob("/verif/seeded/benign/*/")):
    slug = os.path.basename(d.rstrip("/"))
    if only and slug not in only:
        continue
    tmp = tempfile.mkdtemp(prefix="rebenign-", dir="/verif/.work")
    try:
        shutil.copyfile(os.path.join(d, "patch.diff"), os.path.join(tmp, "benign1.diff"))
        import json
        note = json.load(open(os.path.join(d, "meta.json"))).get("claim", "")
        open(os.path.join(tmp, "note1.txt"), "w").write(note)
        p = subprocess.run(["python3", "/verif/tools/benign.py", tmp, "1", slug], stdout=subprocess.PIPE, stderr=subprocess.STDOUT)
        out = p.stdout.decode()
        last = out.strip().splitlines()[-1] if out.strip() else "(no output)"
        print(last, flush=True)
        if "alarms=[]" not in last:
            bad += 1
            print(out[-3000:], flush=True)
    finally:
        shutil.rmtree(tmp, ignore_errors=True)
print("changes with alarms:", bad)
