#!/usr/bin/env python3
"""Sensitivity runs with hand-written mutants (the 'Sensitivity' lists of DESIGN.md section 5).

Each mutant is (name, file, old, new, [property ids]). For each: apply to /repo, make sure the library's own suite
still passes (otherwise the mutant is not interesting), run the quick checks named, undo. Prints a table and
writes /verif/seeded/HANDMUTANTS.json. /repo is restored after every mutant.
"""
import json, os, re, subprocess, sys, time

ENV = dict(os.environ, GOFLAGS="-mod=mod", GOPROXY="off", GOSUMDB="off", GOTOOLCHAIN="local")


def sh(cmd, cwd=None, timeout=3600):
    p = subprocess.run(cmd, shell=True, cwd=cwd, env=ENV, stdout=subprocess.PIPE, stderr=subprocess.STDOUT, timeout=timeout)
    return p.returncode, p.stdout.decode("utf-8", "replace")


M = [
    # C01
    ("decrypt-uses-own-direction-cipher", "ike.go", "if plainText, err = ikesaKey.Encr_r.Decrypt(cipherText); err != nil {", "if plainText, err = ikesaKey.Encr_i.Decrypt(cipherText); err != nil {", ["C01", "C06"]),
    ("verify-with-own-role-key", "ike.go", "err := verifyIntegrity(msg[:len(msg)-checksumLength], checksum, ikesaKey, !role)", "err := verifyIntegrity(msg[:len(msg)-checksumLength], checksum, ikesaKey, role)", ["C01", "C02", "C06"]),
    ("sk-next-from-last-payload", "ike.go", "encrNextPayloadType = ikePayloads[0].Type()", "encrNextPayloadType = ikePayloads[len(ikePayloads)-1].Type()", ["C01", "C06"]),
    # C02
    ("mac-skips-header", "ike.go", "err := verifyIntegrity(msg[:len(msg)-checksumLength], checksum, ikesaKey, !role)", "err := verifyIntegrity(msg[28:len(msg)-checksumLength], checksum, ikesaKey, !role)", ["C02", "C06"]),
    ("mac-compare-first-4", "ike.go", "if !hmac.Equal(checksum, expectChecksum) {", "if !hmac.Equal(checksum[:4], expectChecksum[:4]) {", ["C02"]),
    # C03 / C05
    ("ts-ports-swapped-in-decoder", "message/payload_trafficselectorinitiator.go", "individualTrafficSelector.StartPort = binary.BigEndian.Uint16(b[4:6])\n\t\t\t\tindividualTrafficSelector.EndPort = binary.BigEndian.Uint16(b[6:8])\n\n\t\t\t\tindividualTrafficSelector.StartAddress = append(individualTrafficSelector.StartAddress, b[8:24]...)",
     "individualTrafficSelector.StartPort = binary.BigEndian.Uint16(b[6:8])\n\t\t\t\tindividualTrafficSelector.EndPort = binary.BigEndian.Uint16(b[4:6])\n\n\t\t\t\tindividualTrafficSelector.StartAddress = append(individualTrafficSelector.StartAddress, b[8:24]...)", ["C03", "C05"]),
    ("minor-version-dropped", "message/header.go", "b[17] = (h.MajorVersion << 4) | (h.MinorVersion & 0x0F)", "b[17] = (h.MajorVersion << 4)", ["C03", "C05"]),
    ("msgid-little-endian-both-sides", "message/header.go", None, None, ["C03", "C05"]),
    ("cp-reserved-2-octets-both-sides", "message/payload_configuration.go", None, None, ["C03", "C05"]),
    ("ke-group-masked", "message/payload_keyexchange.go", "keyExchange.DiffieHellmanGroup = binary.BigEndian.Uint16(b[0:2])", "keyExchange.DiffieHellmanGroup = binary.BigEndian.Uint16(b[0:2]) & 0x7fff", ["C03", "C05"]),
    ("decoder-rejects-reserved-bit", "message/message.go", "\t\tcriticalBit := (b[1] & 0x80) >> 7\n", "\t\tcriticalBit := (b[1] & 0x80) >> 7\n\t\tif b[1]&0x7f != 0 {\n\t\t\treturn errors.Errorf(\"reserved bits set\")\n\t\t}\n", ["C05", "C13"]),
    # C04
    ("payload-length-lt4-check-removed", "message/message.go", "\t\tif payloadLength < 4 {\n\t\t\treturn errors.Errorf(\"DecodePayload(): Illegal payload length %d < header length 4\", payloadLength)\n\t\t}\n", "", ["C04"]),
    ("eap-expanded-short-check", "eap/eap_expanded.go", "if len(b) < 8 {", "if len(b) < 5 {", ["C04"]),
    # C07
    ("sk-ai-ar-swapped", "security/security.go", "\tikesaKey.SK_ai = keyStream[:length_SK_ai]\n\tkeyStream = keyStream[length_SK_ai:]\n\tikesaKey.SK_ar = keyStream[:length_SK_ar]", "\tikesaKey.SK_ar = keyStream[:length_SK_ai]\n\tkeyStream = keyStream[length_SK_ai:]\n\tikesaKey.SK_ai = keyStream[:length_SK_ar]", ["C07"]),
    ("sk-p-length-is-integ-length", "security/security.go", "length_SK_pi, length_SK_pr = length_SK_d, length_SK_d", "length_SK_pi, length_SK_pr = length_SK_ai, length_SK_ai", ["C07"]),
    ("seed-spis-swapped", "security/security.go", "seed := concatenateNonceAndSPI(concatenatedNonce, initiatorSPI, responderSPI)", "seed := concatenateNonceAndSPI(concatenatedNonce, responderSPI, initiatorSPI)", ["C07"]),
    ("integ-r-keyed-with-sk-ai", "security/security.go", "ikesaKey.Integ_r = ikesaKey.IntegInfo.Init(ikesaKey.SK_ar)", "ikesaKey.Integ_r = ikesaKey.IntegInfo.Init(ikesaKey.SK_ai)", ["C07"]),
    ("skeyseed-args-swapped", "security/security.go", "\tprf := ikesaKey.PrfInfo.Init(concatenatedNonce)\n\tif _, err := prf.Write(diffieHellmanSharedKey); err != nil {", "\tprf := ikesaKey.PrfInfo.Init(diffieHellmanSharedKey)\n\tif _, err := prf.Write(concatenatedNonce); err != nil {", ["C07"]),
    # C08
    ("child-middle-slices-swapped", "security/security.go", "\tchildsaKey.InitiatorToResponderIntegrityKey = append(\n\t\tchildsaKey.InitiatorToResponderIntegrityKey,\n\t\tkeyStream[:lengthIntegrityKeyIPSec]...)\n\tkeyStream = keyStream[lengthIntegrityKeyIPSec:]\n\tchildsaKey.ResponderToInitiatorEncryptionKey = append(\n\t\tchildsaKey.ResponderToInitiatorEncryptionKey,",
     "\tchildsaKey.ResponderToInitiatorIntegrityKey = append(\n\t\tchildsaKey.ResponderToInitiatorIntegrityKey,\n\t\tkeyStream[:lengthIntegrityKeyIPSec]...)\n\tkeyStream = keyStream[lengthIntegrityKeyIPSec:]\n\tchildsaKey.ResponderToInitiatorEncryptionKey = append(\n\t\tchildsaKey.ResponderToInitiatorEncryptionKey,", ["C08"]),
    # C09
    ("group14-prime-one-digit", "security/dh/dh_2048_bit_modp.go", "15728E5A8AACAA68", "15728E5A8AACAA69", ["C09", "C07"]),
    ("dh-zero-prefix-dropped", "security/dh/dh_2048_bit_modp.go", "\tlocalPublicValue = append(prependZero, localPublicValue...)\n", "\t_ = prependZero\n", ["C09"]),
    ("random-minimum-ge-zero", "security/security.go", "} else if number.Cmp(&randomNumberMinimum) == 1 {", "} else if number.Sign() >= 0 {", ["C09"]),
    ("rand-int-error-swallowed", "security/security.go", "\t\tif err != nil {\n\t\t\treturn nil, errors.Errorf(\"GenerateRandomNumber(): Error occurs when generate random number: %+v\", err)\n\t\t} else if", "\t\tif err != nil {\n\t\t\tnumber = new(big.Int).Lsh(big.NewInt(1), 200)\n\t\t\tbreak\n\t\t} else if", ["C09"]),
    # C10
    ("iv-fixed-zero", "security/encr/encr_aes_cbc.go", "\t\t_, err = io.ReadFull(rand.Reader, initializationVector)\n\t\tif err != nil {\n\t\t\treturn nil, errors.Errorf(\"Read random initialization vector failed\")\n\t\t}\n", "\t\t_ = io.ReadFull\n\t\t_ = rand.Reader\n", ["C10", "C06"]),
    ("aes256-accepts-16-octet-key", "security/encr/encr_aes_cbc.go", "if len(key) != t.keyLength {", "if len(key) != t.keyLength && len(key) != 16 {", ["C10"]),
    ("alignment-check-removed", "security/encr/encr_aes_cbc.go", "\tif len(encryptedMessage)%aes.BlockSize != 0 {\n\t\treturn nil, errors.Errorf(\"EncrAesCbcCrypto: Cipher text is not a multiple of block size\")\n\t}\n", "", ["C10", "C04"]),
    # C11
    ("aes-192-maps-to-256", "security/encr/encr_aes_cbc.go", "\t\tcase 192:\n\t\t\treturn ENCR_AES_CBC_192", "\t\tcase 192:\n\t\t\treturn ENCR_AES_CBC_256", ["C11"]),
    ("keylength-attr-type-ignored", "security/encr/encr_aes_cbc.go", "\tif attrType == message.AttributeTypeKeyLength {", "\tif attrType == message.AttributeTypeKeyLength || attrType > 0x4000 {", ["C11"]),
    ("integ-id-12-maps-to-sha1", "security/integ/integ.go", "integString[message.AUTH_HMAC_SHA2_256_128] = toString_AUTH_HMAC_SHA2_256_128", "integString[message.AUTH_HMAC_SHA2_256_128] = toString_AUTH_HMAC_SHA1_96", ["C11", "C07"]),
    # C13
    ("skip-by-4-instead-of-length", "message/message.go", "\t\t\t\tnextPayload = b[0]\n\t\t\t\tb = b[payloadLength:]\n\t\t\t\tcontinue", "\t\t\t\tnextPayload = b[0]\n\t\t\t\tb = b[4:]\n\t\t\t\tcontinue", ["C13"]),
    ("critical-test-inverted", "message/message.go", "\t\t\tif criticalBit == 0 {\n\t\t\t\t// Skip this payload", "\t\t\tif criticalBit != 0 {\n\t\t\t\t// Skip this payload", ["C13"]),
    # C14 / C15 / C16
    ("aka-attr-keys-unsorted", "eap/eap_aka_prime.go", "\tsort.Slice(result, func(i, j int) bool {\n\t\treturn uint8(result[i]) < uint8(result[j])\n\t})\n", "\t_ = sort.Slice\n", ["C14", "C15", "C20"]),
    ("mac-not-zeroed", "eap/eap.go", "\terr := eapAkaPrime.initMAC()\n", "\tvar err error\n", ["C15"]),
    ("mac-truncated-to-last-16", "eap/eap.go", "return sum[:16], nil", "return sum[16:], nil", ["C15"]),
    ("prf-prime-key-order", "eap/eap_aka_prime.go", "\tkey = append(key, ikPrime...)\n\tkey = append(key, ckPrime...)", "\tkey = append(key, ckPrime...)\n\tkey = append(key, ikPrime...)", ["C16"]),
    ("prf-prime-slice-48-49", "eap/eap_aka_prime.go", "k_re = MK[48:80]", "k_re = MK[49:81]", ["C16"]),
    # C17
    ("integ-i-reset-removed", "ike.go", "\t\tikesaKey.Integ_i.Reset()\n", "", ["C17", "C01", "C06"]),
    # C18
    ("package-level-scratch-buffer-in-encode", "message/message.go", None, None, ["C18"]),
    # C19
    ("response-initiator-bits-swapped", "message/header.go", "\tif response {\n\t\th.Flags |= ResponseBitCheck\n\t}\n\tif initiator {\n\t\th.Flags |= InitiatorBitCheck\n\t}", "\tif response {\n\t\th.Flags |= InitiatorBitCheck\n\t}\n\tif initiator {\n\t\th.Flags |= ResponseBitCheck\n\t}", ["C19"]),
    ("dcsi-dscpi-swapped", "message/build.go", "\tif isDefault {\n\t\tdefaultAndDifferentiatedServiceFlags |= NotifyType5G_QOS_INFOBitDCSICheck\n\t}\n\tif isDSCPSpecified {\n\t\tdefaultAndDifferentiatedServiceFlags |= NotifyType5G_QOS_INFOBitDSCPICheck\n\t}",
     "\tif isDefault {\n\t\tdefaultAndDifferentiatedServiceFlags |= NotifyType5G_QOS_INFOBitDSCPICheck\n\t}\n\tif isDSCPSpecified {\n\t\tdefaultAndDifferentiatedServiceFlags |= NotifyType5G_QOS_INFOBitDCSICheck\n\t}", ["C19"]),
    ("nas-length-little-endian", "message/build.go", "binary.BigEndian.PutUint16(header[2:4], uint16(nasPDULen))", "binary.LittleEndian.PutUint16(header[2:4], uint16(nasPDULen))", ["C19"]),
    ("qfi-silent-truncation", "message/build.go", "\tif qfiListLen > 0xFF {\n\t\treturn errors.Errorf(\"BuildNotify5G_QOS_INFO(): qfiList is too long\")\n\t}\n", "", ["C19"]),
    # C20
    ("nonce-aliases-input", "message/payload_nonce.go", "nonce.NonceData = append(nonce.NonceData, b...)", "nonce.NonceData = b", ["C20", "C04"]),
    ("notify-spi-aliases-input", "message/payload_notification.go", "notification.SPI = append(notification.SPI, b[4:4+spiSize]...)", "notification.SPI = b[4 : 4+spiSize]", ["C20"]),
]

# multi-site mutants (symmetric changes in encoder and decoder)
MULTI = {
    "msgid-little-endian-both-sides": [("message/header.go", "binary.BigEndian.PutUint32(b[20:24], h.MessageID)", "binary.LittleEndian.PutUint32(b[20:24], h.MessageID)"),
                                       ("message/header.go", "MessageID:    binary.BigEndian.Uint32(b[20:24]),", "MessageID:    binary.LittleEndian.Uint32(b[20:24]),")],
    "cp-reserved-2-octets-both-sides": [("message/payload_configuration.go", "configurationData := make([]byte, 4)", "configurationData := make([]byte, 3)"),
                                        ("message/payload_configuration.go", "\tif len(b) <= 4 {", "\tif len(b) <= 3 {"),
                                        ("message/payload_configuration.go", "configurationAttributeData := b[4:]", "configurationAttributeData := b[3:]")],
    "package-level-scratch-buffer-in-encode": [("message/message.go", "type IKEPayloadContainer []IKEPayload\n", "type IKEPayloadContainer []IKEPayload\n\nvar encodeScratch = make([]byte, 0, 1<<16)\n"),
                                               ("message/message.go", "\tikeMessagePayloadData := make([]byte, 0)\n\n\tfor index, payload := range *container {", "\tikeMessagePayloadData := encodeScratch[:0]\n\n\tfor index, payload := range *container {"),
                                               ("message/message.go", "\treturn ikeMessagePayloadData, nil\n}\n\nfunc (container *IKEPayloadContainer) Decode(", "\tencodeScratch = ikeMessagePayloadData[:0]\n\treturn append([]byte(nil), ikeMessagePayloadData...), nil\n}\n\nfunc (container *IKEPayloadContainer) Decode(")],
}


def apply(file, old, new):
    p = os.path.join("/repo", file)
    s = open(p).read()
    if old not in s:
        return False
    open(p, "w").write(s.replace(old, new, 1))
    return True


def main():
    only = set(sys.argv[1:])
    out = []
    for name, file, old, new, props in M:
        if only and name not in only:
            continue
        rc, st = sh("git -C /repo status --porcelain")
        assert st.strip() == "", st
        row = {"mutant": name, "file": file, "properties": props}
        try:
            ok = all(apply(*x) for x in MULTI[name]) if name in MULTI else apply(file, old, new)
            if not ok:
                row["status"] = "pattern not found"
                print("%-45s pattern not found" % name)
                continue
            rc, o = sh("go build ./... 2>&1", cwd="/repo")
            if rc != 0:
                row["status"] = "does not compile"
                print("%-45s does not compile: %s" % (name, o[-300:]))
                continue
            rc, o = sh("/verif/tools/repotest.sh")
            if rc != 0:
                row["status"] = "caught by the library's own suite (not interesting)"
                print("%-45s caught by existing suite" % name)
                continue
            row["status"] = "compiles, existing suite passes"
            row["checks"] = {}
            for pid in props:
                t0 = time.time()
                rc, o = sh("./check %s quick" % pid, cwd="/verif")
                v = len(re.findall(r"^VIOLATION ", o, re.M))
                row["checks"][pid] = {"exit": rc, "violations": v, "seconds": round(time.time() - t0, 1)}
            print("%-45s %s" % (name, "  ".join("%s:%s" % (k, "DETECTED" if r["exit"] == 1 and r["violations"] else ("exit%d" % r["exit"])) for k, r in row["checks"].items())))
        finally:
            sh("git -C /repo checkout -- .")
            out.append(row)
    sh("git checkout -- evidence", cwd="/verif")
    path = "/verif/seeded/HANDMUTANTS.json"
    prev = []
    if only and os.path.exists(path):
        prev = [r for r in json.load(open(path)) if r["mutant"] not in only]
    json.dump(prev + out, open(path, "w"), indent=1)


if __name__ == "__main__":
    main()
