#!/usr/bin/env python3
"""Re-runs every kept seeded change (seeded/*/patch.diff) against the checks recorded as detecting it, to confirm that
later edits of the machinery did not lose a detection. Prints a line per change; /repo is restored after each."""
import glob, json, os, re, subprocess, sys

ENV = dict(os.environ, GOFLAGS="-mod=mod", GOPROXY="off", GOSUMDB="off", GOTOOLCHAIN="local")


def sh(cmd, cwd=None):
    p = subprocess.run(cmd, shell=True, cwd=cwd, env=ENV, stdout=subprocess.PIPE, stderr=subprocess.STDOUT, timeout=3600)
    return p.returncode, p.stdout.decode("utf-8", "replace")


lost = []
for f in sorted(glob.glob("/verif/seeded/*/meta.json")):
    m = json.load(open(f))
    d = os.path.dirname(f)
    if only := sys.argv[1:]:
        if not any(o in d for o in only):
            continue
    det = m.get("detected_by") or []
    if not det:
        print("%-60s (not claimed)" % os.path.basename(d))
        continue
    rc, out = sh("git -C /repo status --porcelain")
    assert out.strip() == "", out
    rc, out = sh("git -C /repo apply %s/patch.diff" % d)
    if rc != 0:
        print("%-60s patch no longer applies" % os.path.basename(d))
        continue
    try:
        cid = det[0]
        rc, out = sh("./check %s quick" % cid, cwd="/verif")
        ok = rc == 1 and re.search(r"^VIOLATION ", out, re.M)
        if not ok and len(det) > 1:
            cid = det[1]
            rc, out = sh("./check %s quick" % cid, cwd="/verif")
            ok = rc == 1 and re.search(r"^VIOLATION ", out, re.M)
        print("%-60s %s %s" % (os.path.basename(d), cid, "still detected" if ok else "LOST (exit %d)" % rc))
        if not ok:
            lost.append(os.path.basename(d))
    finally:
        sh("git -C /repo checkout -- . && git -C /repo clean -fdq")
sh("git checkout -- evidence", cwd="/verif")
print("lost:", lost)
