module verif

go 1.23

require (
	github.com/free5gc/ike v0.0.0
	pgregory.net/rapid v1.3.0
)

require github.com/pkg/errors v0.9.1 // indirect

replace github.com/free5gc/ike => /repo
