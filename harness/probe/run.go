package probe

import (
	"encoding/binary"
	"encoding/json"
	"flag"
	"fmt"
	"os"
	"path/filepath"
	"runtime"
	"sort"
	"strconv"
	"strings"
	"sync"
	"sync/atomic"
	"testing"
	"time"

	"pgregory.net/rapid"

	"verif/gen"
	"verif/model"
)

// Outcome of one oracle evaluation.
type Outcome struct {
	Err        error          // non-nil: the property is violated on this input
	NonTrivial bool           // by the rule stated for the property
	Labels     []string       // classes this case belongs to
	Key        uint64         // hash identifying the case (0: hash of the input JSON)
	Counts     map[string]int // additive counters (e.g. number of alterations tried inside one case)
}

func OK(nontrivial bool, labels ...string) Outcome {
	return Outcome{NonTrivial: nontrivial, Labels: labels}
}

func Fail(format string, a ...any) Outcome {
	return Outcome{Err: fmt.Errorf(format, a...), NonTrivial: true}
}

// Ctx is the per-process context of one property run.
type Ctx struct {
	Prop    string
	Tier    string
	Seed    uint64
	Shard   int
	Scale   float64 // case-count multiplier (VERIF_SCALE)
	outDir  string
	t       *testing.T
	root    string // /verif
	mu      sync.Mutex
	stats   *Stats
	fails   int
	started time.Time

	curInput atomic.Value // func() []byte
	curStart atomic.Int64
	caseNo   atomic.Int64
	curCheck atomic.Value
}

type Stats struct {
	Property     string            `json:"property"`
	Tier         string            `json:"tier"`
	Shard        int               `json:"shard"`
	Evaluations  int               `json:"evaluations"`
	NonTrivial   int               `json:"nontrivial_evaluations"`
	PerCheck     map[string]int    `json:"per_check"`
	PerCheckNT   map[string]int    `json:"per_check_nontrivial"`
	Labels       map[string]int    `json:"labels"`
	Counters     map[string]int    `json:"counters"`
	Samples      []json.RawMessage `json:"samples"`
	Excluded     map[string]int    `json:"excluded"`
	Exhaustive   map[string]bool   `json:"exhaustive"`
	Notes        []string          `json:"notes"`
	Failures     int               `json:"failures"`
	Inconclusive []string          `json:"inconclusive"`
	WallS        float64           `json:"wall_s"`
	hashes       map[uint64]struct{}
	sampleCount  map[string]int
}

func envInt(name string, def int) int {
	if v := os.Getenv(name); v != "" {
		if n, err := strconv.Atoi(v); err == nil {
			return n
		}
	}
	return def
}

// NewCtx reads the driver's environment. The returned context writes its statistics when the
// test ends.
func NewCtx(t *testing.T, prop string) *Ctx {
	c := &Ctx{Prop: prop, Tier: os.Getenv("VERIF_TIER"), Shard: envInt("VERIF_SHARD", 0), started: time.Now(), t: t}
	if c.Tier == "" {
		c.Tier = "quick"
	}
	seed, _ := strconv.ParseUint(os.Getenv("VERIF_SEED"), 10, 64)
	if os.Getenv("VERIF_SEED") == "" {
		seed = 1
	}
	c.Seed = seed
	c.Scale = 1
	if v := os.Getenv("VERIF_SCALE"); v != "" {
		if f, err := strconv.ParseFloat(v, 64); err == nil && f > 0 {
			c.Scale = f
		}
	}
	c.root = os.Getenv("VERIF_ROOT")
	if c.root == "" {
		c.root = "/verif"
	}
	c.outDir = os.Getenv("VERIF_OUT")
	c.stats = &Stats{Property: prop, Tier: c.Tier, Shard: c.Shard, PerCheck: map[string]int{}, PerCheckNT: map[string]int{},
		Labels: map[string]int{}, Counters: map[string]int{}, Excluded: map[string]int{}, Exhaustive: map[string]bool{}, hashes: map[uint64]struct{}{}, sampleCount: map[string]int{}}
	t.Cleanup(func() { c.finish() })
	go c.watchdog()
	return c
}

// Thorough reports whether the thorough tier is running.
func (c *Ctx) Thorough() bool { return c.Tier == "thorough" }

// N scales a case count: quick count, thorough count (per shard).
func (c *Ctx) N(quick, thorough int) int {
	n := quick
	if c.Thorough() {
		n = thorough
	}
	n = int(float64(n) * c.Scale)
	if n < 1 {
		n = 1
	}
	return n
}

// RapidSeed derives the rapid PRNG seed for a check (never 0).
func (c *Ctx) RapidSeed(check string) uint64 {
	h := model.Hash64(check)
	s := (c.Seed*1000003 + uint64(c.Shard)*7919 + h%1000) % (1<<63 - 1)
	return s + 1
}

func (c *Ctx) Note(format string, a ...any) {
	c.mu.Lock()
	c.stats.Notes = append(c.stats.Notes, fmt.Sprintf(format, a...))
	c.mu.Unlock()
}

func (c *Ctx) Exhaustive(check string) {
	c.mu.Lock()
	c.stats.Exhaustive[check] = true
	c.mu.Unlock()
}

func (c *Ctx) Inconclusive(format string, a ...any) {
	msg := fmt.Sprintf(format, a...)
	c.mu.Lock()
	c.stats.Inconclusive = append(c.stats.Inconclusive, msg)
	c.mu.Unlock()
	fmt.Printf("INCONCLUSIVE property=%s %s\n", c.Prop, msg)
}

func (c *Ctx) record(check string, key uint64, o Outcome, sample func() any) {
	c.mu.Lock()
	defer c.mu.Unlock()
	s := c.stats
	s.Evaluations++
	s.PerCheck[check]++
	for _, l := range o.Labels {
		s.Labels[l]++
	}
	for k, v := range o.Counts {
		s.Counters[k] += v
	}
	if o.NonTrivial {
		s.NonTrivial++
		s.PerCheckNT[check]++
		s.hashes[key^model.Hash64(check)] = struct{}{}
		n := s.sampleCount[check]
		if n < 2 || (n < 4 && s.PerCheckNT[check]%997 == 0) {
			s.sampleCount[check] = n + 1
			b, err := json.Marshal(map[string]any{"check": check, "input": sample()})
			if err == nil {
				s.Samples = append(s.Samples, clipJSON(b))
			}
		}
	}
}

// clipJSON shortens long strings inside a JSON document (samples are for reading, not replay).
func clipJSON(b []byte) json.RawMessage {
	var v any
	if err := json.Unmarshal(b, &v); err != nil {
		return b
	}
	var walk func(any) any
	walk = func(x any) any {
		switch y := x.(type) {
		case string:
			if len(y) > 160 {
				return fmt.Sprintf("%s...(%d chars)", y[:120], len(y))
			}
			return y
		case []any:
			if len(y) > 24 {
				out := make([]any, 0, 25)
				for _, e := range y[:24] {
					out = append(out, walk(e))
				}
				return append(out, fmt.Sprintf("...(%d elements)", len(y)))
			}
			for i := range y {
				y[i] = walk(y[i])
			}
			return y
		case map[string]any:
			for k := range y {
				y[k] = walk(y[k])
			}
			return y
		}
		return x
	}
	out, err := json.Marshal(walk(v))
	if err != nil {
		return b
	}
	return out
}

// Failf records a violation found outside a rapid check (sweeps): writes the replay file and
// prints the FAILURE line the driver looks for.
func (c *Ctx) fail(check string, input any, err error) {
	c.mu.Lock()
	c.stats.Failures++
	c.fails++
	c.mu.Unlock()
	path := c.writeReplay(check, input, err)
	msg := strings.SplitN(err.Error(), "\n", 2)[0]
	if len(msg) > 400 {
		msg = msg[:400]
	}
	fmt.Printf("FAILURE property=%s check=%s replay=%s :: %s\n", c.Prop, check, path, msg)
	if c.t != nil {
		c.t.Errorf("oracle failure in check %s (replay %s)", check, path)
	}
}

type ReplayFile struct {
	Property string          `json:"property"`
	Check    string          `json:"check"`
	Error    string          `json:"error"`
	Input    json.RawMessage `json:"input"`
	// Procs: the GOMAXPROCS value the case failed under (the replay runs under the same number; 0 = whatever the machine has)
	Procs int `json:"gomaxprocs,omitempty"`
}

func (c *Ctx) writeReplay(check string, input any, err error) string {
	in, jerr := json.Marshal(input)
	if jerr != nil {
		in = []byte(`"unserialisable input"`)
	}
	rf := ReplayFile{Property: c.Prop, Check: check, Error: err.Error(), Input: in, Procs: runtime.GOMAXPROCS(0)}
	b, _ := json.MarshalIndent(rf, "", " ")
	dir := filepath.Join(c.root, "replays", c.Prop)
	_ = os.MkdirAll(dir, 0o755)
	path := filepath.Join(dir, fmt.Sprintf("%s-%016x.json", check, model.Hash64(in)))
	_ = os.WriteFile(path, b, 0o644)
	return path
}

func (c *Ctx) finish() {
	c.mu.Lock()
	defer c.mu.Unlock()
	for k, v := range gen.Excluded {
		c.stats.Excluded[k] += v
	}
	c.stats.WallS = time.Since(c.started).Seconds()
	if c.outDir == "" {
		return
	}
	_ = os.MkdirAll(c.outDir, 0o755)
	base := filepath.Join(c.outDir, fmt.Sprintf("%s-shard%d", c.Prop, c.Shard))
	b, _ := json.Marshal(c.stats)
	_ = os.WriteFile(base+".stats.json", b, 0o644)
	hs := make([]uint64, 0, len(c.stats.hashes))
	for h := range c.stats.hashes {
		hs = append(hs, h)
	}
	sort.Slice(hs, func(i, j int) bool { return hs[i] < hs[j] })
	buf := make([]byte, 8*len(hs))
	for i, h := range hs {
		binary.LittleEndian.PutUint64(buf[8*i:], h)
	}
	_ = os.WriteFile(base+".hashes.bin", buf, 0o644)
}

// watchdog reports a case that has been running implausibly long (a hang cannot be interrupted
// in Go): the input is saved and the process exits with status 3; the driver re-runs the replay
// alone before believing it.
func (c *Ctx) watchdog() {
	limit := int64(envInt("VERIF_HANG_S", 90))
	for {
		time.Sleep(time.Second)
		st := c.curStart.Load()
		if st == 0 {
			continue
		}
		if time.Now().Unix()-st > limit {
			f, _ := c.curInput.Load().(func() any)
			check, _ := c.curCheck.Load().(string)
			var in any = "unknown"
			if f != nil {
				in = f()
			}
			path := c.writeReplay(check, in, fmt.Errorf("case did not terminate within %d s", limit))
			fmt.Printf("HANG property=%s check=%s replay=%s\n", c.Prop, check, path)
			os.Exit(3)
		}
	}
}

// ProcsSchedule: the numbers of processors (GOMAXPROCS) the cases of a run are evaluated under, in rotation. The library
// is a library: its results may not depend on how many processors the process has - one (a small container), an odd number,
// more than this machine has. Code that picks a path by runtime.GOMAXPROCS / NumCPU is exercised on every path that way.
var ProcsSchedule = []int{0, 1, 2, 3, 0, 5, 7, 12, 0, 17, 24, 32}

// ProcsFor returns the i-th processor count of the schedule (for oracles that walk through it themselves).
func ProcsFor(i int) int {
	p := ProcsSchedule[((i%len(ProcsSchedule))+len(ProcsSchedule))%len(ProcsSchedule)]
	if p == 0 {
		p = runtime.NumCPU()
	}
	return p
}

// RotateProcs is switched off by checks that set GOMAXPROCS themselves (C18).
var RotateProcs = true

var procsFrozen atomic.Bool

func (c *Ctx) rotateProcs() {
	if !RotateProcs || procsFrozen.Load() {
		return
	}
	n := c.caseNo.Add(1)
	const every = 8
	if n%every != 1 {
		return
	}
	p := ProcsSchedule[int(n/every)%len(ProcsSchedule)]
	if p == 0 {
		p = runtime.NumCPU()
	}
	runtime.GOMAXPROCS(p)
	c.mu.Lock()
	c.stats.Labels[fmt.Sprintf("gomaxprocs:%d", p)] += every
	c.mu.Unlock()
}

func (c *Ctx) begin(check string, input func() any) {
	c.rotateProcs()
	c.curCheck.Store(check)
	c.curInput.Store(input)
	c.curStart.Store(time.Now().Unix())
}

func (c *Ctx) end() { c.curStart.Store(0) }

// ---------------------------------------------------------------------------------------------
// Checks and the replay registry

type replayFn func(json.RawMessage) error

var registry = map[string]replayFn{}

// Check couples a generator with an oracle over a JSON-serialisable input type.
type Check[I any] struct {
	Prop, Name string
	Gen        func(*rapid.T) I
	Oracle     func(I) Outcome
}

// Define registers a check (so that replay files can be dispatched to its oracle).
func Define[I any](prop, name string, g func(*rapid.T) I, oracle func(I) Outcome) *Check[I] {
	ck := &Check[I]{Prop: prop, Name: name, Gen: g, Oracle: oracle}
	registry[prop+"/"+name] = func(raw json.RawMessage) error {
		var in I
		if err := json.Unmarshal(raw, &in); err != nil {
			return fmt.Errorf("replay: cannot decode input: %w", err)
		}
		return ck.safeOracle(in).Err
	}
	return ck
}

func (ck *Check[I]) safeOracle(in I) (out Outcome) {
	defer func() {
		if r := recover(); r != nil {
			// a panic escaping an oracle is a defect of the harness (library calls are wrapped in Try)
			out = Outcome{Err: fmt.Errorf("HARNESS-PANIC in oracle: %v", r)}
		}
	}()
	out = ck.Oracle(in)
	if out.Err != nil {
		procsFrozen.Store(true) // shrinking and the final re-execution run under the number of processors of the failure
	}
	return out
}

// Eval runs the oracle on an explicit input (deterministic sweeps). Returns false on violation.
func (ck *Check[I]) Eval(c *Ctx, in I) bool {
	c.begin(ck.Name, func() any { return in })
	out := ck.Oracle(in)
	c.end()
	key := out.Key
	if key == 0 {
		key = model.Hash64(in)
	}
	c.record(ck.Name, key, out, func() any { return in })
	if out.Err != nil {
		c.fail(ck.Name, in, out.Err)
		return false
	}
	return true
}

// Failures so far in this context.
func (c *Ctx) Failures() int { c.mu.Lock(); defer c.mu.Unlock(); return c.fails }

// Run drives the check with rapid for n cases; on failure the shrunk input becomes a replay file.
func (ck *Check[I]) Run(c *Ctx, t *testing.T, n int) {
	var last, first *I
	var lastErr, firstErr error
	count := 0
	ok := t.Run(ck.Name, func(t *testing.T) {
		_ = flag.Set("rapid.checks", strconv.Itoa(n))
		_ = flag.Set("rapid.seed", strconv.FormatUint(c.RapidSeed(ck.Name), 10))
		_ = flag.Set("rapid.nofailfile", "true")
		if v := os.Getenv("VERIF_SHRINKTIME"); v != "" {
			_ = flag.Set("rapid.shrinktime", v)
		}
		rapid.Check(t, func(rt *rapid.T) {
			in := ck.Gen(rt)
			last = &in
			lastErr = nil
			c.begin(ck.Name, func() any { return in })
			out := ck.Oracle(in)
			c.end()
			count++
			key := out.Key
			if key == 0 {
				key = model.Hash64(in)
			}
			c.record(ck.Name, key, out, func() any { return in })
			if out.Err != nil {
				lastErr = out.Err
				if firstErr == nil {
					cp := in
					first, firstErr = &cp, out.Err
				}
				rt.Fatalf("%v", out.Err)
			}
		})
	})
	switch {
	case !ok && last != nil && lastErr != nil:
		c.fail(ck.Name, *last, lastErr)
	case !ok && firstErr != nil:
		// the oracle failed on real code, but not again when rapid re-ran the same input alone: the outcome depends on what
		// was processed before (state shared between independent operations). Reported with the input that failed.
		c.fail(ck.Name, *first, fmt.Errorf("%w\n(NOTE: failed in the course of the run but passes when re-run in isolation: the library's behaviour depends on earlier, unrelated operations)", firstErr))
	case !ok:
		c.Inconclusive("check=%s rapid reported a failure that is not an oracle failure (generator or harness problem)", ck.Name)
	case count < n:
		c.Inconclusive("check=%s only %d of %d cases were generated", ck.Name, count, n)
	}
}

// Replay runs the oracle named in a replay file. Used by TestReplay in the props package.
func Replay(path string) (string, error, error) {
	b, err := os.ReadFile(path)
	if err != nil {
		return "", nil, err
	}
	var rf ReplayFile
	if err := json.Unmarshal(b, &rf); err != nil {
		return "", nil, err
	}
	fn, ok := registry[rf.Property+"/"+rf.Check]
	if !ok {
		return rf.Property, nil, fmt.Errorf("no check %s/%s registered", rf.Property, rf.Check)
	}
	if rf.Procs > 0 {
		defer runtime.GOMAXPROCS(runtime.GOMAXPROCS(rf.Procs))
	}
	return rf.Property, fn(rf.Input), nil
}

// Prop turns a check into a plain rapid property (used with rapid.MakeFuzz for coverage-guided runs).
func (ck *Check[I]) AsProp() func(*rapid.T) {
	return func(rt *rapid.T) {
		in := ck.Gen(rt)
		if out := ck.Oracle(in); out.Err != nil {
			b, _ := json.Marshal(in)
			if len(b) > 4000 {
				b = append(b[:4000], []byte("...")...)
			}
			rt.Fatalf("%v\ninput: %s", out.Err, b)
		}
	}
}
