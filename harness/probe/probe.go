// Package probe is the plumbing shared by all property checks: panic capture, capacity-exact and
// poisoned slices, entropy injection, spies, statistics/evidence, replay files and the rapid runner.
package probe

import (
	"crypto/cipher"
	"crypto/rand"
	"errors"
	"fmt"
	"hash"
	"io"
	"reflect"
	"runtime/debug"
	"runtime/metrics"
	"strings"
	"sync"
	"syscall"
	"unsafe"
)

// PanicError is what Try returns when the callee panicked.
type PanicError struct {
	Val   any
	Stack string
}

func (p *PanicError) Error() string {
	return fmt.Sprintf("PANIC: %v\n%s", p.Val, trimStack(p.Stack))
}

func trimStack(s string) string {
	lines := strings.Split(s, "\n")
	var keep []string
	for _, l := range lines {
		if strings.Contains(l, "/repo/") || strings.Contains(l, "free5gc/ike") {
			keep = append(keep, strings.TrimSpace(l))
		}
		if len(keep) >= 8 {
			break
		}
	}
	return strings.Join(keep, "\n")
}

// IsPanic reports whether err carries a captured panic.
func IsPanic(err error) bool {
	var p *PanicError
	return errors.As(err, &p)
}

// Try runs f, turning a panic into a *PanicError.
func Try(f func() error) (err error) {
	defer func() {
		if r := recover(); r != nil {
			err = &PanicError{Val: r, Stack: string(debug.Stack())}
		}
	}()
	return f()
}

// Exact returns a copy of b whose capacity equals its length: any re-slice past len panics. The copy starts at an address
// whose low three bits are a function of the content (a datagram in a receive ring, a key inside a key block, a field of a
// larger buffer start anywhere): code that treats octets as machine words must cope with every alignment.
func Exact(b []byte) []byte {
	if len(b) == 0 {
		return make([]byte, 0)
	}
	buf := make([]byte, len(b)+16)
	want := (uintptr(len(b)) + uintptr(b[0]) + uintptr(b[len(b)-1])) % 8
	off := int((want - uintptr(unsafe.Pointer(&buf[0]))%8 + 8) % 8)
	out := buf[off : off+len(b) : off+len(b)]
	copy(out, b)
	return out
}

// Spare returns a copy of b followed by at least 96 octets of spare capacity filled with poison.
func Spare(b []byte, poison byte) []byte {
	buf := make([]byte, len(b)+96+len(b)/4)
	for i := range buf {
		buf[i] = poison
	}
	copy(buf, b)
	return buf[:len(b)]
}

// SpareWith returns a copy of b followed by the given octets as spare capacity.
func SpareWith(b, tail []byte) []byte {
	buf := make([]byte, len(b)+len(tail))
	copy(buf, b)
	copy(buf[len(b):], tail)
	return buf[:len(b)]
}

// ---------------------------------------------------------------------------------------------
// Entropy: deterministic / failing replacement for crypto/rand.Reader (go1.23 semantics).

type Entropy struct {
	mu     sync.Mutex
	stream []byte
	pos    int
	lcg    uint64
	Reads  int      // number of Read calls seen
	Chunks [][]byte // every chunk handed out
	FailAt int      // 1-based index of the Read call that fails (0 = never)
	Failed bool
	// Budget > 0: the source delivers exactly Budget octets in total and fails in the middle of the Read that would exceed
	// it (returning the octets it still had together with the error - a short read)
	Budget    int
	delivered int
	// FailOnce: only the Read number FailAt fails; later reads succeed again (a transient failure)
	FailOnce bool
	// MaxRead > 0: a Read delivers at most MaxRead octets (a short read without error, which the io.Reader contract allows)
	MaxRead int
	// failErr is the error a failing Read returns (InjectedErrors[ErrKind])
	failErr error
}

var ErrInjected = errors.New("probe: injected entropy failure")

// temporaryError is what a transient condition of the operating system looks like to callers that classify errors.
type temporaryError struct{}

func (temporaryError) Error() string {
	return "probe: injected entropy failure (resource temporarily unavailable)"
}
func (temporaryError) Temporary() bool { return true }
func (temporaryError) Timeout() bool   { return true }

// InjectedErrors are the error values a failing source returns, selected by EntropyOpts.ErrKind: a failure is a failure
// whatever it is called - an error that claims to be temporary, an interrupted call, an early end of the stream.
var InjectedErrors = []error{ErrInjected, syscall.EAGAIN, syscall.EINTR, io.EOF, io.ErrUnexpectedEOF, temporaryError{}, io.ErrNoProgress}

// IsInjected reports whether err is (or wraps) one of the injected failures.
func IsInjected(err error) bool {
	for _, e := range InjectedErrors {
		if errors.Is(err, e) {
			return true
		}
	}
	return false
}

func (e *Entropy) Read(p []byte) (int, error) {
	e.mu.Lock()
	defer e.mu.Unlock()
	e.Reads++
	if e.FailAt != 0 && (e.Reads == e.FailAt || (e.Reads > e.FailAt && !e.FailOnce)) {
		e.Failed = true
		return 0, e.failErr
	}
	if e.MaxRead > 0 && len(p) > e.MaxRead {
		p = p[:e.MaxRead]
	}
	if e.Budget > 0 && e.delivered+len(p) > e.Budget {
		n := e.Budget - e.delivered
		if n < 0 {
			n = 0
		}
		for i := 0; i < n; i++ {
			p[i] = 0x3d
		}
		e.delivered += n
		e.Failed = true
		return n, e.failErr
	}
	e.delivered += len(p)
	for i := range p {
		if e.pos < len(e.stream) {
			p[i] = e.stream[e.pos]
			e.pos++
		} else {
			e.lcg = e.lcg*6364136223846793005 + 1442695040888963407
			p[i] = byte(e.lcg >> 56)
		}
	}
	e.Chunks = append(e.Chunks, append([]byte(nil), p...))
	return len(p), nil
}

var entropyMu sync.Mutex

// WithEntropy runs f with crypto/rand.Reader replaced by a stream that starts with the given
// octets (continued pseudo-randomly, keyed by them) and fails at Read number failAt (0 = never).
func WithEntropy(stream []byte, failAt int, f func(e *Entropy)) {
	withEntropy(stream, failAt, 0, f)
}

// WithEntropyBudget is WithEntropy with a source that runs dry after budget octets (failing inside a Read).
func WithEntropyBudget(stream []byte, budget int, f func(e *Entropy)) {
	withEntropy(stream, 0, budget, f)
}

// EntropyOpts selects the behaviour of the replacement source.
type EntropyOpts struct {
	Stream   []byte
	FailAt   int  // 1-based Read call that fails (0 = never)
	FailOnce bool // only that Read fails
	Budget   int  // > 0: runs dry after this many octets (fails inside a Read)
	MaxRead  int  // > 0: at most this many octets per Read (short reads)
	ErrKind  int  // which of InjectedErrors a failing Read returns (modulo their number)
}

// WithEntropyOpts is the general form of WithEntropy.
func WithEntropyOpts(o EntropyOpts, f func(e *Entropy)) {
	withEntropyOpts(o, f)
}

func withEntropy(stream []byte, failAt, budget int, f func(e *Entropy)) {
	withEntropyOpts(EntropyOpts{Stream: stream, FailAt: failAt, Budget: budget}, f)
}

func withEntropyOpts(o EntropyOpts, f func(e *Entropy)) {
	stream := o.Stream
	entropyMu.Lock()
	defer entropyMu.Unlock()
	e := &Entropy{stream: stream, FailAt: o.FailAt, Budget: o.Budget, FailOnce: o.FailOnce, MaxRead: o.MaxRead, lcg: 0x9e3779b97f4a7c15,
		failErr: InjectedErrors[((o.ErrKind%len(InjectedErrors))+len(InjectedErrors))%len(InjectedErrors)]}
	for _, b := range stream {
		e.lcg = e.lcg*131 + uint64(b) + 1
	}
	old := rand.Reader
	rand.Reader = e
	defer func() { rand.Reader = old }()
	f(e)
}

var _ io.Reader = (*Entropy)(nil)

// ---------------------------------------------------------------------------------------------
// Spies

type Event struct {
	Obj  string // e.g. "Encr_i", "Integ_r"
	Op   string // Encrypt, Decrypt, Reset, Write, Sum
	Data []byte // argument (copy)
}

type Log struct {
	mu     sync.Mutex
	Events []Event
}

func (l *Log) add(obj, op string, data []byte) {
	l.mu.Lock()
	l.Events = append(l.Events, Event{obj, op, append([]byte(nil), data...)})
	l.mu.Unlock()
}

func (l *Log) Count(obj, op string) int {
	n := 0
	for _, e := range l.Events {
		if (obj == "" || e.Obj == obj) && e.Op == op {
			n++
		}
	}
	return n
}

type Crypto interface {
	Encrypt([]byte) ([]byte, error)
	Decrypt([]byte) ([]byte, error)
}

type SpyCrypto struct {
	Name  string
	Inner Crypto
	Log   *Log
}

func (s *SpyCrypto) Encrypt(p []byte) ([]byte, error) {
	s.Log.add(s.Name, "Encrypt", p)
	return s.Inner.Encrypt(p)
}

func (s *SpyCrypto) Decrypt(c []byte) ([]byte, error) {
	s.Log.add(s.Name, "Decrypt", c)
	return s.Inner.Decrypt(c)
}

type SpyHash struct {
	Name  string
	Inner hash.Hash
	Log   *Log
}

func (s *SpyHash) Write(p []byte) (int, error) {
	s.Log.add(s.Name, "Write", p)
	return s.Inner.Write(p)
}
func (s *SpyHash) Sum(b []byte) []byte { s.Log.add(s.Name, "Sum", nil); return s.Inner.Sum(b) }
func (s *SpyHash) Reset()              { s.Log.add(s.Name, "Reset", nil); s.Inner.Reset() }
func (s *SpyHash) Size() int           { return s.Inner.Size() }
func (s *SpyHash) BlockSize() int      { return s.Inner.BlockSize() }

var allocSample = []metrics.Sample{{Name: "/gc/heap/allocs:bytes"}}

// AllocBytes returns the cumulative number of heap octets allocated by the process so far (runtime/metrics; cheap, no
// stop-the-world). Differences across a call bound what the call allocated (other goroutines of a check process are idle
// apart from the watchdog ticker; small allocations are accounted with a lag of at most a few spans per P).
func AllocBytes() uint64 {
	metrics.Read(allocSample)
	if allocSample[0].Value.Kind() != metrics.KindUint64 {
		return 0
	}
	return allocSample[0].Value.Uint64()
}

// Carve lays the given octet strings out back to back (last argument first) in ONE buffer (followed by a guard area) and returns a view of each:
// every view has the right length and content, but spare capacity, and what lies behind it is the next argument. That is how
// a caller holds e.g. Ni|Nr|g^ir or the nonces of several exchanges. unchanged() reports whether any octet of the buffer - an
// argument or the memory behind one - was written to meanwhile.
func Carve(parts ...[]byte) (views [][]byte, unchanged func() error) {
	total := 32
	for _, p := range parts {
		total += len(p)
	}
	buf := make([]byte, 0, total)
	offs := make([]int, len(parts))
	// laid out in REVERSE order: code that concatenates its arguments in their natural order (append(a, b...)) would
	// otherwise write b exactly onto b and leave no trace
	for i := len(parts) - 1; i >= 0; i-- {
		offs[i] = len(buf)
		buf = append(buf, parts[i]...)
	}
	for len(buf) < total {
		buf = append(buf, 0xC3)
	}
	snapshot := append([]byte(nil), buf...)
	for i, p := range parts {
		views = append(views, buf[offs[i]:offs[i]+len(p)]) // capacity runs to the end of the buffer
	}
	return views, func() error {
		for i := range buf {
			if buf[i] != snapshot[i] {
				return fmt.Errorf("octet %d of the buffer holding the arguments was overwritten (%#02x -> %#02x): an argument, or the memory behind an argument's length, was written to", i, snapshot[i], buf[i])
			}
		}
		return nil
	}
}

// SpyBlock wraps a cipher.Block (the AES block inside the library's own cipher object) and logs every block operation as
// an Encrypt / Decrypt event of the named cipher object: code that asks "is this the library's own cipher type?" before
// touching the cipher is observed too, which a wrapper around the IKECrypto interface cannot do.
type SpyBlock struct {
	Name  string
	Inner cipher.Block
	Log   *Log
}

func (s *SpyBlock) BlockSize() int { return s.Inner.BlockSize() }
func (s *SpyBlock) Encrypt(dst, src []byte) {
	s.Log.add(s.Name, "Encrypt", nil)
	s.Inner.Encrypt(dst, src)
}
func (s *SpyBlock) Decrypt(dst, src []byte) {
	s.Log.add(s.Name, "Decrypt", nil)
	s.Inner.Decrypt(dst, src)
}

// PrintAll formats v and every value reachable from it through exported fields, pointers, interfaces, slices and maps with
// %v and %+v - what logging statements scattered over an application do, one object at a time. String() / Format methods of
// every type on the way are invoked (fmt itself does not follow pointers below the top level).
func PrintAll(v any) {
	seen := map[uintptr]bool{}
	var walk func(rv reflect.Value, depth int)
	walk = func(rv reflect.Value, depth int) {
		if !rv.IsValid() || depth > 8 {
			return
		}
		if rv.CanInterface() {
			switch rv.Kind() {
			case reflect.Ptr, reflect.Struct, reflect.Slice, reflect.Map, reflect.Interface:
				if !(rv.Kind() == reflect.Slice && rv.Type().Elem().Kind() == reflect.Uint8 && rv.Len() > 256) {
					_ = fmt.Sprintf("%v %+v", rv.Interface(), rv.Interface())
				}
			default:
				if _, ok := rv.Interface().(fmt.Stringer); ok {
					_ = fmt.Sprintf("%v", rv.Interface())
				}
			}
		}
		switch rv.Kind() {
		case reflect.Ptr:
			if rv.IsNil() || seen[rv.Pointer()] {
				return
			}
			seen[rv.Pointer()] = true
			walk(rv.Elem(), depth+1)
		case reflect.Interface:
			if !rv.IsNil() {
				walk(rv.Elem(), depth+1)
			}
		case reflect.Struct:
			for i := 0; i < rv.NumField(); i++ {
				if rv.Type().Field(i).IsExported() {
					walk(rv.Field(i), depth+1)
				}
			}
		case reflect.Slice:
			if rv.Type().Elem().Kind() == reflect.Uint8 {
				return
			}
			for i := 0; i < rv.Len() && i < 64; i++ {
				walk(rv.Index(i), depth+1)
			}
		case reflect.Map:
			for it := rv.MapRange(); it.Next(); {
				walk(it.Value(), depth+1)
			}
		}
	}
	walk(reflect.ValueOf(v), 0)
}
