package props

import (
	"bytes"
	"crypto/cipher"
	"errors"
	"fmt"
	"reflect"
	"testing"

	"github.com/free5gc/ike/security"
	"pgregory.net/rapid"

	"verif/bridge"
	"verif/gen"
	"verif/model"
	"verif/probe"
	"verif/ref"
)

// C02 — tampered, truncated, spliced, cross-key or reflected SK messages are rejected.

type c02Edit struct {
	Pos int   `json:"pos"`
	Xor uint8 `json:"xor"` // non-zero
}

type c02In struct {
	protIn
	Producer  string        `json:"producer"` // "lib" or "ref"
	IV        model.Bytes   `json:"iv"`
	Msg2      model.Message `json:"msg2"` // second message under the same keys (splices)
	OtherKeys bridge.KeySet `json:"other_keys"`
	Edits     [][]c02Edit   `json:"edits"`      // multi-octet edits
	Exts      []model.Bytes `json:"extensions"` // octets appended
	AllFlips  bool          `json:"all_flips"`
	Warm      bool          `json:"receiver_has_accepted_the_genuine_message_before"`
	// Large: a message of several KiB; alterations are sampled instead of enumerated
	Large bool `json:"large_message,omitempty"`
	// BlockSpy: the receiver's cipher objects are the library's own, with a spy installed as their AES block (instead of a
	// spy wrapped around the IKECrypto interface)
	BlockSpy bool `json:"spy_at_block_level,omitempty"`
}

// spySA builds a receiver SA whose cipher and integrity objects are spies sharing one log.
func spySA(s bridge.SuiteSel, k bridge.KeySet) (*security.IKESAKey, *probe.Log, error) {
	return spySAMode(s, k, false)
}

// installBlockSpy replaces the exported cipher.Block field of the library's cipher object (looked up by reflection, so that
// a cipher type without such a field simply is not spied on at that level); reports whether it could.
func installBlockSpy(c any, name string, log *probe.Log) bool {
	v := reflect.ValueOf(c)
	if v.Kind() != reflect.Ptr || v.IsNil() || v.Elem().Kind() != reflect.Struct {
		return false
	}
	blockT := reflect.TypeOf((*cipher.Block)(nil)).Elem()
	for i := 0; i < v.Elem().NumField(); i++ {
		f := v.Elem().Field(i)
		if f.Type() == blockT && f.CanSet() && !f.IsNil() {
			f.Set(reflect.ValueOf(&probe.SpyBlock{Name: name, Inner: f.Interface().(cipher.Block), Log: log}))
			return true
		}
	}
	return false
}

func spySAMode(s bridge.SuiteSel, k bridge.KeySet, blockLevel bool) (*security.IKESAKey, *probe.Log, error) {
	sa, err := bridge.NewSA(s, k)
	if err != nil {
		return nil, nil, err
	}
	log := &probe.Log{}
	if !blockLevel || !installBlockSpy(sa.Encr_i, "Encr_i", log) || !installBlockSpy(sa.Encr_r, "Encr_r", log) {
		sa.Encr_i = &probe.SpyCrypto{Name: "Encr_i", Inner: sa.Encr_i, Log: log}
		sa.Encr_r = &probe.SpyCrypto{Name: "Encr_r", Inner: sa.Encr_r, Log: log}
	}
	sa.Integ_i = &probe.SpyHash{Name: "Integ_i", Inner: sa.Integ_i, Log: log}
	sa.Integ_r = &probe.SpyHash{Name: "Integ_r", Inner: sa.Integ_r, Log: log}
	return sa, log, nil
}

type c02Ctx struct {
	in      c02In
	recvI   bool
	classes map[string]int
	// warm: the receiver object first accepts this genuine message (as a real receiver has, before an altered copy arrives)
	warm []byte
}

// tryAltered offers one altered byte string x (!= every genuine message) to the receiver and judges the outcome.
func (cx *c02Ctx) tryAltered(x []byte, class string, keys bridge.KeySet, recvI bool) error {
	cx.classes[class]++
	modes := []bool{false}
	if len(x) >= 28 {
		modes = append(modes, true)
	}
	for _, withHdr := range modes {
		sa, log, err := spySAMode(cx.in.Suite, keys, cx.in.BlockSpy)
		if err != nil {
			return fmt.Errorf("HARNESS: %v", err)
		}
		if cx.warm != nil && recvI == cx.recvI {
			if _, werr := libUnprotect(cx.warm, sa, recvI, withHdr); werr == nil {
				class = class + "(after-genuine)"
			}
			log.Events = nil
		}
		got, err := libUnprotect(x, sa, recvI, withHdr)
		if probe.IsPanic(err) {
			return fmt.Errorf("%s: DecodeDecrypt panics on an altered message (%d octets, header pre-parsed=%v): %v", class, len(x), withHdr, err)
		}
		if errors.Is(err, errNeitherNor) {
			return fmt.Errorf("%s: altered message (%d octets, header pre-parsed=%v): %v", class, len(x), withHdr, err)
		}
		if err != nil && len(err.Error()) >= 12 && err.Error()[:12] == "ParseHeader:" {
			continue // header cannot be pre-parsed: this mode does not exist for x
		}
		presentsSK := len(x) > 16 && x[16] == 46
		if !presentsSK && len(x) >= 28 {
			// the datagram still presents an Encrypted payload if one sits further down the chain (behind payloads the decoder
			// skips): then it IS handled as a protected message and the alteration must be noticed
			if raws, serr := ref.SplitLenient(x[16], x[28:]); serr == nil {
				for _, r := range raws {
					if r.Type == 46 {
						presentsSK = true
					}
				}
			}
		}
		if len(x) > 16 && !presentsSK {
			// carve-out: no longer presents an Encrypted payload -> handled as an unprotected datagram, no key applied
			want, werr := libUnprotect(x, nil, recvI, withHdr)
			if probe.IsPanic(werr) {
				return fmt.Errorf("%s: DecodeDecrypt without keys panics: %v", class, werr)
			}
			if (err == nil) != (werr == nil) {
				return fmt.Errorf("%s: first payload type %d is not SK: with keys (%v) and without keys (%v) disagree", class, x[16], err, werr)
			}
			if err == nil && model.Diff(want, got) != "" {
				return fmt.Errorf("%s: first payload type %d is not SK: result with keys differs from result without keys: %s", class, x[16], model.Diff(want, got))
			}
			if len(log.Events) != 0 {
				return fmt.Errorf("%s: first payload type %d is not SK but key material was applied (%d cipher/MAC calls)", class, x[16], len(log.Events))
			}
			cx.classes["carve-out"]++
			continue
		}
		if err == nil {
			return fmt.Errorf("%s: altered message ACCEPTED as an unprotection (%d octets, header pre-parsed=%v)", class, len(x), withHdr)
		}
		if n := log.Count("", "Decrypt"); n != 0 {
			return fmt.Errorf("%s: ciphertext handed to the cipher (%d Decrypt calls) although the message is rejected", class, n)
		}
	}
	return nil
}

func c02Oracle(in c02In) probe.Outcome {
	saS, err := bridge.NewSA(in.Suite, in.Keys)
	if err != nil {
		return probe.Fail("%v", err)
	}
	var w, w2 []byte
	if in.Producer == "lib" {
		w, _, _, err = libProtect(in.Msg, saS, in.SendI, in.Entropy)
		if err == nil {
			w2, _, _, err = libProtect(in.Msg2, saS, in.SendI, append(append(model.Bytes(nil), in.Entropy...), 0x55))
		}
	} else {
		w, err = refProtect(in.Msg, in.Suite, in.Keys, in.SendI, in.IV, -1, nil)
		if err == nil {
			iv2 := append(model.Bytes(nil), in.IV...)
			iv2[0] ^= 0xff
			w2, err = refProtect(in.Msg2, in.Suite, in.Keys, in.SendI, iv2, -1, nil)
		}
	}
	if err != nil {
		return probe.Fail("producing the genuine messages: %v", err)
	}
	recvI := !in.SendI
	cx := &c02Ctx{in: in, recvI: recvI, classes: map[string]int{}}
	if in.Warm {
		cx.warm = w
	}
	icv := in.Suite.Ref().Integ.OutLen

	// the genuine message: accepted, MAC over the received bytes verified before the one Decrypt call
	for _, withHdr := range []bool{false, true} {
		sa, log, err := spySAMode(in.Suite, in.Keys, in.BlockSpy)
		if err != nil {
			return probe.Fail("HARNESS: %v", err)
		}
		got, err := libUnprotect(w, sa, recvI, withHdr)
		if err != nil {
			return probe.Fail("genuine message rejected (producer %s): %v", in.Producer, err)
		}
		if d := model.Diff(in.Msg, got); d != "" {
			return probe.Fail("genuine message decodes differently: %s", d)
		}
		if len(log.Events) == 0 {
			cx.classes["spies-unobservable"]++
		} else {
			peerInteg, peerEncr := "Integ_r", "Encr_r"
			if in.SendI {
				peerInteg, peerEncr = "Integ_i", "Encr_i"
			}
			var maced []byte
			sumAt, decAt, nDec := -1, -1, 0
			for i, e := range log.Events {
				switch {
				case e.Op == "Decrypt":
					nDec++
					decAt = i
					if e.Obj != peerEncr {
						return probe.Fail("genuine message decrypted with %s, want the sender's direction %s", e.Obj, peerEncr)
					}
				case e.Obj == peerInteg && e.Op == "Reset":
					maced = nil
				case e.Obj == peerInteg && e.Op == "Write":
					maced = append(maced, e.Data...)
				case e.Obj == peerInteg && e.Op == "Sum":
					if sumAt == -1 {
						sumAt = i
						if !bytes.Equal(maced, w[:len(w)-icv]) {
							return probe.Fail("checksum was computed over something other than the received bytes up to the checksum")
						}
					}
				case e.Op == "Encrypt":
					return probe.Fail("Encrypt called during unprotection")
				}
			}
			if nDec < 1 {
				return probe.Fail("genuine message accepted without any call to the SA's cipher object")
			}
			firstDec := -1
			for i, e := range log.Events {
				if e.Op == "Decrypt" {
					firstDec = i
					break
				}
			}
			_ = decAt
			if sumAt == -1 || sumAt > firstDec {
				return probe.Fail("ciphertext was handed to the cipher before the checksum over the received bytes was computed")
			}
		}
	}

	fail := func(err error) probe.Outcome { return probe.Fail("%v", err) }
	// (a) single-bit flips: all of them (or all header/SK-header/IV/ICV bits plus a stride through the ciphertext)
	for i := 0; i < len(w); i++ {
		region := "ciphertext"
		switch {
		case i < 28:
			region = "header"
		case i < 32:
			region = "sk-header"
		case i < 48:
			region = "iv"
		case i >= len(w)-icv:
			region = "icv"
		}
		if !in.AllFlips && region == "ciphertext" && i%7 != 0 {
			continue
		}
		if in.Large && region == "ciphertext" && i%251 != 0 && i < len(w)-icv-32 {
			continue // large message: every 251st ciphertext octet and the last two blocks
		}
		for b := 0; b < 8; b++ {
			if in.Large && b != i%8 {
				continue // one bit per octet
			}
			x := append([]byte(nil), w...)
			x[i] ^= 1 << uint(b)
			if err := cx.tryAltered(x, "flip:"+region, in.Keys, recvI); err != nil {
				return fail(fmt.Errorf("bit %d of octet %d: %w", b, i, err))
			}
		}
	}
	// (a') every value of the two type octets an attacker can rewrite in the clear: the header's first-payload octet and the
	// next-payload octet of the SK payload (multi-bit edits that no single flip reaches, e.g. 46 -> 49 or 33 -> 49)
	for _, at := range []int{16, 28} {
		for v := 0; v < 256; v++ {
			if len(w) <= at || byte(v) == w[at] {
				continue
			}
			if in.Large && !(v <= 1 || (v >= 32 && v <= 50) || v >= 254) {
				continue // large message: the payload type codes, their neighbours and the extremes
			}
			x := append([]byte(nil), w...)
			x[at] = byte(v)
			if err := cx.tryAltered(x, "type-octet", in.Keys, recvI); err != nil {
				return fail(fmt.Errorf("octet %d set to %d: %w", at, v, err))
			}
		}
	}
	// (b) every proper prefix
	for l := 0; l < len(w); l++ {
		if !in.AllFlips && l > 64 && l < len(w)-40 && l%5 != 0 {
			continue
		}
		if in.Large && l > 64 && l < len(w)-40 && l%499 != 0 {
			continue
		}
		if err := cx.tryAltered(w[:l], "prefix", in.Keys, recvI); err != nil {
			return fail(fmt.Errorf("prefix of %d octets: %w", l, err))
		}
	}
	// (b') truncation with the SK payload length (and the header length) re-framed to the shorter datagram
	for l := 32; l < len(w); l++ {
		if !in.AllFlips && l > 80 && l < len(w)-40 && l%5 != 0 {
			continue
		}
		if in.Large && l > 80 && l < len(w)-40 && l%499 != 0 {
			continue
		}
		x := append([]byte(nil), w[:l]...)
		x[30], x[31] = byte((l-28)>>8), byte(l-28)
		if err := cx.tryAltered(x, "prefix+sk-length", in.Keys, recvI); err != nil {
			return fail(fmt.Errorf("prefix of %d octets with the SK length re-framed: %w", l, err))
		}
		gen.FixHeaderLength(x)
		if err := cx.tryAltered(x, "prefix+sk-length+header-length", in.Keys, recvI); err != nil {
			return fail(fmt.Errorf("prefix of %d octets with both lengths re-framed: %w", l, err))
		}
	}
	// (c) extensions
	for _, ext := range in.Exts {
		if len(ext) == 0 {
			continue
		}
		if err := cx.tryAltered(append(append([]byte(nil), w...), ext...), "extension", in.Keys, recvI); err != nil {
			return fail(err)
		}
		// extension with the header length field adjusted
		x := append(append([]byte(nil), w...), ext...)
		gen.FixHeaderLength(x)
		if err := cx.tryAltered(x, "extension+length", in.Keys, recvI); err != nil {
			return fail(err)
		}
	}
	// (c') extension that is a well-formed payload of a SUPPORTED type: the chain continues after SK with the type SK's
	// next-payload field names, so a valid Notify / Nonce / Vendor body makes the outer chain [SK, payload]
	for _, body := range [][]byte{{0, 0, 0x40, 0x00}, {1, 2, 3, 4, 5, 6, 7, 8}, {}} {
		x := append(append([]byte(nil), w...), 0, 0, 0, byte(4+len(body)))
		x = append(x, body...)
		if err := cx.tryAltered(x, "extension:wellformed-payload", in.Keys, recvI); err != nil {
			return fail(err)
		}
		gen.FixHeaderLength(x)
		if err := cx.tryAltered(x, "extension:wellformed-payload+length", in.Keys, recvI); err != nil {
			return fail(err)
		}
	}
	// an extension that is itself a genuine message of the same SA (two datagrams glued together, or the same one twice)
	for _, tail := range [][]byte{w2, w} {
		if err := cx.tryAltered(append(append([]byte(nil), w...), tail...), "extension:genuine-message", in.Keys, recvI); err != nil {
			return fail(err)
		}
	}
	// a well-formed payload of a type the decoder skips, spliced in between the header and the SK payload (header octet 16 now
	// names it, its next-payload field names SK), with and without the header length brought up to date
	for _, ty := range []byte{1, 32, 49, 53, 128, 255} {
		for _, body := range [][]byte{{}, {0, 1, 0, 2}, {1, 2, 3, 4, 5, 6, 7, 8, 9}} {
			x := append([]byte(nil), w[:28]...)
			x[16] = ty
			x = append(x, 46, 0, 0, byte(4+len(body)))
			x = append(x, body...)
			x = append(x, w[28:]...)
			if err := cx.tryAltered(x, "insert-before-sk", in.Keys, recvI); err != nil {
				return fail(fmt.Errorf("payload of type %d inserted in front of SK: %w", ty, err))
			}
			y := append([]byte(nil), x...)
			gen.FixHeaderLength(y)
			if err := cx.tryAltered(y, "insert-before-sk+length", in.Keys, recvI); err != nil {
				return fail(fmt.Errorf("payload of type %d inserted in front of SK, header length adjusted: %w", ty, err))
			}
		}
	}
	// the SK payload cut short (its length field lowered to 4 + k octets of body) and the octets behind the cut framed as one
	// more payload of the outer chain - of a type the decoder skips, or of a supported type - by writing a generic payload header
	// over four octets at the cut, or by inserting one: the datagram still parses as a chain, the Encrypted payload in it is too
	// short / no longer the last one / covered by another checksum position
	if len(w) >= 36 {
		body := len(w) - 32
		for k := 0; k+4 <= body; k++ {
			if k > 72 && k < body-72 && (!in.AllFlips || in.Large) && k%53 != 0 {
				continue
			}
			for _, ty := range []byte{200, 40, 49} {
				if ty != 200 && k%4 != 0 {
					continue
				}
				x := append([]byte(nil), w...)
				x[28] = ty
				x[30], x[31] = byte((4+k)>>8), byte(4+k)
				rest := len(w) - (32 + k)
				x[32+k], x[33+k], x[34+k], x[35+k] = 0, 0, byte(rest>>8), byte(rest)
				if err := cx.tryAltered(x, "sk-cut-short+rest-framed-as-payload", in.Keys, recvI); err != nil {
					return fail(fmt.Errorf("SK payload cut to %d body octets, the rest framed as a payload of type %d: %w", k, ty, err))
				}
				y := append([]byte(nil), w[:32+k]...)
				y[28] = ty
				y[30], y[31] = byte((4+k)>>8), byte(4+k)
				y = append(y, 0, 0, byte((rest+4)>>8), byte(rest+4))
				y = append(y, w[32+k:]...)
				gen.FixHeaderLength(y)
				if err := cx.tryAltered(y, "sk-cut-short+rest-framed-as-payload", in.Keys, recvI); err != nil {
					return fail(fmt.Errorf("SK payload cut to %d body octets, a payload header of type %d inserted in front of the rest: %w", k, ty, err))
				}
			}
		}
	}
	// the four header fields that say "initial request" rewritten together (exchange type IKE_SA_INIT, message id 0, responder
	// SPI 0, flags of a request): still a protected message, still altered
	{
		x := append([]byte(nil), w...)
		for i := 8; i < 16; i++ {
			x[i] = 0
		}
		x[18], x[19] = 34, 0x08
		x[20], x[21], x[22], x[23] = 0, 0, 0, 0
		if !bytes.Equal(x, w) {
			if err := cx.tryAltered(x, "header-rewritten-as-initial-request", in.Keys, recvI); err != nil {
				return fail(err)
			}
		}
		for _, fl := range []byte{0x00, 0x20, 0x28} {
			y := append([]byte(nil), x...)
			y[19] = fl
			if !bytes.Equal(y, w) {
				if err := cx.tryAltered(y, "header-rewritten-as-initial-exchange", in.Keys, recvI); err != nil {
					return fail(err)
				}
			}
		}
	}
	// (d) multi-octet edits
	for _, ed := range in.Edits {
		x := append([]byte(nil), w...)
		changed := false
		for _, e := range ed {
			if e.Xor != 0 && len(x) > 0 {
				x[e.Pos%len(x)] ^= e.Xor
				changed = true
			}
		}
		if !changed || bytes.Equal(x, w) {
			continue
		}
		if err := cx.tryAltered(x, "edit", in.Keys, recvI); err != nil {
			return fail(err)
		}
	}
	// (e) splices of two genuine messages under the same keys (message ids differ by construction)
	if !bytes.Equal(w, w2) {
		sp1 := append(append([]byte(nil), w[:28]...), w2[28:]...)
		sp2 := append(append([]byte(nil), w2[:28]...), w[28:]...)
		for _, x := range [][]byte{sp1, sp2} {
			if bytes.Equal(x, w) || bytes.Equal(x, w2) {
				continue
			}
			if err := cx.tryAltered(x, "splice:header|body", in.Keys, recvI); err != nil {
				return fail(err)
			}
			y := append([]byte(nil), x...)
			gen.FixHeaderLength(y)
			if !bytes.Equal(y, w) && !bytes.Equal(y, w2) {
				if err := cx.tryAltered(y, "splice:header|body+length", in.Keys, recvI); err != nil {
					return fail(err)
				}
			}
		}
		// body of w with the checksum of w2, and SK header+IV of w2 with ciphertext of w
		if len(w) > 48+icv && len(w2) > 48+icv {
			x := append(append([]byte(nil), w[:len(w)-icv]...), w2[len(w2)-icv:]...)
			if !bytes.Equal(x, w) {
				if err := cx.tryAltered(x, "splice:body|icv", in.Keys, recvI); err != nil {
					return fail(err)
				}
			}
			x = append(append([]byte(nil), w2[:48]...), w[48:]...)
			if !bytes.Equal(x, w) && !bytes.Equal(x, w2) {
				if err := cx.tryAltered(x, "splice:iv|ciphertext", in.Keys, recvI); err != nil {
					return fail(err)
				}
			}
		}
	}
	// (f) the genuine message under an unrelated key set
	if err := cx.tryAltered(w, "cross-key", in.OtherKeys, recvI); err != nil {
		return fail(err)
	}
	// keys with only the integrity key or only the cipher key unrelated
	mix := in.Keys
	mix.Ai, mix.Ar = in.OtherKeys.Ai, in.OtherKeys.Ar
	if err := cx.tryAltered(w, "cross-key:integrity-only", mix, recvI); err != nil {
		return fail(err)
	}
	// (g) reflection: offered to the role that produced it
	if err := cx.tryAltered(w, "reflection", in.Keys, in.SendI); err != nil {
		return fail(err)
	}
	labels := append(suiteLabels(in.protIn), "producer:"+in.Producer)
	counts := map[string]int{}
	for k, v := range cx.classes {
		labels = append(labels, "class:"+k)
		counts["altered-inputs:"+k] = v
		counts["altered-inputs:total"] += v
	}
	if in.AllFlips {
		labels = append(labels, "all-bit-flips")
	}
	if in.Warm {
		labels = append(labels, "receiver-accepted-the-genuine-message-first")
	}
	if in.Large {
		labels = append(labels, fmt.Sprintf("large-message:>=%dKiB", len(w)/1024))
	}
	if in.BlockSpy {
		labels = append(labels, "spy:block-level")
	}
	return probe.Outcome{NonTrivial: true, Labels: labels, Counts: counts}
}

var c02Tamper = probe.Define("C02", "tamper", func(t *rapid.T) c02In {
	in := c02In{protIn: genProt(t, gen.Opts{MaxPayloads: 3, NoBig: true, MaxChain: 800})}
	in.Producer = rapid.SampledFrom([]string{"lib", "ref"}).Draw(t, "producer")
	if len(in.Entropy) == 0 {
		in.Entropy = gen.Fill(t, "entropy", 24)
	}
	in.IV = gen.Fill(t, "iv", 16)
	in.Msg2 = gen.Message(t, gen.Opts{MaxPayloads: 3, NoBig: true, MaxChain: 800})
	if in.Msg2.Header.MsgID == in.Msg.Header.MsgID {
		in.Msg2.Header.MsgID++
	}
	in.OtherKeys = genKeys(t, in.Suite)
	for _, p := range []*model.Bytes{&in.OtherKeys.Ei, &in.OtherKeys.Er, &in.OtherKeys.Ai, &in.OtherKeys.Ar} {
		(*p)[len(*p)-1] ^= 0x80 // unrelated by construction even if the draw repeated the first key set
	}
	in.OtherKeys.Ei[0], in.OtherKeys.Ai[0] = in.Keys.Ei[0]^1, in.Keys.Ai[0]^1
	in.OtherKeys.Er[0], in.OtherKeys.Ar[0] = in.Keys.Er[0]^1, in.Keys.Ar[0]^1
	n := rapid.IntRange(1, 6).Draw(t, "nedits")
	for i := 0; i < n; i++ {
		var ed []c02Edit
		for j := rapid.IntRange(2, 6).Draw(t, "editlen"); j > 0; j-- {
			ed = append(ed, c02Edit{Pos: rapid.IntRange(0, 4000).Draw(t, "pos"), Xor: uint8(rapid.IntRange(1, 255).Draw(t, "xor"))})
		}
		in.Edits = append(in.Edits, ed)
	}
	in.Exts = []model.Bytes{
		gen.Fill(t, "ext", rapid.IntRange(1, 64).Draw(t, "extlen")),
		{0, 0, 0, 4},             // looks like an empty skippable payload
		{0, 0, 0, 8, 1, 2, 3, 4}, // a skippable payload with a body
	}
	in.AllFlips = model.ChainSize(in.Msg.Payloads) <= 300
	in.Warm = rapid.Bool().Draw(t, "warm")
	in.BlockSpy = rapid.Bool().Draw(t, "blockspy")
	if rapid.IntRange(0, 5).Draw(t, "large") == 5 {
		// a message of 1..12 KiB (fragment-sized certificates, configuration payloads): alterations are sampled
		in.Large, in.AllFlips = true, false
		n := rapid.SampledFrom([]int{1100, 2000, 4100, 8300, 12000}).Draw(t, "largesize")
		in.Msg.Payloads = append([]model.Payload{{Kind: model.KVendor, Data: gen.Fill(t, "largedata", n)}}, in.Msg.Payloads...)
	}
	return in
}, c02Oracle)

func TestC02(t *testing.T) {
	c := probe.NewCtx(t, "C02")
	if c.Shard == 0 {
		endurance(c, "C02", "sizes-multiple-of-4096", c.N(48, 400))
	}
	c02Tamper.Run(c, t, c.N(100, 1000))
}
