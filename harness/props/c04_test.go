package props

import (
	"bytes"
	"encoding/json"
	"fmt"
	"hash/fnv"
	"runtime"
	"runtime/debug"
	"strings"
	"testing"
	"time"

	ike "github.com/free5gc/ike"
	"github.com/free5gc/ike/eap"
	"github.com/free5gc/ike/message"
	"github.com/free5gc/ike/security"
	"github.com/free5gc/ike/security/encr"
	"github.com/free5gc/ike/security/integ"
	"pgregory.net/rapid"

	"verif/bridge"
	"verif/gen"
	"verif/model"
	"verif/probe"
	"verif/ref"
)

// C04 — decoders survive arbitrary bytes: value or error, never crash, hang or over-read.

type c04In struct {
	Entry string          `json:"entry"`
	B     model.Bytes     `json:"b"`
	Suite bridge.SuiteSel `json:"suite,omitempty"`
	Keys  *bridge.KeySet  `json:"keys,omitempty"`
	// for entry "unprotect": receiver role and whether the header is parsed from the same bytes first
	RecvInitiator bool   `json:"recv_initiator,omitempty"`
	WithHeader    bool   `json:"with_header,omitempty"`
	Origin        string `json:"origin,omitempty"`
}

// body decoders by payload kind
func newBody(kind string) message.IKEPayload {
	switch kind {
	case model.KSA:
		return new(message.SecurityAssociation)
	case model.KKE:
		return new(message.KeyExchange)
	case model.KIDi:
		return new(message.IdentificationInitiator)
	case model.KIDr:
		return new(message.IdentificationResponder)
	case model.KCERT:
		return new(message.Certificate)
	case model.KCERTREQ:
		return new(message.CertificateRequest)
	case model.KAUTH:
		return new(message.Authentication)
	case model.KNonce:
		return new(message.Nonce)
	case model.KNotify:
		return new(message.Notification)
	case model.KDelete:
		return new(message.Delete)
	case model.KVendor:
		return new(message.VendorID)
	case model.KTSi:
		return new(message.TrafficSelectorInitiator)
	case model.KTSr:
		return new(message.TrafficSelectorResponder)
	case model.KCP:
		return new(message.Configuration)
	case model.KEAP:
		return message.NewPayloadEap()
	case "SK":
		return new(message.Encrypted)
	}
	return nil
}

var c04Entries = func() []string {
	e := []string{"message", "header", "eap", "eapmethod:identity", "eapmethod:notification", "eapmethod:nak", "eapmethod:expanded", "eapmethod:aka"}
	for _, k := range model.Kinds {
		e = append(e, "body:"+k)
	}
	e = append(e, "body:SK")
	return e
}()

// decodeEntry runs one decoding entry point on b and returns the normalised result as JSON.
func decodeEntry(in c04In, b []byte) (string, error) {
	var val any
	err := probe.Try(func() error {
		switch {
		case in.Entry == "message":
			m := new(message.IKEMessage)
			if err := m.Decode(b); err != nil {
				return err
			}
			mm, err := bridge.FromLib(m)
			if err != nil {
				return fmt.Errorf("HARNESS: %w", err)
			}
			val = mm.Normalize()
		case in.Entry == "header":
			h, err := message.ParseHeader(b)
			if err != nil {
				return err
			}
			val = map[string]any{"h": bridge.FromLibHeader(h), "next": h.NextPayload, "payloadbytes": model.Bytes(h.PayloadBytes)}
		case strings.HasPrefix(in.Entry, "payloads:"):
			var first int
			fmt.Sscanf(in.Entry, "payloads:%d", &first)
			var c message.IKEPayloadContainer
			if err := c.Decode(uint8(first), b); err != nil {
				return err
			}
			ps, err := bridge.FromLibPayloads(c)
			if err != nil {
				return fmt.Errorf("HARNESS: %w", err)
			}
			val = model.Message{Payloads: ps}.Normalize().Payloads
		case strings.HasPrefix(in.Entry, "body:"):
			p := newBody(in.Entry[5:])
			if err := p.Unmarshal(b); err != nil {
				return err
			}
			mp, err := bridge.FromLibPayload(p)
			if err != nil {
				return fmt.Errorf("HARNESS: %w", err)
			}
			val = mp.Normalize()
		case in.Entry == "eap":
			e := new(eap.EAP)
			if err := e.Unmarshal(b); err != nil {
				return err
			}
			me, err := bridge.FromLibEAP(e)
			if err != nil {
				return fmt.Errorf("HARNESS: %w", err)
			}
			val = me.Normalize()
		case strings.HasPrefix(in.Entry, "eapmethod:"):
			var d eap.EapTypeData
			switch in.Entry[10:] {
			case "identity":
				d = new(eap.EapIdentity)
			case "notification":
				d = new(eap.EapNotification)
			case "nak":
				d = new(eap.EapNak)
			case "expanded":
				d = new(eap.EapExpanded)
			default:
				d = new(eap.EapAkaPrime)
			}
			if err := d.Unmarshal(b); err != nil {
				return err
			}
			me, err := bridge.FromLibEAP(&eap.EAP{EapTypeData: d})
			if err != nil {
				return fmt.Errorf("HARNESS: %w", err)
			}
			val = me.Normalize()
		case in.Entry == "unprotect":
			var hdr *message.IKEHeader
			if in.WithHeader {
				h, err := message.ParseHeader(b)
				if err != nil {
					return err
				}
				hdr = h
			}
			var m *message.IKEMessage
			var err error
			if in.Keys == nil {
				m, err = ike.DecodeDecrypt(b, hdr, nil, bridge.Role(in.RecvInitiator))
			} else {
				key, kerr := bridge.NewSA(in.Suite, *in.Keys)
				if kerr != nil {
					return fmt.Errorf("HARNESS: %w", kerr)
				}
				m, err = ike.DecodeDecrypt(b, hdr, key, bridge.Role(in.RecvInitiator))
			}
			if err != nil {
				return err
			}
			mm, err := bridge.FromLib(m)
			if err != nil {
				return fmt.Errorf("HARNESS: %w", err)
			}
			val = mm.Normalize()
		case in.Entry == "cipher":
			key, kerr := bridge.NewSA(in.Suite, *in.Keys)
			if kerr != nil {
				return fmt.Errorf("HARNESS: %w", kerr)
			}
			pt, err := key.Encr_i.Decrypt(b)
			if err != nil {
				return err
			}
			val = model.Bytes(pt)
		default:
			return fmt.Errorf("HARNESS: unknown entry %q", in.Entry)
		}
		return nil
	})
	if err != nil {
		return "", err
	}
	j, jerr := json.Marshal(val)
	if jerr != nil {
		return "", fmt.Errorf("HARNESS: %w", jerr)
	}
	return string(j), nil
}

var c04FirstCheck = []string{"No sufficient bytes to decode next", "Received broken IKE header", "no sufficient bytes to decode the EAP-AKA' type",
	"No sufficient bytes to get number of traffic selector", "No sufficient bytes to decode the EAP expanded type"}

var c04Poisons = []byte{0xA5, 0x5A}

func c04Key(in c04In) uint64 {
	h := fnv.New64a()
	h.Write([]byte(in.Entry))
	h.Write(in.B)
	if in.Keys != nil {
		h.Write(in.Keys.Ei)
		h.Write(in.Keys.Ai)
		h.Write([]byte{byte(in.Suite.Encr), byte(in.Suite.Integ)})
	}
	if in.RecvInitiator {
		h.Write([]byte{1})
	}
	if in.WithHeader {
		h.Write([]byte{2})
	}
	return h.Sum64() | 1
}

func c04Oracle(in c04In) probe.Outcome {
	o := c04Oracle1(in)
	o.Key = c04Key(in)
	return o
}

func c04Oracle1(in c04In) probe.Outcome {
	labels := []string{"entry:" + strings.SplitN(in.Entry, ":", 2)[0]}
	if in.Origin != "" {
		labels = append(labels, "origin:"+in.Origin)
	}
	x0 := probe.Exact(in.B)
	a0 := probe.AllocBytes()
	v0, e0 := decodeEntry(in, x0)
	// allocation guard, the second stand-in for "work bounded by the input length": a decoder that sizes a buffer from a
	// declared (32-bit or multiplied) length before validating it allocates far more than the input warrants. Measured worst
	// case on the unchanged tree, including this harness's own read-back and the accounting lag of the runtime: < 2 MiB.
	if d := probe.AllocBytes() - a0; d > 16<<20+1024*uint64(len(in.B)) {
		return probe.Fail("%s: %d octets allocated while decoding %d input octets", in.Entry, d, len(in.B))
	}
	if probe.IsPanic(e0) {
		return probe.Fail("%s panics on %d octets (len == cap): %v", in.Entry, len(in.B), e0)
	}
	if e0 != nil && strings.HasPrefix(e0.Error(), "HARNESS") {
		return probe.Fail("%v", e0)
	}
	for _, poison := range c04Poisons {
		roomy := probe.Spare(in.B, poison)
		v1, e1 := decodeEntry(in, roomy)
		for i, o := range roomy[len(roomy):cap(roomy)] {
			if o != poison {
				return probe.Fail("%s: octet %d BEHIND the %d-octet slice was written to (%#02x -> %#02x): the decoder writes past the length of its input", in.Entry, i, len(in.B), poison, o)
			}
		}
		if probe.IsPanic(e1) {
			return probe.Fail("%s panics on %d octets with spare capacity (poison %#x): %v", in.Entry, len(in.B), poison, e1)
		}
		if (e0 == nil) != (e1 == nil) {
			return probe.Fail("%s: outcome depends on memory behind the slice: exact-capacity copy gives (%v), copy with spare capacity %#x gives (%v)", in.Entry, e0, poison, e1)
		}
		if e0 == nil && v0 != v1 {
			return probe.Fail("%s: decoded value depends on memory behind the slice (poison %#x):\n exact: %s\n spare: %s", in.Entry, poison, model.Clip([]byte(v0)), model.Clip([]byte(v1)))
		}
	}
	// size guard standing in for "work bounded by the input length"
	if len(v0) > 400*len(in.B)+200000 {
		return probe.Fail("%s: decoded value of %d JSON octets from %d input octets", in.Entry, len(v0), len(in.B))
	}
	// composition inside SK: a datagram that an independent receiver holding the keys verifies and decrypts gives, unprotected
	// by the library, what the plain chain decoder gives for the decrypted inner chain - the same payloads, or an error if that
	// one reports an error (not a part of the chain, not a guess)
	if in.Entry == "unprotect" && in.Keys != nil && !probe.IsPanic(e0) {
		if o, oerr := ref.Open(in.Suite.Ref(), in.Keys.Dir(!in.RecvInitiator), in.B); oerr == nil {
			var c message.IKEPayloadContainer
			cerr := probe.Try(func() error { return c.Decode(o.FirstInner, probe.Exact(o.Inner)) })
			if !probe.IsPanic(cerr) {
				if (cerr == nil) != (e0 == nil) {
					return probe.Fail("unprotect: an authentic datagram whose decrypted inner chain (first type %d, %d octets) the plain chain decoder answers with (%v) is answered with (%v) by DecodeDecrypt", o.FirstInner, len(o.Inner), cerr, e0)
				}
				if cerr == nil {
					if ps, perr := bridge.FromLibPayloads(c); perr == nil {
						want := string(model.JSON(model.Message{Payloads: ps}.Normalize().Payloads))
						var got struct {
							Payloads json.RawMessage `json:"payloads"`
						}
						if json.Unmarshal([]byte(v0), &got) == nil && len(got.Payloads) > 0 && string(got.Payloads) != want && !(want == "null" && string(got.Payloads) == "[]") {
							return probe.Fail("unprotect: the payloads of an authentic datagram differ from what the plain chain decoder gives for its decrypted inner chain:\n unprotect: %s\n chain:     %s", model.Clip(got.Payloads), model.Clip([]byte(want)))
						}
					}
				}
			}
		}
	}
	// composition: the whole-message result is the list of the per-payload results
	if in.Entry == "message" && len(in.B) >= 28 {
		if o := c04Composition(in, v0, e0); o != nil {
			return *o
		}
	}
	nontrivial := e0 == nil
	if e0 != nil {
		nontrivial = true
		for _, s := range c04FirstCheck {
			if strings.Contains(e0.Error(), s) {
				nontrivial = false
			}
		}
		labels = append(labels, "result:error")
	} else {
		labels = append(labels, "result:value")
	}
	return probe.Outcome{NonTrivial: nontrivial, Labels: labels}
}

// c04Composition checks that decoding a datagram equals decoding each payload body alone
// (from an exact-capacity copy): inside a datagram the "spare capacity" of a payload is the rest
// of the message, which must not matter.
func c04Composition(in c04In, v0 string, e0 error) *probe.Outcome {
	raws, serr := ref.SplitLenient(in.B[16], in.B[28:])
	var want []model.Payload
	wantErr := serr
	if hl := uint32(in.B[24])<<24 | uint32(in.B[25])<<16 | uint32(in.B[26])<<8 | uint32(in.B[27]); hl < 28 {
		// a length field smaller than the header itself is refused before any payload is looked at
		wantErr = fmt.Errorf("header length %d < 28", hl)
	}
	if wantErr == nil {
		for i, rp := range raws {
			kind, ok := model.KindOfCode[rp.Type]
			if rp.Type == 46 {
				kind, ok = "SK", true
			}
			if !ok {
				if rp.Flags&0x80 != 0 {
					wantErr = fmt.Errorf("critical unsupported payload %d", rp.Type)
					break
				}
				continue
			}
			p := newBody(kind)
			if rp.Type == 46 {
				// the library records the SK's own next-payload octet
				off := 28
				for j := 0; j < i; j++ {
					off += 4 + len(raws[j].Body)
				}
				p.(*message.Encrypted).NextPayload = in.B[off]
			}
			err := probe.Try(func() error { return p.Unmarshal(probe.Exact(rp.Body)) })
			if probe.IsPanic(err) {
				o := probe.Fail("body decoder %s panics on payload %d taken alone: %v", kind, i, err)
				return &o
			}
			if err != nil {
				wantErr = err
				break
			}
			mp, err := bridge.FromLibPayload(p)
			if err != nil {
				o := probe.Fail("HARNESS: %v", err)
				return &o
			}
			want = append(want, mp.Normalize())
		}
	}
	if e0 == nil && wantErr != nil {
		o := probe.Fail("whole-message decoding succeeds although a payload taken alone (exact capacity) is refused (%v): the rest of the datagram influenced its decoding", wantErr)
		return &o
	}
	if e0 != nil && wantErr == nil {
		// the whole datagram is refused although every payload decodes alone: message-level strictness (e.g. about the header)
		// is the decoder's right; nothing to compare
		return nil
	}
	if e0 == nil {
		var got model.Message
		if err := json.Unmarshal([]byte(v0), &got); err != nil {
			o := probe.Fail("HARNESS: %v", err)
			return &o
		}
		if !bytes.Equal(model.JSON(got.Payloads), model.JSON(want)) && !(len(got.Payloads) == 0 && len(want) == 0) {
			o := probe.Fail("whole-message decoding differs from decoding the payloads one by one: %s", model.DiffPayloads(want, got.Payloads))
			return &o
		}
	}
	return nil
}

// ---------------------------------------------------------------------------------------------
// generators

func c04RandomKeys(t *rapid.T) (bridge.SuiteSel, *bridge.KeySet) {
	s := bridge.SuiteSel{Encr: rapid.IntRange(0, 2).Draw(t, "encr"), Integ: rapid.IntRange(0, 2).Draw(t, "integ")}
	k := &bridge.KeySet{
		Ei: gen.Fill(t, "ei", ref.Encrs[s.Encr].KeyLen), Er: gen.Fill(t, "er", ref.Encrs[s.Encr].KeyLen),
		Ai: gen.Fill(t, "ai", ref.Integs[s.Integ].KeyLen), Ar: gen.Fill(t, "ar", ref.Integs[s.Integ].KeyLen),
	}
	return s, k
}

// strings for every entry point: raw, or a valid image of the right kind, mutated
var c04Rapid = probe.Define("C04", "strings", func(t *rapid.T) c04In {
	entry := rapid.SampledFrom(c04Entries).Draw(t, "entry")
	if rapid.IntRange(0, 9).Draw(t, "chain") == 9 {
		entry = fmt.Sprintf("payloads:%d", rapid.IntRange(0, 255).Draw(t, "first"))
	}
	in := c04In{Entry: entry}
	class := gen.Pick(t, "class", 2, 6, 1)
	if class == 0 {
		max := 2000
		if rapid.IntRange(0, 7).Draw(t, "hugeraw") == 7 {
			max = 65535 // the property's domain goes up to 65535 octets
		}
		in.B, in.Origin = gen.RawBytes(t, "raw", max), "raw"
		return in
	}
	var w []byte
	var fields []model.Field
	switch {
	case entry == "message" || entry == "header":
		m := gen.Message(t, gen.Opts{MaxPayloads: 5, NoBig: rapid.IntRange(0, 9).Draw(t, "allowbig") != 9})
		e := &ref.Enc{}
		w, _ = ref.EncodeMessage(m, e)
		fields = e.Fields
	case strings.HasPrefix(entry, "payloads:"):
		e := &ref.Enc{}
		_, w, _ = ref.EncodeChain(gen.Payloads(t, gen.Opts{MaxPayloads: 4, NoBig: true}), e)
		fields = e.Fields
	case strings.HasPrefix(entry, "body:"):
		k := entry[5:]
		if k == "SK" {
			w = gen.RawBytes(t, "skbody", 200)
		} else {
			e := &ref.Enc{}
			w, _ = ref.EncodeBody(gen.Payload(t, k, false), e)
			fields = e.Fields
		}
	case entry == "eap":
		w, fields, _ = ref.EncodeEAPLayout(gen.EAP(t, false), nil)
	default:
		kind := entry[10:]
		var e model.EAP
		for i := 0; i < 50; i++ {
			e = gen.EAP(t, false)
			if e.Kind == kind {
				break
			}
		}
		full, f2, _ := ref.EncodeEAPLayout(e, nil)
		w = full[4:]
		for _, f := range f2 {
			if f.Off >= 4 {
				f.Off -= 4
				fields = append(fields, f)
			}
		}
	}
	if class == 1 {
		mw, classes := gen.Mutate(t, w, fields)
		in.B, in.Origin = mw, "mutated"
		_ = classes
	} else {
		in.B, in.Origin = w, "valid"
	}
	return in
}, c04Oracle)

// unprotect with arbitrary strings / mutated protected messages, with and without keys
var c04Unprotect = probe.Define("C04", "unprotect", func(t *rapid.T) c04In {
	in := c04In{Entry: "unprotect", RecvInitiator: rapid.Bool().Draw(t, "recvI"), WithHeader: rapid.Bool().Draw(t, "withhdr")}
	withKey := rapid.IntRange(0, 3).Draw(t, "withkey") != 0
	s, k := c04RandomKeys(t)
	if withKey {
		in.Suite, in.Keys = s, k
	}
	switch gen.Pick(t, "class", 2, 3, 4, 3) {
	case 0:
		max := 1000
		if rapid.IntRange(0, 7).Draw(t, "hugeraw") == 7 {
			max = 65535
		}
		in.B, in.Origin = gen.RawBytes(t, "raw", max), "raw"
	case 1:
		m := gen.Message(t, gen.Opts{MaxPayloads: 4, NoBig: true})
		e := &ref.Enc{}
		w, _ := ref.EncodeMessage(m, e)
		if rapid.Bool().Draw(t, "mutate") {
			w, _ = gen.Mutate(t, w, e.Fields)
		}
		in.B, in.Origin = w, "plain"
	case 2:
		// genuine protected message (reference-built), then mutated
		first, inner, _ := ref.EncodeChain(gen.Payloads(t, gen.Opts{MaxPayloads: 3, NoBig: true}), nil)
		pl := 15 - len(inner)%16
		hdr := ref.Header28(rapid.Uint64().Draw(t, "ispi"), 2, 2, 0, 35, 8, 1)
		w, err := ref.Protect(s.Ref(), k.Dir(!in.RecvInitiator), hdr, first, inner, gen.Fill(t, "iv", 16), pl, gen.Fill(t, "pad", pl), 0)
		if err != nil {
			panic(err)
		}
		fields := []model.Field{{Off: 16, Width: 1, Kind: ref.FHdrNext}, {Off: 24, Width: 4, Kind: ref.FHdrLen}, {Off: 28, Width: 1, Kind: ref.FPayNext},
			{Off: 29, Width: 1, Kind: ref.FPayFlags}, {Off: 30, Width: 2, Kind: ref.FPayLen}}
		if rapid.Bool().Draw(t, "mutate") {
			w, _ = gen.Mutate(t, w, fields)
		}
		in.B, in.Origin = w, "protected"
	default:
		// post-MAC: arbitrary inner octets, next-payload and pad-length octet under the receiver's keys
		nblocks := rapid.IntRange(1, 6).Draw(t, "nblocks")
		pt := gen.Fill(t, "plaintext", 16*nblocks)
		if rapid.Bool().Draw(t, "structured") {
			_, inner, _ := ref.EncodeChain(gen.Payloads(t, gen.Opts{MaxPayloads: 2, NoBig: true}), nil)
			if len(inner) > 0 && len(inner) < len(pt) {
				copy(pt, inner)
			}
		}
		pt[len(pt)-1] = rapid.Byte().Draw(t, "padoctet")
		hdr := ref.Header28(1, 2, 2, 0, 35, 8, 1)
		w, err := ref.ProtectPlain(s.Ref(), k.Dir(!in.RecvInitiator), hdr, rapid.Byte().Draw(t, "next"), pt, gen.Fill(t, "iv", 16), 0)
		if err != nil {
			panic(err)
		}
		in.B, in.Origin = w, "postmac"
		in.Suite, in.Keys = s, k
	}
	return in
}, c04Oracle)

var c04Cipher = probe.Define("C04", "cipher", func(t *rapid.T) c04In {
	s, k := c04RandomKeys(t)
	in := c04In{Entry: "cipher", Suite: s, Keys: k}
	n := gen.Len(t, "ctlen", 0, 200, 0, 15, 16, 17, 31, 32, 33, 48)
	in.B = gen.Fill(t, "ct", n)
	return in
}, c04Oracle)

var c04Sweep = probe.Define("C04", "sweep", func(t *rapid.T) c04In { panic("enumerated") }, c04Oracle)

// ---------------------------------------------------------------------------------------------
// exhaustive boundary sweeps over the size sites of fixed templates

type c04Template struct {
	entry  string
	w      []byte
	fields []model.Field
	suite  bridge.SuiteSel
	keys   *bridge.KeySet // entry "unprotect": receiver keys (receiver = responder, header not pre-parsed / pre-parsed both tried)
}

func c04Templates() []c04Template {
	b := func(n int, x byte) model.Bytes { return bytes.Repeat([]byte{x}, n) }
	tv := &model.Attr{TV: true, Type: 14, Value: 256}
	tlv := &model.Attr{TV: false, Type: 300, Var: b(5, 0x77)}
	sa := model.Payload{Kind: model.KSA, SA: &model.SA{Proposals: []model.Proposal{
		{Number: 1, Protocol: 1, SPI: b(8, 0x11), Transforms: []model.Transform{{Type: 1, ID: 12, Attr: tv}, {Type: 2, ID: 5}, {Type: 3, ID: 12, Attr: tlv}, {Type: 4, ID: 14}}},
		{Number: 2, Protocol: 3, SPI: b(4, 0x22), Transforms: []model.Transform{{Type: 1, ID: 12, Attr: tv}, {Type: 5, ID: 0}}},
	}}}
	payloads := []model.Payload{
		sa,
		{Kind: model.KKE, KE: &model.KE{Group: 14, Data: b(9, 0x33)}},
		{Kind: model.KIDi, ID: &model.ID{Type: 2, Data: b(5, 0x44)}},
		{Kind: model.KIDr, ID: &model.ID{Type: 2, Data: b(5, 0x44)}},
		{Kind: model.KCERT, Cert: &model.Cert{Encoding: 4, Data: b(6, 0x55)}},
		{Kind: model.KCERTREQ, Cert: &model.Cert{Encoding: 4, Data: b(20, 0x56)}},
		{Kind: model.KAUTH, Auth: &model.Auth{Method: 2, Data: b(12, 0x66)}},
		{Kind: model.KNonce, Data: b(16, 0x77)},
		{Kind: model.KNotify, Notify: &model.Notify{Protocol: 3, Type: 16393, SPI: b(4, 0x88), Data: b(3, 0x99)}},
		{Kind: model.KDelete, Delete: &model.Delete{Protocol: 3, SPISize: 4, Count: 3, SPIs: []uint32{1, 2, 0xffffffff}}},
		{Kind: model.KVendor, Data: b(7, 0xaa)},
		{Kind: model.KTSi, TS: &model.TS{Selectors: []model.Selector{{Type: 7, Protocol: 6, StartPort: 1, EndPort: 2, StartAddr: b(4, 1), EndAddr: b(4, 2)}, {Type: 8, Protocol: 17, StartPort: 3, EndPort: 4, StartAddr: b(16, 3), EndAddr: b(16, 4)}}}},
		{Kind: model.KTSr, TS: &model.TS{Selectors: []model.Selector{{Type: 8, Protocol: 17, StartPort: 3, EndPort: 4, StartAddr: b(16, 3), EndAddr: b(16, 4)}, {Type: 7, Protocol: 6, StartPort: 1, EndPort: 2, StartAddr: b(4, 1), EndAddr: b(4, 2)}}}},
		{Kind: model.KCP, CP: &model.CP{Type: 1, Attrs: []model.CPAttr{{Type: 1, Value: b(4, 0xbb)}, {Type: 8, Value: nil}, {Type: 13, Value: b(8, 0xcc)}}}},
	}
	akaAll := model.EAP{Code: 1, Identifier: 9, Kind: model.EAka, Sub: 1, Attrs: []model.AkaAttr{
		{Type: model.AT_RAND, Value: b(16, 1)}, {Type: model.AT_AUTN, Value: b(16, 2)}, {Type: model.AT_RES, Value: b(5, 3)}, {Type: model.AT_MAC, Value: b(16, 4)},
		{Type: model.AT_KDF_INPUT, Value: b(10, 5)}, {Type: model.AT_KDF, Value: b(2, 6)}, {Type: model.AT_CHECKCODE, Value: b(20, 7)}}}
	eaps := []model.EAP{
		akaAll,
		{Code: 2, Identifier: 1, Kind: model.EIdentity, Data: b(6, 0x61)},
		{Code: 1, Identifier: 1, Kind: model.ENotification, Data: b(3, 0x62)},
		{Code: 2, Identifier: 1, Kind: model.ENak, Data: b(1, 50)},
		{Code: 1, Identifier: 2, Kind: model.EExpanded, VendorID: 10415, VendorType: 3, Data: model.Bytes{2, 0, 0, 3, 9, 9, 9}},
		{Code: 3, Identifier: 3, Kind: model.ENone},
	}
	var out []c04Template
	for _, p := range payloads {
		e := &ref.Enc{}
		w, err := ref.EncodeBody(p, e)
		if err != nil {
			panic(err)
		}
		out = append(out, c04Template{entry: "body:" + p.Kind, w: w, fields: e.Fields})
	}
	for _, ep := range eaps {
		w, f, err := ref.EncodeEAPLayout(ep, nil)
		if err != nil {
			panic(err)
		}
		out = append(out, c04Template{entry: "eap", w: w, fields: f})
		out = append(out, c04Template{entry: "body:EAP", w: w, fields: f})
		if ep.Kind != model.ENone {
			var f2 []model.Field
			for _, x := range f {
				if x.Off >= 4 {
					x.Off -= 4
					f2 = append(f2, x)
				}
			}
			out = append(out, c04Template{entry: "eapmethod:" + ep.Kind, w: w[4:], fields: f2})
		}
	}
	// whole messages: all payloads in one datagram, and two small ones
	for _, ps := range [][]model.Payload{payloads, {payloads[8], sa}, {payloads[9]}, {{Kind: model.KEAP, EAP: &akaAll}, payloads[13]}} {
		e := &ref.Enc{}
		m := model.Message{Header: model.Header{ISPI: 1, RSPI: 2, Major: 2, Exchange: 35, Flags: 8, MsgID: 1}, Payloads: ps}
		w, err := ref.EncodeMessage(m, e)
		if err != nil {
			panic(err)
		}
		out = append(out, c04Template{entry: "message", w: w, fields: e.Fields})
		out = append(out, c04Template{entry: "header", w: w, fields: e.Fields})
		e2 := &ref.Enc{}
		first, cw, _ := ref.EncodeChain(ps, e2)
		out = append(out, c04Template{entry: fmt.Sprintf("payloads:%d", first), w: cw, fields: e2.Fields})
	}
	// protected messages (reference-built) offered to the unprotect path, one per integrity algorithm
	for ii := 0; ii < 3; ii++ {
		suite := bridge.SuiteSel{Encr: ii, Integ: ii}
		keys := fuzzKeysFor(suite)
		first, inner, _ := ref.EncodeChain([]model.Payload{payloads[7], payloads[8]}, nil)
		pl := 15 - len(inner)%16
		w, err := ref.Protect(suite.Ref(), keys.Dir(true), ref.Header28(1, 2, 2, 0, 35, 8, 1), first, inner, bytes.Repeat([]byte{9}, 16), pl, make([]byte, pl), 0)
		if err != nil {
			panic(err)
		}
		fields := []model.Field{{Off: 16, Width: 1, Kind: ref.FHdrNext}, {Off: 24, Width: 4, Kind: ref.FHdrLen}, {Off: 28, Width: 1, Kind: ref.FPayNext},
			{Off: 30, Width: 2, Kind: ref.FPayLen}}
		out = append(out, c04Template{entry: "unprotect", w: w, fields: fields, suite: suite, keys: keys})
	}
	return out
}

func c04SizeValues(width int, cur uint64, thorough bool) []uint64 {
	seen := map[uint64]bool{}
	var out []uint64
	add := func(v uint64) {
		max := uint64(1)<<(8*uint(width)) - 1
		v &= max
		if !seen[v] {
			seen[v] = true
			out = append(out, v)
		}
	}
	if width == 1 {
		for v := 0; v < 256; v++ {
			add(uint64(v))
		}
		return out
	}
	for v := uint64(0); v <= 17; v++ {
		add(v)
	}
	for _, v := range []uint64{19, 20, 21, 39, 40, 41, 255, 256, 257, 0x7ffe, 0x7fff, 0x8000, 0x8001} {
		add(v)
	}
	for v := uint64(65519); v <= 65535; v++ {
		add(v)
	}
	for d := -4; d <= 4; d++ {
		add(cur + uint64(d))
	}
	if width == 4 {
		for _, v := range []uint64{0x10000, 0x7fffffff, 0x80000000, 0xfffffffe, 0xffffffff} {
			add(v)
		}
	}
	return out
}

func c04RunSweep(c *probe.Ctx, shard, shards int) {
	sizeLike := func(k string) bool {
		if k == ref.FHdrNext || k == ref.FPayNext {
			return true
		}
		return strings.HasSuffix(k, ".len") || strings.HasSuffix(k, "size") || strings.HasSuffix(k, "count") || strings.HasSuffix(k, "ntrans") ||
			strings.HasSuffix(k, "attrlen") || strings.HasSuffix(k, ".bits") || k == ref.FAttrType || k == ref.FTSType || k == ref.FEAPType || k == ref.FAkaAttrType
	}
	window := 6
	if c.Thorough() {
		window = 26
	}
	for ti, tp := range c04Templates() {
		if ti%shards != shard {
			continue
		}
		// every prefix of the template (truncation at every position)
		for l := 0; l <= len(tp.w); l++ {
			if !c04Sweep.Eval(c, c04In{Entry: tp.entry, B: tp.w[:l], Origin: "prefix", Suite: tp.suite, Keys: tp.keys, WithHeader: l%2 == 1 && l >= 28}) && c.Failures() > 12 {
				return
			}
		}
		msgLevel := tp.entry == "message" || tp.entry == "header" || strings.HasPrefix(tp.entry, "payloads:")
		for _, f := range tp.fields {
			if !sizeLike(f.Kind) || f.Width > 4 {
				continue
			}
			if msgLevel && !c.Thorough() && !strings.HasPrefix(f.Kind, "hdr.") && !strings.HasPrefix(f.Kind, "pay.") {
				continue // nested fields are swept through the body templates; the thorough tier also sweeps them in place
			}
			if tp.entry == "header" && !strings.HasPrefix(f.Kind, "hdr.") {
				continue
			}
			var cur uint64
			for i := 0; i < f.Width; i++ {
				cur = cur<<8 | uint64(tp.w[f.Off+i])
			}
			values := c04SizeValues(f.Width, cur, c.Thorough())
			if !c.Thorough() && (f.Kind == ref.FHdrNext || f.Kind == ref.FPayNext) {
				// next-payload octets: every supported type, the neighbours, and representatives of the unsupported ranges
				values = values[:0]
				for v := uint64(0); v <= 50; v++ {
					values = append(values, v)
				}
				values = append(values, 127, 128, 200, 255)
			}
			for _, v := range values {
				mw := append([]byte(nil), tp.w...)
				x := v
				for i := f.Width - 1; i >= 0; i-- {
					mw[f.Off+i] = byte(x)
					x >>= 8
				}
				lens := map[int]bool{len(mw): true}
				for l := f.Off + f.Width; l <= f.Off+f.Width+window && l <= len(mw); l++ {
					lens[l] = true
				}
				for d := -3; d <= 3; d++ {
					for _, need := range []int{f.Off + f.Width + int(v), f.Off + int(v), f.Off - 2 + int(v), f.Off + f.Width + 4*int(v), f.Off + f.Width + int(v)/8} {
						if l := need + d; l >= 0 && l <= len(mw) {
							lens[l] = true
						}
					}
				}
				for l := range lens {
					if !c04Sweep.Eval(c, c04In{Entry: tp.entry, B: mw[:l], Origin: "sweep:" + f.Kind, Suite: tp.suite, Keys: tp.keys, WithHeader: l%2 == 1 && l >= 28}) && c.Failures() > 12 {
						return
					}
				}
				// the same value with the buffer extended (room for the announced extent)
				if int(v) > 0 && int(v) < 70000 {
					ext := append(append([]byte(nil), mw...), bytes.Repeat([]byte{0x5c}, minInt(int(v)+8, 66000))...)
					if !c04Sweep.Eval(c, c04In{Entry: tp.entry, B: ext, Origin: "sweep-extended:" + f.Kind, Suite: tp.suite, Keys: tp.keys}) && c.Failures() > 12 {
						return
					}
				}
			}
		}
	}
	if c.Failures() == 0 {
		c.Exhaustive("sweep")
	}
}

func minInt(a, b int) int {
	if a < b {
		return a
	}
	return b
}

// SK bodies of every short length, with a valid ICV (post-MAC) and without, all suites, both roles
func c04RunSKBodies(c *probe.Ctx) {
	for ei := 0; ei < 3; ei++ {
		for ii := 0; ii < 3; ii++ {
			s := bridge.SuiteSel{Encr: ei, Integ: ii}
			k := &bridge.KeySet{Ei: bytes.Repeat([]byte{1}, ref.Encrs[ei].KeyLen), Er: bytes.Repeat([]byte{2}, ref.Encrs[ei].KeyLen),
				Ai: bytes.Repeat([]byte{3}, ref.Integs[ii].KeyLen), Ar: bytes.Repeat([]byte{4}, ref.Integs[ii].KeyLen)}
			for _, recvI := range []bool{false, true} {
				hdr := ref.Header28(1, 2, 2, 0, 35, 8, 1)
				for n := 0; n <= 16+16+16+17; n++ {
					body := bytes.Repeat([]byte{0xe7}, n)
					w, _ := ref.ProtectBody(s.Ref(), k.Dir(!recvI), hdr, 33, body, 0)
					for _, withHdr := range []bool{false, true} {
						c04Sweep.Eval(c, c04In{Entry: "unprotect", B: w, Suite: s, Keys: k, RecvInitiator: recvI, WithHeader: withHdr, Origin: "skbody-valid-icv"})
						// the same without ICV (body shorter than the checksum)
						raw := append([]byte(nil), w[:len(w)-ref.Integs[ii].OutLen]...)
						raw[30], raw[31] = byte((len(raw)-28)>>8), byte(len(raw)-28)
						gen.FixHeaderLength(raw)
						c04Sweep.Eval(c, c04In{Entry: "unprotect", B: raw, Suite: s, Keys: k, RecvInitiator: recvI, WithHeader: withHdr, Origin: "skbody-no-icv"})
					}
					if c.Failures() > 12 {
						return
					}
				}
				// header-only datagram and datagrams without SK, with keys
				for _, w := range [][]byte{append(ref.Header28(1, 2, 2, 0, 37, 0, 0)[:24], 0, 0, 0, 28)} {
					for _, withHdr := range []bool{false, true} {
						c04Sweep.Eval(c, c04In{Entry: "unprotect", B: w, Suite: s, Keys: k, RecvInitiator: recvI, WithHeader: withHdr, Origin: "header-only"})
						c04Sweep.Eval(c, c04In{Entry: "unprotect", B: w, RecvInitiator: recvI, WithHeader: withHdr, Origin: "header-only-nokey"})
					}
				}
			}
		}
	}
}

// nested SA structures with mutually consistent outer lengths but arbitrary transform / attribute lengths
// (a single-field sweep cannot reach these: the outer length check fires first)
func c04RunSANested(c *probe.Ctx) {
	be16 := func(v int) []byte { return []byte{byte(v >> 8), byte(v)} }
	trans := func(last byte, claimed int, rest []byte) []byte {
		t := []byte{last, 0, byte(claimed >> 8), byte(claimed), 1, 0, 0, 12}
		return append(t, rest...)
	}
	prop := func(last byte, spi []byte, spiSizeField int, transforms ...[]byte) []byte {
		var body []byte
		for _, t := range transforms {
			body = append(body, t...)
		}
		l := 8 + len(spi) + len(body)
		p := append([]byte{last, 0}, be16(l)...)
		p = append(p, 1, 3, byte(spiSizeField), byte(len(transforms)))
		p = append(p, spi...)
		return append(p, body...)
	}
	valid := trans(0, 8, nil)
	attrLens := []int{0, 1, 2, 3, 4, 5, 8, 65519, 65520, 65521, 65522, 65523, 65524, 65525, 65526, 65527, 65528, 65529, 65530, 65531, 65532, 65533, 65534, 65535}
	for claimed := 8; claimed <= 16; claimed++ {
		for restLen := 0; restLen <= 10; restLen++ {
			for _, af := range []byte{0x00, 0x80} {
				for _, al := range attrLens {
					rest := make([]byte, restLen)
					if restLen > 0 {
						rest[0] = af
					}
					if restLen > 1 {
						rest[1] = 14
					}
					if restLen > 3 {
						rest[2], rest[3] = byte(al>>8), byte(al)
					}
					for _, followed := range []bool{false, true} {
						for _, spi := range [][]byte{nil, {1, 2, 3, 4}} {
							var ts [][]byte
							if followed {
								ts = [][]byte{trans(3, claimed, rest), valid}
							} else {
								ts = [][]byte{trans(0, claimed, rest)}
							}
							body := prop(0, spi, len(spi), ts...)
							if !c04Sweep.Eval(c, c04In{Entry: "body:SA", B: body, Origin: "sa-nested"}) && c.Failures() > 12 {
								return
							}
							// the same as the last payload of a datagram (the decoder's slice then ends with the datagram)
							m := append(ref.Header28(1, 2, 2, 0, 34, 8, 0), 0, 0)
							m = append(m, be16(4+len(body))...)
							m = append(m, body...)
							m[16] = 33
							gen.FixHeaderLength(m)
							if !c04Sweep.Eval(c, c04In{Entry: "message", B: m, Origin: "sa-nested"}) && c.Failures() > 12 {
								return
							}
						}
					}
					if af == 0x80 && restLen <= 3 {
						break // attribute length value is irrelevant
					}
				}
			}
		}
	}
	// SPI size field against proposal length, every value
	for ss := 0; ss < 256; ss++ {
		for _, spiLen := range []int{0, 1, 4, 8, 247, 248, 255} {
			body := prop(0, bytes.Repeat([]byte{9}, spiLen), ss, valid)
			c04Sweep.Eval(c, c04In{Entry: "body:SA", B: body, Origin: "sa-nested-spi"})
		}
	}
}

// A key set whose algorithm descriptors were looked up by a name the library does not know (a configuration typo, an
// algorithm of a later version): the caller gets "no descriptor" and the unprotect / protect entry points answer with an error.
type c04NameIn struct {
	EncrName  string `json:"encr_name"`
	IntegName string `json:"integ_name"`
	RecvI     bool   `json:"recv_initiator"`
	WithHdr   bool   `json:"with_header"`
}

var c04Names = probe.Define("C04", "unknown-names", func(t *rapid.T) c04NameIn { panic("enumerated") }, func(in c04NameIn) probe.Outcome {
	suite := bridge.SuiteSel{Encr: 0, Integ: 1}
	keys := fuzzKeysFor(suite)
	msg := model.Message{Header: model.Header{ISPI: 7, RSPI: 9, Major: 2, Exchange: 37, Flags: 0x08, MsgID: 3}, Payloads: []model.Payload{{Kind: model.KNonce, Data: model.Bytes{1, 2, 3}}}}
	w, err := refProtect(msg, suite, *keys, !in.RecvI, make([]byte, 16), -1, nil)
	if err != nil {
		return probe.Fail("HARNESS: %v", err)
	}
	var sa *security.IKESAKey
	if err := probe.Try(func() error {
		// built the way a caller does it: descriptor by name, objects only where a descriptor came back
		sa = &security.IKESAKey{EncrInfo: encr.StrToType(in.EncrName), IntegInfo: integ.StrToType(in.IntegName)}
		if sa.EncrInfo != nil {
			k := make([]byte, sa.EncrInfo.GetKeyLength())
			sa.Encr_i, _ = sa.EncrInfo.NewCrypto(k)
			sa.Encr_r, _ = sa.EncrInfo.NewCrypto(k)
		}
		if sa.IntegInfo != nil {
			k := make([]byte, sa.IntegInfo.GetKeyLength())
			sa.Integ_i, sa.Integ_r = sa.IntegInfo.Init(k), sa.IntegInfo.Init(k)
		}
		return nil
	}); err != nil {
		return probe.Fail("a descriptor looked up by the name %q / %q is reported as present but cannot be used: %v", in.EncrName, in.IntegName, err)
	}
	x := probe.Exact(w)
	err = probe.Try(func() error {
		var hdr *message.IKEHeader
		if in.WithHdr {
			hdr, _ = message.ParseHeader(x)
		}
		_, e := ike.DecodeDecrypt(x, hdr, sa, bridge.Role(in.RecvI))
		return e
	})
	if probe.IsPanic(err) {
		return probe.Fail("DecodeDecrypt with a key set whose algorithms were looked up as %q / %q panics: %v", in.EncrName, in.IntegName, err)
	}
	lm, _ := bridge.ToLib(msg)
	err = probe.Try(func() error { _, e := ike.EncodeEncrypt(lm, sa, bridge.Role(in.RecvI)); return e })
	if probe.IsPanic(err) {
		return probe.Fail("EncodeEncrypt with a key set whose algorithms were looked up as %q / %q panics: %v", in.EncrName, in.IntegName, err)
	}
	return probe.OK(true, "unknown-names")
})

// Nothing is kept: decoding many DIFFERENT datagrams and dropping the results leaves the process where it was. A decoder
// that remembers what it has seen (a table of vendor ids, a cache of parsed proposals) makes the work and the memory of a call
// depend on the history of the process instead of on its input.
type c04RetainIn struct {
	N int `json:"datagrams"`
}

var c04Retention = probe.Define("C04", "retention", func(t *rapid.T) c04RetainIn { panic("enumerated") }, func(in c04RetainIn) probe.Outcome {
	h := model.Header{ISPI: 1, RSPI: 2, Major: 2, Exchange: 34, Flags: 8}
	floodSuite := bridge.SuiteSel{Encr: 1, Integ: 2}
	floodKeys := *fuzzKeysFor(floodSuite)
	floodSA, err := bridge.NewSA(floodSuite, floodKeys)
	if err != nil {
		return probe.Fail("HARNESS: %v", err)
	}
	live := func() uint64 {
		runtime.GC()
		runtime.GC()
		var ms runtime.MemStats
		runtime.ReadMemStats(&ms)
		return ms.HeapAlloc
	}
	flood := func(round int) error {
		for i := 0; i < in.N; i++ {
			big := make(model.Bytes, 1024)
			for j := range big {
				big[j] = byte(i>>uint(8*(j%3))) ^ byte(j*round)
			}
			uniq := model.Bytes{byte(i), byte(i >> 8), byte(i >> 16), byte(round), 0x55}
			m := model.Message{Header: h, Payloads: []model.Payload{
				{Kind: model.KVendor, Data: big}, {Kind: model.KNonce, Data: uniq}, {Kind: model.KNotify, Notify: &model.Notify{Type: uint16(i), SPI: uniq[:4], Data: uniq}},
				{Kind: model.KIDi, ID: &model.ID{Type: 2, Data: uniq}}, {Kind: model.KKE, KE: &model.KE{Group: uint16(i), Data: uniq}},
				{Kind: model.KSA, SA: &model.SA{Proposals: []model.Proposal{{Number: 1, Protocol: 1, SPI: uniq, Transforms: []model.Transform{{Type: 1, ID: uint16(i)}}}}}},
				{Kind: model.KEAP, EAP: &model.EAP{Code: 1, Identifier: byte(i), Kind: model.EIdentity, Data: uniq}},
			}}
			m.Header.MsgID = uint32(i)
			w, err := ref.EncodeMessage(m, nil)
			if err != nil {
				return err
			}
			if err := probe.Try(func() error { return new(message.IKEMessage).Decode(w) }); err != nil {
				return err
			}
			// ... and datagrams that are REFUSED: the same message protected, with one bit of the checksum or of the ciphertext
			// flipped (refused after the checksum was computed), and a truncated plain datagram
			if i%4 == 0 {
				pm := model.Message{Header: m.Header, Payloads: m.Payloads[1:4]}
				pw, err := refProtect(pm, floodSuite, floodKeys, true, big[:16], -1, nil)
				if err != nil {
					return err
				}
				pw[len(pw)-1-i%40] ^= 1 << uint(i%8)
				if _, err := libUnprotect(pw, floodSA, false, i%8 == 0); err == nil {
					return fmt.Errorf("a protected message with a flipped bit was accepted")
				} else if probe.IsPanic(err) {
					return err
				}
				if err := probe.Try(func() error { return new(message.IKEMessage).Decode(w[:len(w)-1-i%50]) }); probe.IsPanic(err) {
					return err
				}
			}
		}
		return nil
	}
	settle := func() int {
		n := runtime.NumGoroutine()
		for i := 0; i < 200; i++ {
			runtime.Gosched()
			time.Sleep(time.Millisecond)
			if m := runtime.NumGoroutine(); m < n {
				n = m
			} else if i > 20 {
				break
			}
		}
		return n
	}
	if err := flood(1); err != nil { // warm-up: whatever is initialised once is initialised now
		return probe.Fail("HARNESS: %v", err)
	}
	before, gBefore := live(), settle()
	if err := flood(2); err != nil {
		return probe.Fail("HARNESS: %v", err)
	}
	after, gAfter := live(), settle()
	if gAfter > gBefore+8 {
		return probe.Fail("%d goroutines are still running after %d datagrams (a quarter of them refused) were handled, %d before: handling a datagram leaves a goroutine behind", gAfter, in.N, gBefore)
	}
	if after > before+4<<20 {
		return probe.Fail("decoding %d different datagrams (about %d KiB in all) and dropping the results left %d KiB more live heap than before: the library keeps what it decodes",
			in.N, in.N*11/10, (after-before)>>10)
	}
	return probe.OK(true, "retention")
})

// c04RunLarge: inputs given DIRECTLY to a body decoder, to the payload-chain decoder and to the cipher are not limited to
// 64 KiB. Bodies of a few hundred KiB made of as many minimal elements as fit (tens of thousands of empty attributes, minimal
// proposals, 4-octet payloads of a type that is skipped; ciphertexts whose length is 16 + k*65536): work must stay in
// proportion to the input - the allocation guard of the oracle sees a quadratic copy loop, the lowered stack limit
// (TestC04 sets 32 MiB) a recursion per element, a second's worth of iterations nothing at all.
func c04RunLarge(c *probe.Ctx) {
	rep := func(unit []byte, n int, head ...byte) model.Bytes {
		out := append(model.Bytes(nil), head...)
		for i := 0; i < n; i++ {
			out = append(out, unit...)
		}
		return out
	}
	cases := []c04In{
		{Entry: "body:" + model.KCP, B: rep([]byte{0, 1, 0, 0}, 60000, 1, 0, 0, 0)},                           // 60000 empty attributes
		{Entry: "body:" + model.KCP, B: rep([]byte{0, 3, 0, 4, 9, 9, 9, 9}, 30000, 2, 0, 0, 0)},               // 30000 attributes of 4 octets
		{Entry: "body:" + model.KSA, B: rep([]byte{2, 0, 0, 16, 1, 1, 0, 1, 0, 0, 0, 8, 1, 0, 0, 12}, 20000)}, // 20000 minimal proposals, none the last
		{Entry: "body:" + model.KDelete, B: rep([]byte{1, 2, 3, 4}, 65535, 3, 4, 0xff, 0xff)},
		{Entry: "body:" + model.KTSi, B: rep([]byte{7, 6, 0, 16, 0, 0, 0xff, 0xff, 1, 1, 1, 1, 2, 2, 2, 2}, 255, 255, 0, 0, 0)},
		{Entry: "eapmethod:aka", B: rep([]byte{200, 1, 0, 0}, 60000, 50, 1, 0, 0)},                                                // 60000 one-word attributes of a type skipped by length
		{Entry: "eapmethod:aka", B: rep([]byte{11, 5, 0, 0, 1, 1, 1, 1, 1, 1, 1, 1, 1, 1, 1, 1, 1, 1, 1, 1}, 12000, 50, 1, 0, 0)}, // AT_MAC 12000 times
		{Entry: "payloads:200", B: rep([]byte{200, 0, 0, 4}, 400000)},                                                             // 400000 payloads of an unsupported type, all skipped
		{Entry: "payloads:40", B: rep([]byte{40, 0, 0, 5, 7}, 100000)},                                                            // 100000 nonces
	}
	last := cases[len(cases)-2].B
	last[len(last)-4] = 0 // the chain ends
	last = cases[len(cases)-1].B
	last[len(last)-5] = 0
	s := bridge.SuiteSel{Encr: 1}
	k := fuzzKeysFor(s)
	for _, n := range []int{16 + 65536, 16 + 65536 - 16, 16 + 65536 + 16, 16 + 2*65536, 16 + 4096, 16 + 1<<20} {
		b := make(model.Bytes, n)
		for i := range b {
			b[i] = byte(i*7 + n)
		}
		cases = append(cases, c04In{Entry: "cipher", B: b, Suite: s, Keys: k})
	}
	for _, in := range cases {
		in.Origin = "large-direct-input"
		if !c04Sweep.Eval(c, in) && c.Failures() > 3 {
			return
		}
	}
}

func TestC04(t *testing.T) {
	debug.SetMaxStack(32 << 20) // see c04RunLarge
	c := probe.NewCtx(t, "C04")
	shards := 1
	if c.Thorough() {
		c04Poisons = []byte{0xA5, 0x5A, 0x00, 0xFF}
		shards = 8
	}
	if c.Shard == 0 {
		c04Retention.Eval(c, c04RetainIn{N: c.N(12000, 40000)})
		c04RunLarge(c)
		c04RunSKBodies(c)
		c04RunSANested(c)
		// every notify type and every configuration attribute type with a few data lengths, as payload bodies (exact capacity
		// against poisoned spare capacity): a validator for ONE type code that reads a fixed amount is reached with certainty
		for v := 0; v < 65536 && c.Failures() <= 5; v++ {
			for _, n := range []int{1, 3, 16} {
				body := append([]byte{0, 0, byte(v >> 8), byte(v)}, pat(n, byte(v))...)
				c04Sweep.Eval(c, c04In{Entry: "body:" + model.KNotify, B: body, Origin: "id-sweep"})
			}
			if v < 32768 {
				for _, n := range []int{1, 16} {
					body := append([]byte{1, 0, 0, 0, byte(v >> 8), byte(v), 0, byte(n)}, pat(n, byte(v))...)
					c04Sweep.Eval(c, c04In{Entry: "body:" + model.KCP, B: body, Origin: "id-sweep"})
				}
			}
		}
		names := []string{"", "bogus", "ENCR_AES_CBC_512", "AUTH_HMAC_SHA2_512_256", "encr_aes_cbc_128", "auth_hmac_sha1_96", "ENCR_AES_CBC_128 ", "AUTH_HMAC_SHA1_96\x00"}
		for _, e := range append([]string{"ENCR_AES_CBC_128"}, names...) {
			for _, i := range append([]string{"AUTH_HMAC_SHA1_96"}, names...) {
				for m := 0; m < 4; m++ {
					if !c04Names.Eval(c, c04NameIn{EncrName: e, IntegName: i, RecvI: m&1 == 1, WithHdr: m&2 == 2}) && c.Failures() > 5 {
						break
					}
				}
			}
		}
	}
	if c.Shard < shards {
		c04RunSweep(c, c.Shard, shards)
	}
	c04Rapid.Run(c, t, c.N(20000, 150000))
	c04Unprotect.Run(c, t, c.N(6000, 50000))
	c04Cipher.Run(c, t, c.N(3000, 20000))
}
