package props

import (
	"bytes"
	"encoding/hex"
	"fmt"
	"math/big"
	"reflect"
	"runtime"
	"sync"
	"testing"
	"time"

	"github.com/free5gc/ike/eap"
	"github.com/free5gc/ike/message"
	"github.com/free5gc/ike/security"
	"github.com/free5gc/ike/security/dh"
	"github.com/free5gc/ike/security/encr"
	"github.com/free5gc/ike/security/esn"
	"github.com/free5gc/ike/security/integ"
	"github.com/free5gc/ike/security/prf"
	"pgregory.net/rapid"

	"verif/bridge"
	"verif/gen"
	"verif/model"
	"verif/probe"
	"verif/ref"
)

// C18 — independent SAs and messages can be processed concurrently without interference.
// The test binary is built with -race; a report of the race detector ends the process with
// status 66, which the driver turns into a violation.

type c18Op struct {
	Op    string        `json:"op"`
	Msg   model.Message `json:"msg,omitempty"`
	EAP   *model.EAP    `json:"eap,omitempty"`
	Bytes model.Bytes   `json:"bytes,omitempty"`
	A     int           `json:"a,omitempty"`
	B     int           `json:"b,omitempty"`
	Yield bool          `json:"yield,omitempty"`
}

type c18Prog struct {
	Suite bridge.SuiteSel `json:"suite"`
	Keys  bridge.KeySet   `json:"keys"`
	Ops   []c18Op         `json:"ops"`
}

type c18In struct {
	Procs  int         `json:"gomaxprocs"`
	Progs  []c18Prog   `json:"programs"`
	Shared model.Bytes `json:"shared_input"` // decoded concurrently by every goroutine, read-only
}

var c18OpKinds = []string{"encode", "decode", "protect-unprotect", "derive-ike", "derive-child", "dh", "transforms", "eap", "eap-mac", "prf-prime", "random", "decode-shared",
	"decode-modify-encode", "eap-decode-modify", "eap-decode-mac", "ike-and-children"}

// touchReachable writes to every octet string reachable from v (exported or not, through pointers, interfaces, slices and
// maps): a decoded value belongs to its caller, who may change it at will; anything it shares with another goroutine's value
// (a package-level default slice, a shared empty map) then shows up as a race or as a changed result.
func touchReachable(v reflect.Value, seen map[uintptr]bool) {
	switch v.Kind() {
	case reflect.Ptr:
		if v.IsNil() || seen[v.Pointer()] {
			return
		}
		seen[v.Pointer()] = true
		touchReachable(v.Elem(), seen)
	case reflect.Interface:
		if !v.IsNil() {
			touchReachable(v.Elem(), seen)
		}
	case reflect.Struct:
		for i := 0; i < v.NumField(); i++ {
			touchReachable(v.Field(i), seen)
		}
	case reflect.Slice:
		if v.IsNil() {
			return
		}
		if v.Type().Elem().Kind() == reflect.Uint8 {
			b := v.Bytes()
			b = b[:cap(b)]
			for i := range b {
				b[i] ^= 0xff
			}
			return
		}
		for i := 0; i < v.Len(); i++ {
			touchReachable(v.Index(i), seen)
		}
	case reflect.Map:
		if v.IsNil() {
			return
		}
		for it := v.MapRange(); it.Next(); {
			touchReachable(it.Value(), seen)
		}
	}
}

func c18Run(p c18Prog, shared []byte, concurrent bool) []string {
	out := make([]string, 0, len(p.Ops))
	sa, err := bridge.NewSA(p.Suite, p.Keys)
	if err != nil {
		return []string{"HARNESS: " + err.Error()}
	}
	peer, _ := bridge.NewSA(p.Suite, p.Keys)
	for _, op := range p.Ops {
		if concurrent && op.Yield {
			runtime.Gosched()
		}
		var res string
		err := probe.Try(func() error {
			switch op.Op {
			case "encode":
				w, _, e := libEncode(op.Msg)
				if e != nil {
					return e
				}
				res = hex.EncodeToString(w)
			case "decode":
				m, _, e := libDecode(op.Bytes)
				if e != nil {
					res = "error"
					return nil
				}
				res = string(model.JSON(m.Normalize()))
			case "decode-shared":
				dm := new(message.IKEMessage)
				if e := dm.Decode(shared); e != nil { // the shared slice itself, not a copy
					res = "error"
					return nil
				}
				m, e := bridge.FromLib(dm)
				if e != nil {
					return e
				}
				res = string(model.JSON(m.Normalize()))
			case "decode-modify-encode":
				dm := new(message.IKEMessage)
				if e := dm.Decode(probe.Exact(op.Bytes)); e != nil {
					res = "error"
					return nil
				}
				// the decoded message is this goroutine's own: change it and send it on
				touchReachable(reflect.ValueOf(&dm.Payloads), map[uintptr]bool{})
				dm.Payloads.BuildNonce([]byte{byte(op.A), byte(op.B)})
				w, e := dm.Encode()
				if e != nil {
					res = "encode-error"
					return nil
				}
				res = hex.EncodeToString(w)
			case "eap-decode-modify":
				pkt := new(eap.EAP)
				if e := pkt.Unmarshal(probe.Exact(op.Bytes)); e != nil {
					res = "error"
					return nil
				}
				if ak, ok := pkt.EapTypeData.(*eap.EapAkaPrime); ok && ak != nil {
					if e := ak.SetAttr(eap.AT_KDF, []byte{byte(op.A), byte(op.B)}); e != nil {
						return e
					}
					mac, e := pkt.CalcEapAkaPrimeAtMAC([]byte{byte(op.A), 2, 3})
					if e != nil {
						return e
					}
					if e := ak.SetAttr(eap.AT_MAC, mac); e != nil {
						return e
					}
				}
				w, e := pkt.Marshal()
				if e != nil {
					res = "marshal-error"
					return nil
				}
				m, e := bridge.FromLibEAP(pkt)
				if e != nil {
					return e
				}
				res = hex.EncodeToString(w) + string(model.JSON(m.Normalize()))
			case "protect-unprotect":
				w, _, _, e := libProtect(op.Msg, sa, op.A%2 == 0, nil)
				if e != nil {
					return e
				}
				got, e := libUnprotect(w, peer, op.A%2 != 0, op.B%2 == 0)
				if e != nil {
					return e
				}
				if _, e := ref.Open(p.Suite.Ref(), p.Keys.Dir(op.A%2 == 0), w); e != nil {
					return fmt.Errorf("independent receiver: %v", e)
				}
				res = string(model.JSON(got.Normalize()))
			case "derive-ike":
				x := newInfoSA(p.Suite)
				ikeNonce := append([]byte("nonce"), op.Bytes...)
				if op.B%3 == 0 {
					ikeNonce = bytes.Repeat(append([]byte{byte(op.B)}, op.Bytes...), 512/(1+len(op.Bytes))+1)[:512] // both nonces at their maximum
				}
				if e := x.GenerateKeyForIKESA(ikeNonce, append([]byte{1}, op.Bytes...), uint64(op.A), uint64(op.B)); e != nil {
					return e
				}
				res = fmt.Sprintf("%x|%x|%x|%x|%x|%x|%x", x.SK_d, x.SK_ai, x.SK_ar, x.SK_ei, x.SK_er, x.SK_pi, x.SK_pr)
			case "ike-and-children":
				// an IKE SA keyed the usual way (two ends of one exchange, or a re-created SA, hold EQUAL keys in different
				// objects) and three Child SAs derived from it; nonces of up to 520 octets
				x := newInfoSA(p.Suite)
				nonce := append([]byte("Ni|Nr"), op.Bytes...)
				if op.A%3 == 0 {
					nonce = bytes.Repeat(append([]byte{byte(op.A)}, op.Bytes...), 520/(1+len(op.Bytes))+1)[:520]
				}
				if e := x.GenerateKeyForIKESA(nonce, append([]byte{7}, op.Bytes...), uint64(op.A), uint64(op.B)); e != nil {
					return e
				}
				res = fmt.Sprintf("%x|%x", x.SK_d, x.SK_ei)
				for i := 0; i < 3; i++ {
					k, e := deriveChild(x, (op.A+i)%3, (op.B+i)%4, append(nonce[:len(nonce):len(nonce)], byte(i)))
					if e != nil {
						return e
					}
					res += fmt.Sprintf("|%x|%x|%x|%x", k.EncrI2R, k.IntegI2R, k.EncrR2I, k.IntegR2I)
				}
			case "derive-child":
				k, e := deriveChild(sa, op.A%3, op.B%4, op.Bytes)
				if e != nil {
					return e
				}
				res = fmt.Sprintf("%x|%x|%x|%x", k.EncrI2R, k.IntegI2R, k.EncrR2I, k.IntegR2I)
			case "dh":
				g := dh.StrToType(ref.DHs[op.A%2].Name)
				x := new(big.Int).SetBytes(append([]byte{1}, op.Bytes...))
				pub := g.GetPublicValue(x)
				peer := new(big.Int).SetInt64(int64(op.B) + 2)
				if op.B%2 == 1 {
					peer.Add(peer, ref.ModpPrime(ref.DHs[op.A%2].Bits)) // a peer value of p + k: reduced, like any other number
				}
				sh := g.GetSharedKey(x, peer)
				res = fmt.Sprintf("%x|%x", pub, sh)
			case "transforms":
				e := encr.StrToType(ref.Encrs[op.A%3].Name)
				tr, err := encr.ToTransform(e)
				if err != nil {
					return err
				}
				back := encr.DecodeTransform(tr)
				it := integ.ToTransform(integ.StrToType(ref.Integs[op.B%3].Name))
				ib := integ.DecodeTransform(it)
				pt := prf.ToTransform(prf.StrToType(ref.Prfs[op.A%3].Name))
				pb := prf.DecodeTransform(pt)
				dt := dh.ToTransform(dh.StrToType(ref.DHs[op.B%2].Name))
				db := dh.DecodeTransform(dt)
				es, _ := esn.StrToType("ESN_ENABLE")
				et := esn.ToTransform(es)
				eb, _ := esn.DecodeTransform(et)
				unk := encr.DecodeTransform(&message.Transform{TransformType: 1, TransformID: uint16(op.A + 100)})
				res = fmt.Sprintf("%d/%d %d %d %d %v %v %s", back.TransformID(), back.GetKeyLength(), ib.TransformID(), pb.TransformID(), db.TransformID(), eb.GetNeedESN(), unk == nil, message.IkePayloadType(op.A).String())
			case "eap":
				le, e := bridge.ToLibEAP(*op.EAP)
				if e != nil {
					return e
				}
				w, e := le.Marshal()
				if e != nil {
					res = "marshal-error"
					return nil
				}
				back := new(eap.EAP)
				if e := back.Unmarshal(probe.Exact(w)); e != nil {
					return e
				}
				m, e := bridge.FromLibEAP(back)
				if e != nil {
					return e
				}
				res = hex.EncodeToString(w) + string(model.JSON(m.Normalize())) + eap.EapType(op.A).String() + eap.EapAkaPrimeAttrType(op.B).String()
			case "eap-mac":
				le, e := bridge.ToLibEAP(*op.EAP)
				if e != nil {
					return e
				}
				mac, e := le.CalcEapAkaPrimeAtMAC(append([]byte("key"), op.Bytes...))
				if e != nil {
					return e
				}
				res = hex.EncodeToString(mac)
				// the caller fills the code into ITS packet - through the setter, or in place through the value the getter
				// hands out (the packet's own storage) - and sends the packet
				if ak, ok := le.EapTypeData.(*eap.EapAkaPrime); ok {
					filled := false
					if a, e := ak.GetAttr(eap.AT_MAC); e == nil && op.A%2 == 0 && len(a.GetValue()) == len(mac) {
						copy(a.GetValue(), mac)
						a2, e2 := ak.GetAttr(eap.AT_MAC) // (a getter that hands out copies leaves the packet as it was)
						filled = e2 == nil && bytes.Equal(a2.GetValue(), mac)
					}
					if !filled {
						if e := ak.SetAttr(eap.AT_MAC, mac); e != nil {
							return e
						}
					}
					w, e := le.Marshal()
					if e != nil {
						return e
					}
					res += "|" + hex.EncodeToString(w)
				}
			case "eap-decode-mac":
				// a received packet (any sender's encoding of it), decoded straight from the receive buffer - which several
				// goroutines may be reading - and verified: AT_MAC over the packet as received
				pkt := new(eap.EAP)
				if e := pkt.Unmarshal(op.Bytes); e != nil {
					res = "error"
					return nil
				}
				mac, e := pkt.CalcEapAkaPrimeAtMAC([]byte{byte(op.A), 2, 3, 4})
				if e != nil {
					res = "mac-error"
					return nil
				}
				res = hex.EncodeToString(mac)
			case "prf-prime":
				a, b, c, d, e2, e := eap.EapAkaPrimePRF(append([]byte{1}, op.Bytes...), append([]byte{2}, op.Bytes...), string(op.Bytes))
				if e != nil {
					return e
				}
				res = fmt.Sprintf("%x%x%x%x%x", a, b, c, d, e2)
				// the keys are the caller's: it wipes them when it is done with them
				for _, k := range [][]byte{a, b, c, d, e2} {
					for i := range k {
						k[i] = 0
					}
				}
			case "random":
				n, e := security.GenerateRandomNumber()
				if e != nil {
					return e
				}
				if n.BitLen() <= 128 || n.BitLen() > 2048 {
					return fmt.Errorf("random exponent out of range")
				}
				if _, e := security.GenerateRandomUint8(); e != nil {
					return e
				}
				res = "in-range"
			default:
				return fmt.Errorf("HARNESS: op %q", op.Op)
			}
			return nil
		})
		if err != nil {
			res = "ERR: " + firstLine(err.Error())
		}
		out = append(out, res)
	}
	return out
}

func c18GenOp(t *rapid.T) c18Op {
	op := c18Op{Op: rapid.SampledFrom(c18OpKinds).Draw(t, "op"), A: rapid.IntRange(0, 1000).Draw(t, "a"), B: rapid.IntRange(0, 1000).Draw(t, "b"), Yield: rapid.Bool().Draw(t, "yield")}
	small := gen.Opts{MaxPayloads: 3, NoBig: true, MaxChain: 1500}
	switch op.Op {
	case "encode", "protect-unprotect":
		op.Msg = gen.Message(t, small)
	case "decode", "decode-modify-encode":
		m := gen.Message(t, small)
		var enc *ref.Enc
		switch rapid.IntRange(0, 5).Draw(t, "flavour") {
		case 3, 4:
			// a payload of a type the library does not implement somewhere in the chain (non-critical mostly)
			rp := model.Raw{Type: unsupportedType(t), Critical: rapid.IntRange(0, 5).Draw(t, "critical") == 5, Body: gen.BytesLen(t, "rawbody", 0, 40, 0, 1, 4)}
			pos := rapid.IntRange(0, len(m.Payloads)).Draw(t, "pos")
			ps := append([]model.Payload(nil), m.Payloads[:pos]...)
			ps = append(ps, model.Payload{Kind: model.KRaw, Raw: &rp})
			m.Payloads = append(ps, m.Payloads[pos:]...)
		case 5:
			// a sender using the liberties of the RFC (reserved bits, critical flags on understood payloads)
			enc = &ref.Enc{Lib: rapid.SliceOfN(rapid.Byte(), 1, 24).Draw(t, "lib"), CriticalOnSupported: rapid.Bool().Draw(t, "crit")}
		}
		w, _ := ref.EncodeMessage(m, enc)
		if rapid.IntRange(0, 3).Draw(t, "mutate") == 3 {
			w, _ = gen.Mutate(t, w, nil)
		}
		op.Bytes = w
	case "eap-decode-mac":
		e := model.EAP{Code: 1, Identifier: rapid.Uint8().Draw(t, "eapid"), Kind: model.EAka, Sub: 1, Attrs: gen.AkaAttrs(t)}
		var order []int
		if rapid.Bool().Draw(t, "sender-order") {
			for i := range e.Attrs {
				order = append(order, i)
			}
			order = rapid.Permutation(order).Draw(t, "order")
		}
		op.Bytes, _ = ref.EncodeEAP(e, order)
	case "eap-decode-modify":
		e := gen.EAP(t, true)
		switch rapid.IntRange(0, 3).Draw(t, "eapflavour") {
		case 2:
			e = model.EAP{Code: 2, Identifier: e.Identifier, Kind: model.EAka, Sub: 2} // e.g. AKA'-Authentication-Reject: no attributes at all
		case 3:
			e = model.EAP{Code: 1, Identifier: e.Identifier, Kind: model.EAka, Sub: 1, Attrs: gen.AkaAttrs(t)}
		}
		op.Bytes, _ = ref.EncodeEAP(e, nil)
	case "eap":
		e := gen.EAP(t, true)
		op.EAP = &e
	case "eap-mac":
		e := model.EAP{Code: 1, Identifier: 3, Kind: model.EAka, Sub: 1, Attrs: gen.AkaAttrs(t)}
		op.EAP = &e
		op.Bytes = gen.Fill(t, "key", 29)
	default:
		op.Bytes = gen.Fill(t, "bytes", rapid.IntRange(0, 40).Draw(t, "n"))
	}
	return op
}

var c18Concurrent = probe.Define("C18", "concurrent", func(t *rapid.T) c18In {
	in := c18In{Procs: rapid.SampledFrom([]int{1, 2, 3, 4, 8, 16, 24}).Draw(t, "procs")}
	n := rapid.SampledFrom([]int{2, 3, 4, 6, 8, 16, 32, 64}).Draw(t, "goroutines")
	maxOps := 8
	if n >= 32 {
		maxOps = 4
	}
	for i := 0; i < n; i++ {
		p := c18Prog{Suite: genSuite(t)}
		p.Keys = genKeys(t, p.Suite)
		p.Keys.D = gen.Fill(t, "skd", ref.Prfs[p.Suite.Prf].KeyLen)
		for j := rapid.IntRange(1, maxOps).Draw(t, "nops"); j > 0; j-- {
			p.Ops = append(p.Ops, c18GenOp(t))
		}
		in.Progs = append(in.Progs, p)
	}
	m := gen.Message(t, gen.Opts{MaxPayloads: 4, NoBig: true})
	in.Shared, _ = ref.EncodeMessage(m, nil)
	return in
}, func(in c18In) probe.Outcome {
	shared := append([]byte(nil), in.Shared...)
	// The concurrent run comes FIRST: state that the library initialises lazily on first use (a memoisation map, a pooled
	// buffer) is touched concurrently while it is still cold; the sequential reference run follows.
	old := runtime.GOMAXPROCS(in.Procs)
	got := make([][]string, len(in.Progs))
	var wg sync.WaitGroup
	start := make(chan struct{})
	for i := range in.Progs {
		wg.Add(1)
		go func(i int) {
			defer wg.Done()
			<-start
			got[i] = c18Run(in.Progs[i], shared, true)
		}(i)
	}
	close(start)
	wg.Wait()
	runtime.GOMAXPROCS(old)
	// what each program returns when run alone
	want := make([][]string, len(in.Progs))
	for i, p := range in.Progs {
		want[i] = c18Run(p, shared, false)
		for _, r := range want[i] {
			if len(r) > 7 && r[:7] == "HARNESS" {
				return probe.Fail("%s", r)
			}
		}
	}
	for i := range in.Progs {
		for j := range want[i] {
			if j >= len(got[i]) || got[i][j] != want[i][j] {
				g := "<missing>"
				if j < len(got[i]) {
					g = got[i][j]
				}
				return probe.Fail("goroutine %d, operation %d (%s): result when run concurrently differs from the result when run alone:\n alone:      %s\n concurrent: %s",
					i, j, in.Progs[i].Ops[j].Op, model.Clip([]byte(want[i][j])), model.Clip([]byte(g)))
			}
		}
	}
	if !bytes.Equal(shared, in.Shared) {
		return probe.Fail("the shared read-only input slice was modified")
	}
	kinds := map[string]bool{}
	ops := 0
	for _, p := range in.Progs {
		for _, o := range p.Ops {
			kinds[o.Op] = true
			ops++
		}
	}
	labels := []string{fmt.Sprintf("goroutines:%d", len(in.Progs)), fmt.Sprintf("gomaxprocs:%d", in.Procs)}
	for k := range kinds {
		labels = append(labels, "op:"+k)
	}
	return probe.Outcome{NonTrivial: len(in.Progs) >= 4 && ops >= 3*len(in.Progs)/2 && len(kinds) >= 2, Labels: labels}
})

// c18Cold is the first burst of the process: every goroutine exercises every operation kind while all of the library's
// package-level state is still untouched (the registries, string tables, anything initialised on first use).
func c18Cold() c18In {
	in := c18In{Procs: 8}
	msg := model.Message{Header: model.Header{ISPI: 1, RSPI: 2, Major: 2, Exchange: 35, Flags: 8, MsgID: 1}, Payloads: []model.Payload{
		{Kind: model.KNonce, Data: model.Bytes{1, 2, 3}},
		{Kind: model.KEAP, EAP: &model.EAP{Code: 1, Identifier: 1, Kind: model.EAka, Sub: 1, Attrs: []model.AkaAttr{{Type: model.AT_RES, Value: model.Bytes{1, 2, 3, 4, 5}}, {Type: model.AT_CHECKCODE, Value: nil}}}},
		{Kind: model.KNotify, Notify: &model.Notify{Protocol: 1, Type: 16388, Data: model.Bytes{9}}},
	}}
	w, _ := ref.EncodeMessage(msg, nil)
	in.Shared = w
	for g := 0; g < 8; g++ {
		s := bridge.SuiteSel{Encr: g % 3, Integ: (g / 3) % 3, Prf: g % 3, DH: g % 2}
		k := *fuzzKeysFor(s)
		k.D = bytes.Repeat([]byte{byte(g + 1)}, ref.Prfs[s.Prf].KeyLen)
		p := c18Prog{Suite: s, Keys: k}
		e := *msg.Payloads[1].EAP
		kinds := append([]string(nil), c18OpKinds...)
		// a different starting point per goroutine so that different operations overlap
		for i := range kinds {
			kind := kinds[(i+g)%len(kinds)]
			op := c18Op{Op: kind, A: 200 + g, B: 130 + g, Bytes: model.Bytes{byte(g), 7}, Msg: msg}
			if kind == "eap" || kind == "eap-mac" {
				ee := e
				op.EAP = &ee
			}
			if kind == "decode" || kind == "decode-modify-encode" {
				op.Bytes = w
			}
			if kind == "eap-decode-modify" {
				op.Bytes, _ = ref.EncodeEAP(model.EAP{Code: 2, Identifier: byte(g), Kind: model.EAka, Sub: 2}, nil)
			}
			if kind == "eap-decode-mac" {
				op.Bytes = c18ReceivedChallenge(byte(g))
			}
			p.Ops = append(p.Ops, op)
		}
		in.Progs = append(in.Progs, p)
	}
	return in
}

// c18ErrorPaths: every goroutine decodes the SAME list of malformed datagrams (every size-like field of a few template messages
// set to boundary values), each starting at another place of the list: the rejection paths - which ordinary inputs rarely reach -
// run concurrently with themselves. What a goroutine got (the error text included) must be what it gets alone.
type c18ErrIn struct {
	Procs      int           `json:"gomaxprocs"`
	Goroutines int           `json:"goroutines"`
	Inputs     []model.Bytes `json:"inputs"`
}

func c18Malformed() []model.Bytes {
	attrTV := &model.Attr{Type: 14, TV: true, Value: 128}
	attrTLV := &model.Attr{Type: 300, Var: model.Bytes{1, 2, 3}}
	h := model.Header{ISPI: 11, RSPI: 12, Major: 2, Exchange: 34, Flags: 8, MsgID: 2}
	msgs := []model.Message{
		{Header: h, Payloads: []model.Payload{
			{Kind: model.KSA, SA: &model.SA{Proposals: []model.Proposal{{Number: 1, Protocol: 1, SPI: model.Bytes{1, 2, 3, 4},
				Transforms: []model.Transform{{Type: 1, ID: 12, Attr: attrTV}, {Type: 2, ID: 2}, {Type: 3, ID: 2, Attr: attrTLV}, {Type: 4, ID: 14}}}}}},
			{Kind: model.KNotify, Notify: &model.Notify{Protocol: 1, Type: 16388, SPI: model.Bytes{1, 2, 3, 4}, Data: model.Bytes{5}}},
			{Kind: model.KDelete, Delete: &model.Delete{Protocol: 3, SPISize: 4, Count: 2, SPIs: []uint32{1, 2}}},
		}},
		{Header: h, Payloads: []model.Payload{
			{Kind: model.KTSi, TS: &model.TS{Selectors: []model.Selector{{Type: 7, Protocol: 6, StartPort: 1, EndPort: 2, StartAddr: model.Bytes{10, 0, 0, 1}, EndAddr: model.Bytes{10, 0, 0, 9}},
				{Type: 8, StartAddr: make(model.Bytes, 16), EndAddr: make(model.Bytes, 16)}}}},
			{Kind: model.KCP, CP: &model.CP{Type: 1, Attrs: []model.CPAttr{{Type: 1, Value: model.Bytes{1, 2, 3, 4}}, {Type: 3, Value: nil}}}},
			{Kind: model.KEAP, EAP: &model.EAP{Code: 1, Identifier: 9, Kind: model.EAka, Sub: 1, Attrs: []model.AkaAttr{{Type: model.AT_RAND, Value: make(model.Bytes, 16)},
				{Type: model.AT_RES, Value: model.Bytes{1, 2, 3, 4, 5}}, {Type: model.AT_KDF, Value: model.Bytes{0, 1}}}}},
			{Kind: model.KKE, KE: &model.KE{Group: 14, Data: model.Bytes{1, 2, 3}}},
		}},
	}
	var out []model.Bytes
	for _, m := range msgs {
		e := &ref.Enc{}
		w, err := ref.EncodeMessage(m, e)
		if err != nil {
			continue
		}
		out = append(out, w)
		for _, f := range e.Fields {
			if f.Width > 4 || f.Off+f.Width > len(w) || f.Kind == "data" {
				continue
			}
			var cur uint64
			for i := 0; i < f.Width; i++ {
				cur = cur<<8 | uint64(w[f.Off+i])
			}
			for _, v := range []uint64{0, 1, 3, 4, 7, 8, 9, 10, 11, 12, cur - 1, cur + 1, cur + 4, 0x7f, 0x80, 0xff, 0xffff} {
				if v == cur || (f.Width == 1 && v > 0xff) {
					continue
				}
				x := append(model.Bytes(nil), w...)
				for i := f.Width - 1; i >= 0; i-- {
					x[f.Off+i] = byte(v)
					v >>= 8
				}
				out = append(out, x)
			}
		}
		for l := 0; l < len(w); l += 3 {
			out = append(out, append(model.Bytes(nil), w[:l]...))
		}
	}
	return out
}

// c18OddEAP: EAP-AKA' packets as they come - well-formed ones with different contents, and the same cut short by one to three
// octets, extended by one octet (a lone attribute type at the end), with the attribute length of the last attribute off by one;
// the EAP length field says what the packet has.
func c18OddEAP() []model.Bytes {
	var out []model.Bytes
	fix := func(b model.Bytes) model.Bytes {
		if len(b) >= 4 {
			b[2], b[3] = byte(len(b)>>8), byte(len(b))
		}
		return b
	}
	for id := byte(0); id < 12; id++ {
		w := c18ReceivedChallenge(id)
		out = append(out, w)
		for cut := 1; cut <= 3; cut++ {
			out = append(out, fix(append(model.Bytes(nil), w[:len(w)-cut]...)))
		}
		out = append(out, fix(append(append(model.Bytes(nil), w...), 11)), fix(append(append(model.Bytes(nil), w...), 1, 0)))
		x := append(model.Bytes(nil), w...)
		x[9]++
		out = append(out, x)
	}
	return out
}

var c18ErrorPaths = probe.Define("C18", "error-paths", func(t *rapid.T) c18ErrIn { panic("enumerated") }, func(in c18ErrIn) probe.Outcome {
	eaps := c18OddEAP()
	decodeAll := func(start int) []string {
		res := make([]string, len(in.Inputs)+len(eaps))
		for k := range in.Inputs {
			i := (start + k) % len(in.Inputs)
			err := probe.Try(func() error { return new(message.IKEMessage).Decode(probe.Exact(in.Inputs[i])) })
			if err != nil {
				res[i] = "error: " + firstLine(err.Error())
			} else {
				res[i] = "ok"
			}
			// in between: EAP packets, well-formed and odd ones (cut short, one octet too many, lengths off by a little)
			j := (start*7 + k) % len(eaps)
			pkt := new(eap.EAP)
			if err := probe.Try(func() error { return pkt.Unmarshal(probe.Exact(eaps[j])) }); err != nil {
				res[len(in.Inputs)+j] = "error: " + firstLine(err.Error())
			} else if m, err := bridge.FromLibEAP(pkt); err != nil {
				res[len(in.Inputs)+j] = "unreadable: " + firstLine(err.Error())
			} else {
				res[len(in.Inputs)+j] = string(model.JSON(m.Normalize()))
			}
		}
		return res
	}
	old := runtime.GOMAXPROCS(in.Procs)
	got := make([][]string, in.Goroutines)
	var wg sync.WaitGroup
	start := make(chan struct{})
	for g := 0; g < in.Goroutines; g++ {
		wg.Add(1)
		go func(g int) {
			defer wg.Done()
			<-start
			got[g] = decodeAll(g * 37)
		}(g)
	}
	close(start)
	wg.Wait()
	runtime.GOMAXPROCS(old)
	want := decodeAll(0)
	for g := range got {
		for i := range want {
			if got[g][i] != want[i] && got[g][i] != "" && want[i] != "" {
				return probe.Fail("goroutine %d, input %d (malformed datagrams first, EAP packets behind them): outcome when decoded concurrently differs from the outcome when decoded alone:\n alone:      %s\n concurrent: %s", g, i, model.Clip([]byte(want[i])), model.Clip([]byte(got[g][i])))
			}
		}
	}
	return probe.OK(true, "error-paths", fmt.Sprintf("malformed-inputs:%d", len(in.Inputs)))
})

// c18DHStorm: many more goroutines than processors, each running full-size exponentiations in both groups: a goroutine is
// preempted in the middle of a computation while the others run many of their own. Each goroutine checks the agreement law on
// its own two key pairs (and the race detector watches).
type c18StormIn struct {
	Procs      int         `json:"gomaxprocs"`
	Goroutines int         `json:"goroutines"`
	Seed       model.Bytes `json:"seed"`
}

var c18DHStorm = probe.Define("C18", "dh-storm", func(t *rapid.T) c18StormIn { panic("enumerated") }, func(in c18StormIn) probe.Outcome {
	old := runtime.GOMAXPROCS(in.Procs)
	defer runtime.GOMAXPROCS(old)
	errs := make([]string, in.Goroutines)
	pubs := make([]string, in.Goroutines)
	var wg sync.WaitGroup
	start := make(chan struct{})
	for g := 0; g < in.Goroutines; g++ {
		wg.Add(1)
		go func(g int) {
			defer wg.Done()
			<-start
			grp := dh.StrToType(ref.DHs[g%2].Name)
			n := ref.DHs[g%2].Bits / 8
			mk := func(tag byte) *big.Int {
				b := make([]byte, 256)
				for i := range b {
					b[i] = byte(i)*31 ^ tag ^ byte(g*7)
					if i < len(in.Seed) {
						b[i] ^= in.Seed[i]
					}
				}
				b[0] |= 0x80
				return new(big.Int).SetBytes(b)
			}
			a, b := mk(1), mk(2)
			err := probe.Try(func() error {
				pa, pb := grp.GetPublicValue(a), grp.GetPublicValue(b)
				pa0, pb0 := append([]byte(nil), pa...), append([]byte(nil), pb...)
				runtime.Gosched()
				s1 := grp.GetSharedKey(a, new(big.Int).SetBytes(pb))
				s2 := grp.GetSharedKey(b, new(big.Int).SetBytes(pa))
				if len(pa) != n || len(s1) != n || !bytes.Equal(s1, s2) {
					return fmt.Errorf("the two sides of an exchange disagree (or a value has the wrong length)")
				}
				if !bytes.Equal(pa, pa0) || !bytes.Equal(pb, pb0) {
					return fmt.Errorf("a public value handed out earlier changed while other computations ran")
				}
				// and one key exchange set up the way NewIKESAKey does it: this SA's own, freshly drawn key pair
				sa := newInfoSA(bridge.SuiteSel{DH: g % 2})
				pub, shared, e := security.CalculateDiffieHellmanMaterials(sa, pa)
				if e != nil {
					return e
				}
				if len(pub) != n || len(shared) != n {
					return fmt.Errorf("CalculateDiffieHellmanMaterials: wrong lengths")
				}
				pubs[g] = string(pub)
				return nil
			})
			if err != nil {
				errs[g] = err.Error()
			}
		}(g)
	}
	close(start)
	wg.Wait()
	for g, e := range errs {
		if e != "" {
			return probe.Fail("goroutine %d of %d (GOMAXPROCS %d): %s", g, in.Goroutines, in.Procs, e)
		}
	}
	// unrelated SAs set up at the same time have unrelated key pairs: every locally generated public value is its own
	seenPub := map[string]int{}
	for g, p := range pubs {
		if h, dup := seenPub[p]; dup && p != "" {
			return probe.Fail("goroutines %d and %d (GOMAXPROCS %d) were handed the same Diffie-Hellman key pair for their unrelated SAs", h, g, in.Procs)
		}
		seenPub[p] = g
	}
	return probe.OK(true, "dh-storm", fmt.Sprintf("goroutines:%d", in.Goroutines))
})

// c18ReceivedChallenge is an EAP-AKA' challenge whose sender put the attributes in an order of its own, so that the octets as
// received differ from what the library would write itself.
func c18ReceivedChallenge(id byte) model.Bytes {
	e := model.EAP{Code: 1, Identifier: id, Kind: model.EAka, Sub: 1, Attrs: []model.AkaAttr{
		{Type: model.AT_RAND, Value: bytes.Repeat([]byte{id ^ 0x11}, 16)}, {Type: model.AT_AUTN, Value: bytes.Repeat([]byte{0x22}, 16)},
		{Type: model.AT_KDF, Value: model.Bytes{0, 1}}, {Type: model.AT_KDF_INPUT, Value: model.Bytes("5G:mnc093.mcc208.3gppnetwork.org")},
		{Type: model.AT_MAC, Value: bytes.Repeat([]byte{id}, 16)}}}
	w, err := ref.EncodeEAP(e, []int{4, 2, 3, 0, 1})
	if err != nil {
		panic(err)
	}
	return w
}

// c18Hammer: every goroutine repeats ONE operation with ITS OWN fixed arguments many times over while the others do the same
// with theirs (or, in the "same" variant, with the very same arguments and - where the operation reads a datagram - the very
// same read-only datagram). Each result must be what the operation gives when run alone. This is where a memo of the last
// call, a one-entry cache, a shared builder or a "take the fast path when the lock is free" shows: two callers alternating
// on it with different arguments, or meeting on it with equal ones.
type c18HammerIn struct {
	Procs      int    `json:"gomaxprocs"`
	Goroutines int    `json:"goroutines"`
	Rounds     int    `json:"rounds"`
	Kind       string `json:"kind"`
	Same       bool   `json:"same_arguments"`
}

var c18Hammer = probe.Define("C18", "hammer", func(t *rapid.T) c18HammerIn { panic("enumerated") }, func(in c18HammerIn) probe.Outcome {
	cold := c18Cold()
	progs := make([]c18Prog, in.Goroutines)
	var sharedBytes, sharedCopy model.Bytes
	for g := range progs {
		src := cold.Progs[g%len(cold.Progs)]
		if in.Same {
			src = cold.Progs[0]
		}
		p := c18Prog{Suite: src.Suite, Keys: src.Keys}
		for _, op := range src.Ops {
			if op.Op == in.Kind {
				if !in.Same {
					op.A, op.B = op.A+g/len(cold.Progs), op.B+3*(g/len(cold.Progs))
				} else if op.Bytes != nil {
					if sharedBytes == nil {
						sharedBytes, sharedCopy = op.Bytes, append(model.Bytes(nil), op.Bytes...)
					}
					op.Bytes = sharedBytes // one slice, read by all
				}
				p.Ops = []c18Op{op}
			}
		}
		if len(p.Ops) != 1 {
			return probe.Fail("HARNESS: no operation of kind %q", in.Kind)
		}
		progs[g] = p
	}
	want := make([]string, len(progs))
	for g, p := range progs {
		want[g] = c18Run(p, cold.Shared, false)[0]
		if len(want[g]) > 7 && want[g][:7] == "HARNESS" {
			return probe.Fail("%s", want[g])
		}
	}
	old := runtime.GOMAXPROCS(in.Procs)
	defer runtime.GOMAXPROCS(old)
	bad := make([]string, len(progs))
	var wg sync.WaitGroup
	start := make(chan struct{})
	for g := range progs {
		wg.Add(1)
		go func(g int) {
			defer wg.Done()
			<-start
			for r := 0; r < in.Rounds && bad[g] == ""; r++ {
				if got := c18Run(progs[g], cold.Shared, false)[0]; got != want[g] {
					bad[g] = fmt.Sprintf("round %d:\n alone:      %s\n concurrent: %s", r, model.Clip([]byte(want[g])), model.Clip([]byte(got)))
				}
			}
		}(g)
	}
	close(start)
	wg.Wait()
	for g, b := range bad {
		if b != "" {
			return probe.Fail("%d goroutines (GOMAXPROCS %d) each repeating %q with %s arguments: goroutine %d, %s", in.Goroutines, in.Procs, in.Kind,
				map[bool]string{false: "their own", true: "the same"}[in.Same], g, b)
		}
	}
	if sharedBytes != nil && !bytes.Equal(sharedBytes, sharedCopy) {
		return probe.Fail("the datagram shared read-only by the goroutines was modified")
	}
	return probe.OK(true, "hammer:"+in.Kind, fmt.Sprintf("same-arguments:%v", in.Same))
})

func c18HammerAll(c *probe.Ctx, scale int) {
	for i, kind := range c18OpKinds {
		rounds := 250 * scale
		switch kind {
		case "dh", "random", "derive-ike", "derive-child", "protect-unprotect":
			rounds = 25 * scale
		}
		for _, same := range []bool{false, true} {
			c18Hammer.Eval(c, c18HammerIn{Procs: []int{8, 2, 16, 4}[(i+c.Shard)%4], Goroutines: 8, Rounds: rounds, Kind: kind, Same: same})
		}
	}
}

func TestC18(t *testing.T) {
	probe.RotateProcs = false // every burst sets GOMAXPROCS itself
	c := probe.NewCtx(t, "C18")
	c18Concurrent.Eval(c, c18Cold())
	c18ErrorPaths.Eval(c, c18ErrIn{Procs: 8, Goroutines: 8, Inputs: c18Malformed()})
	for i := 0; i < c.N(1, 4); i++ {
		c18DHStorm.Eval(c, c18StormIn{Procs: 4, Goroutines: 96, Seed: model.Bytes{byte(i), byte(c.Shard)}})
	}
	c.Note("race detector enabled: %v; schedules are sampled by the Go runtime, not enumerated", raceEnabled)
	c18Concurrent.Run(c, t, c.N(120, 1000))
	c18HammerAll(c, c.N(1, 4))
	c18NoStragglers.Eval(c, c18LeakIn{Calls: 400})
}

// When a call has returned it is over: the library leaves no goroutines behind that keep running (and could touch shared
// state later). A worker pool of a few long-lived goroutines is its own business; a goroutine per call is not.
type c18LeakIn struct {
	Calls int `json:"calls"`
}

var c18NoStragglers = probe.Define("C18", "no-goroutines-left-behind", func(t *rapid.T) c18LeakIn { panic("enumerated") }, func(in c18LeakIn) probe.Outcome {
	settle := func() int {
		n := runtime.NumGoroutine()
		for i := 0; i < 200; i++ {
			runtime.Gosched()
			time.Sleep(time.Millisecond)
			if m := runtime.NumGoroutine(); m < n {
				n = m
			} else if i > 20 {
				break
			}
		}
		return n
	}
	prog := c18Cold().Progs[0]
	before := settle()
	for i := 0; i < in.Calls; i++ {
		for _, r := range c18Run(prog, c18Cold().Shared, false) {
			if len(r) > 7 && r[:7] == "HARNESS" {
				return probe.Fail("%s", r)
			}
		}
	}
	after := settle()
	if after > before+8 {
		return probe.Fail("%d goroutines are still running after %d x %d library calls have returned (%d before): calls leave goroutines behind", after, in.Calls, len(prog.Ops), before)
	}
	// ... and the calls that REFUSE their input: malformed datagrams, protected messages with a wrong checksum, key derivation
	// and SA set-up with arguments that cannot work, wrong key sizes
	sa, err := bridge.NewSA(prog.Suite, prog.Keys)
	if err != nil {
		return probe.Fail("HARNESS: %v", err)
	}
	w, _, _, err := libProtect(prog.Ops[0].Msg, sa, true, nil)
	if err != nil {
		return probe.Fail("HARNESS: %v", err)
	}
	bad := c18Malformed()
	prop, _ := newInfoSA(prog.Suite).ToProposal()
	refused := 0
	for i := 0; i < in.Calls; i++ {
		probe.Try(func() error {
			if new(message.IKEMessage).Decode(probe.Exact(bad[i%len(bad)])) != nil {
				refused++
			}
			x := append([]byte(nil), w...)
			x[len(x)-1-i%12] ^= 1 << uint(i%8)
			peer, _ := bridge.NewSA(prog.Suite, prog.Keys)
			if _, e := libUnprotect(x, peer, false, i%2 == 0); e != nil {
				refused++
			}
			if _, _, e := security.NewIKESAKey(prop, []byte{2}, nil, 1, 2); e != nil {
				refused++
			}
			if _, _, e := security.NewIKESAKey(prop, nil, []byte("n"), 1, 2); e != nil {
				refused++
			}
			if e := newInfoSA(prog.Suite).GenerateKeyForIKESA(nil, nil, 0, 0); e != nil {
				refused++
			}
			if _, _, _, _, _, e := eap.EapAkaPrimePRF(nil, nil, "x"); e != nil {
				refused++
			}
			if _, e := encr.StrToType(ref.Encrs[i%3].Name).NewCrypto(make([]byte, 5+i%40)); e != nil {
				refused++
			}
			if e := new(eap.EAP).Unmarshal([]byte{1, 2, 0, byte(i)}); e != nil {
				refused++
			}
			return nil
		})
	}
	after2 := settle()
	if after2 > after+8 {
		return probe.Fail("%d goroutines are still running after %d refused calls have returned (%d before): refusing an input leaves a goroutine behind", after2, refused, after)
	}
	return probe.OK(true, "no-goroutines-left-behind", fmt.Sprintf("refused-calls>=%d", refused/1000*1000))
})
