package props

import (
	"bytes"
	"fmt"
	"math/big"
	"testing"

	"github.com/free5gc/ike/message"
	"github.com/free5gc/ike/security"
	"github.com/free5gc/ike/security/dh"
	"github.com/free5gc/ike/security/encr"
	"github.com/free5gc/ike/security/integ"
	"github.com/free5gc/ike/security/prf"
	"pgregory.net/rapid"

	"verif/bridge"
	"verif/gen"
	"verif/model"
	"verif/probe"
	"verif/ref"
)

// C07 — IKE SA keys follow RFC 7296 sections 2.13-2.14 for every negotiable suite.

type c07In struct {
	Suite  bridge.SuiteSel `json:"suite"`
	All    bool            `json:"all_54_combinations"`
	Nonce  model.Bytes     `json:"nonces"`
	Secret model.Bytes     `json:"shared_secret"`
	SPIi   uint64          `json:"spi_i"`
	SPIr   uint64          `json:"spi_r"`
	// Carved: nonces and shared secret are views into one buffer (Ni|Nr|g^ir back to back), as a caller may well hold them
	Carved bool `json:"arguments_share_one_buffer,omitempty"`
}

func newInfoSA(s bridge.SuiteSel) *security.IKESAKey {
	return &security.IKESAKey{
		EncrInfo:  encr.StrToType(ref.Encrs[s.Encr].Name),
		IntegInfo: integ.StrToType(ref.Integs[s.Integ].Name),
		PrfInfo:   prf.StrToType(ref.Prfs[s.Prf].Name),
		DhInfo:    dh.StrToType(ref.DHs[s.DH].Name),
	}
}

// checkSAKeys compares the keys and the ready-to-use objects of sa with the reference derivation.
func checkSAKeys(sa *security.IKESAKey, s bridge.SuiteSel, want ref.IKEKeys) error {
	if sa == nil {
		return fmt.Errorf("no SA was returned although no error was reported")
	}
	// an application logs the SA it has just set up; looking at an SA does not change it
	if err := probe.Try(func() error { _ = sa.String(); _ = fmt.Sprintf("%v %s", sa, sa); return nil }); err != nil {
		return fmt.Errorf("printing the SA: %v", err)
	}
	for _, x := range []struct {
		name      string
		got, want []byte
	}{{"SK_d", sa.SK_d, want.D}, {"SK_ai", sa.SK_ai, want.Ai}, {"SK_ar", sa.SK_ar, want.Ar}, {"SK_ei", sa.SK_ei, want.Ei},
		{"SK_er", sa.SK_er, want.Er}, {"SK_pi", sa.SK_pi, want.Pi}, {"SK_pr", sa.SK_pr, want.Pr}} {
		if !bytes.Equal(x.got, x.want) {
			return fmt.Errorf("%s = %x (%d octets), RFC 7296 2.14 gives %x (%d octets)", x.name, x.got, len(x.got), x.want, len(x.want))
		}
	}
	probeMsg := []byte("probe input for the keyed objects of the SA \x00\x01\x02")
	ih, ph := ref.Integs[s.Integ].Hash, ref.Prfs[s.Prf].Hash
	type hobj struct {
		name string
		h    interface {
			Reset()
			Write([]byte) (int, error)
			Sum([]byte) []byte
		}
		alg ref.HashAlg
		key []byte
	}
	for _, o := range []hobj{{"Integ_i", sa.Integ_i, ih, want.Ai}, {"Integ_r", sa.Integ_r, ih, want.Ar}, {"Prf_d", sa.Prf_d, ph, want.D},
		{"Prf_i", sa.Prf_i, ph, want.Pi}, {"Prf_r", sa.Prf_r, ph, want.Pr}} {
		if o.h == nil || (fmt.Sprintf("%v", o.h) == "<nil>") {
			return fmt.Errorf("%s is nil", o.name)
		}
		// The object as it was handed out (the SA has only been printed since): ready to use - what is written to it first is
		// the start of the MAC input. Sum does not end the computation (hash.Hash): further octets continue it. Reset starts over.
		var first, running, got []byte
		more := []byte("... and more")
		if err := probe.Try(func() error {
			o.h.Write(probeMsg)
			first = o.h.Sum(nil)
			o.h.Write(more)
			running = o.h.Sum(nil)
			o.h.Reset()
			o.h.Write(probeMsg)
			got = o.h.Sum(nil)
			return nil
		}); err != nil {
			return fmt.Errorf("%s: %v", o.name, err)
		}
		if !bytes.Equal(got, ref.HMAC(o.alg, o.key, probeMsg)) {
			return fmt.Errorf("%s is not HMAC keyed with its SK_* key", o.name)
		}
		if !bytes.Equal(first, got) {
			return fmt.Errorf("%s, used as handed out (no Reset first), does not give HMAC(SK, input): the object is not ready to use - something was written to it before (when the SA was derived or printed)", o.name)
		}
		if !bytes.Equal(running, ref.HMAC(o.alg, o.key, append(append([]byte(nil), probeMsg...), more...))) {
			return fmt.Errorf("%s: Write(a), Sum, Write(b), Sum does not give HMAC(SK, a|b) the second time: Sum changes the state of the object", o.name)
		}
	}
	for _, o := range []struct {
		name string
		c    probe.Crypto
		key  []byte
	}{{"Encr_i", sa.Encr_i, want.Ei}, {"Encr_r", sa.Encr_r, want.Er}} {
		if o.c == nil {
			return fmt.Errorf("%s is nil", o.name)
		}
		var ct []byte
		if err := probe.Try(func() error { var e error; ct, e = o.c.Encrypt([]byte("sixteen octets!!plus")); return e }); err != nil {
			return fmt.Errorf("%s.Encrypt: %v", o.name, err)
		}
		pt, err := ref.TransformDecrypt(o.key, ct)
		if err != nil || string(pt) != "sixteen octets!!plus" {
			return fmt.Errorf("%s is not AES-CBC keyed with its SK_e key (reference cannot open its output: %v)", o.name, err)
		}
		iv := bytes.Repeat([]byte{0x3c}, 16)
		rc, _ := ref.CBCEncrypt(o.key, iv, append([]byte("reference text."), 0))
		var back []byte
		if err := probe.Try(func() error { var e error; back, e = o.c.Decrypt(append(append([]byte(nil), iv...), rc...)); return e }); err != nil || string(back) != "reference text." {
			return fmt.Errorf("%s cannot open a reference ciphertext under its SK_e key: %v", o.name, err)
		}
	}
	return nil
}

var c07Derive = probe.Define("C07", "derive", func(t *rapid.T) c07In {
	in := c07In{
		Suite:  genSuite(t),
		All:    rapid.IntRange(0, 19).Draw(t, "all") == 19,
		Nonce:  gen.BytesLen(t, "nonces", 1, 512, 1, 32, 64, 65, 512),
		Secret: c07Secret(t),
		SPIi:   rapid.Uint64().Draw(t, "spii"), SPIr: rapid.Uint64().Draw(t, "spir"),
		Carved: rapid.IntRange(0, 2).Draw(t, "carved") == 2,
	}
	// arguments RELATED to each other: nonces that end in (or begin with) the two SPIs, as the seed of prf+ does; nonces that
	// carry their payload header; nonce equal to the secret; equal SPIs
	spis := make(model.Bytes, 16)
	for i := 0; i < 8; i++ {
		spis[i], spis[8+i] = byte(in.SPIi>>(56-8*uint(i))), byte(in.SPIr>>(56-8*uint(i)))
	}
	switch rapid.IntRange(0, 23).Draw(t, "relation") {
	case 16, 17:
		in.Nonce = append(append(model.Bytes(nil), in.Nonce...), spis...)
	case 18:
		in.Nonce = append(append(model.Bytes(nil), spis...), in.Nonce...)
	case 19:
		in.Nonce = append(append(model.Bytes(nil), in.Nonce...), spis[:8]...)
	case 20:
		n := len(in.Nonce) + 4
		in.Nonce = append(model.Bytes{40, 0, byte(n >> 8), byte(n)}, in.Nonce...)
	case 21:
		in.Nonce = append(model.Bytes(nil), in.Secret...)
	case 22:
		in.SPIr = in.SPIi
	case 12, 13:
		in.SPIi = 0 // one SPI still zero (the responder's in an initial exchange, the initiator's never - a number like any other)
	case 14, 15:
		in.SPIr = 0
	case 23:
		in.Nonce = spis
	}
	if len(in.Nonce) == 0 {
		in.Nonce = model.Bytes{1}
	}
	return in
}, func(in c07In) probe.Outcome {
	suites := []bridge.SuiteSel{in.Suite}
	if in.All {
		suites = nil
		for e := 0; e < 3; e++ {
			for i := 0; i < 3; i++ {
				for p := 0; p < 3; p++ {
					for d := 0; d < 2; d++ {
						suites = append(suites, bridge.SuiteSel{Encr: e, Integ: i, Prf: p, DH: d})
					}
				}
			}
		}
	}
	for _, s := range suites {
		sa := newInfoSA(s)
		nonce, secret := append([]byte(nil), in.Nonce...), append([]byte(nil), in.Secret...)
		unchanged := func() error { return nil }
		if in.Carved {
			var v [][]byte
			v, unchanged = probe.Carve(in.Nonce, in.Secret)
			nonce, secret = v[0], v[1]
		}
		if err := probe.Try(func() error { return sa.GenerateKeyForIKESA(nonce, secret, in.SPIi, in.SPIr) }); err != nil {
			return probe.Fail("GenerateKeyForIKESA (%+v): %v", s, err)
		}
		if err := unchanged(); err != nil {
			return probe.Fail("GenerateKeyForIKESA(Ni|Nr, g^ir held back to back in one buffer): %v", err)
		}
		want := ref.DeriveIKE(ref.Prfs[s.Prf], ref.Integs[s.Integ], ref.Encrs[s.Encr], in.Nonce, in.Secret, in.SPIi, in.SPIr)
		if err := checkSAKeys(sa, s, want); err != nil {
			return probe.Fail("suite %s/%s/%s: %v", ref.Encrs[s.Encr].Name, ref.Integs[s.Integ].Name, ref.Prfs[s.Prf].Name, err)
		}
		// keying the same object again (a retried exchange with fresh nonces): if keys are produced they must be the right ones
		// (an implementation may refuse to re-key an object; silently wrong keys are never acceptable)
		nonce2 := append([]byte{0x42}, in.Nonce...)
		if err := probe.Try(func() error {
			return sa.GenerateKeyForIKESA(append([]byte(nil), nonce2...), append([]byte(nil), in.Secret...), in.SPIr, in.SPIi)
		}); err == nil {
			want2 := ref.DeriveIKE(ref.Prfs[s.Prf], ref.Integs[s.Integ], ref.Encrs[s.Encr], nonce2, in.Secret, in.SPIr, in.SPIi)
			if err := checkSAKeys(sa, s, want2); err != nil {
				return probe.Fail("suite %s/%s/%s, second derivation on the same object: %v", ref.Encrs[s.Encr].Name, ref.Integs[s.Integ].Name, ref.Prfs[s.Prf].Name, err)
			}
		} else if probe.IsPanic(err) {
			return probe.Fail("second derivation on the same object panics: %v", err)
		}
	}
	labels := []string{"prf:" + ref.Prfs[in.Suite.Prf].Name, "integ:" + ref.Integs[in.Suite.Integ].Name, "encr:" + ref.Encrs[in.Suite.Encr].Name}
	if ref.Integs[in.Suite.Integ].KeyLen != ref.Prfs[in.Suite.Prf].KeyLen {
		labels = append(labels, "integ-keylen!=prf-keylen")
	}
	if len(in.Nonce) > 64 {
		labels = append(labels, "nonce>hash-block")
	}
	if len(in.Secret) > 0 && in.Secret[0] == 0 {
		labels = append(labels, "secret-leading-zero")
	}
	if in.All {
		labels = append(labels, "all-54-combinations")
	}
	if in.Carved {
		labels = append(labels, "arguments-share-one-buffer")
	}
	return probe.Outcome{NonTrivial: true, Labels: labels}
})

func c07Secret(t *rapid.T) model.Bytes {
	s := gen.BytesLen(t, "secret", 1, 512, 1, 128, 256, 512)
	if rapid.IntRange(0, 4).Draw(t, "leadingzero") == 4 {
		for i := 0; i < len(s) && i < rapid.IntRange(1, 3).Draw(t, "nzero"); i++ {
			s[i] = 0
		}
	}
	return s
}

type c07PartyIn struct {
	Suite   bridge.SuiteSel `json:"suite"`
	Nonce   model.Bytes     `json:"nonces"`
	SPIi    uint64          `json:"spi_i"`
	SPIr    uint64          `json:"spi_r"`
	EntI    model.Bytes     `json:"entropy_initiator"`
	EntR    model.Bytes     `json:"entropy_responder"`
	Msg     model.Message   `json:"msg"`
	ViaWire bool            `json:"proposal_through_the_wire"`
	// PropSPI: SPI field of the proposal the responder is given (empty in an initial exchange, 8 octets when an IKE SA is
	// re-keyed); the keys depend on the SPI ARGUMENTS only
	PropSPI model.Bytes `json:"proposal_spi,omitempty"`
	// PropNum, PropProto: proposal number and protocol id carried by the proposal
	PropNum uint8 `json:"proposal_number,omitempty"`
}

// two parties as callers do it: initiator picks a, sends g^a; responder builds its SA from the proposal
var c07TwoParty = probe.Define("C07", "two-party", func(t *rapid.T) c07PartyIn {
	return c07PartyIn{Suite: genSuite(t), Nonce: gen.BytesLen(t, "nonces", 1, 128, 32, 64), SPIi: rapid.Uint64().Draw(t, "spii"), SPIr: rapid.Uint64().Draw(t, "spir"),
		EntI: gen.Fill(t, "enti", 40), EntR: gen.Fill(t, "entr", 40), Msg: gen.Message(t, gen.Opts{MaxPayloads: 3, NoBig: true, MaxChain: 1500}), ViaWire: rapid.Bool().Draw(t, "viawire"),
		PropSPI: rapid.SampledFrom([]model.Bytes{nil, nil, {1, 2, 3, 4, 5, 6, 7, 8}, {0, 0, 0, 0, 0, 0, 0, 0}, {0xff, 0xee, 0xdd, 0xcc}, {9, 9, 9, 9, 9, 9, 9, 9, 9, 9, 9, 9, 9, 9, 9, 9}}).Draw(t, "propspi"),
		PropNum: uint8(rapid.SampledFrom([]int{0, 1, 1, 2, 255}).Draw(t, "propnum"))}
}, func(in c07PartyIn) probe.Outcome {
	s := in.Suite
	group := dh.StrToType(ref.DHs[s.DH].Name)
	if group == nil {
		return probe.Fail("dh.StrToType(%s) = nil", ref.DHs[s.DH].Name)
	}
	var a *big.Int
	var A []byte
	var err error
	probe.WithEntropy(in.EntI, 0, func(*probe.Entropy) {
		err = probe.Try(func() error {
			var e error
			if a, e = security.GenerateRandomNumber(); e != nil {
				return e
			}
			A = group.GetPublicValue(a)
			return nil
		})
	})
	if err != nil {
		return probe.Fail("initiator: %v", err)
	}
	// the proposal the responder receives
	tmpl := newInfoSA(s)
	var prop *message.Proposal
	if err := probe.Try(func() error { var e error; prop, e = tmpl.ToProposal(); return e }); err != nil {
		return probe.Fail("ToProposal: %v", err)
	}
	prop.SPI, prop.ProposalNumber = append([]byte(nil), in.PropSPI...), in.PropNum
	if in.ViaWire {
		sap := &message.SecurityAssociation{Proposals: message.ProposalContainer{prop}}
		var back message.SecurityAssociation
		if err := probe.Try(func() error {
			b, e := sap.Marshal()
			if e != nil {
				return e
			}
			return back.Unmarshal(probe.Exact(b))
		}); err != nil || len(back.Proposals) != 1 {
			return probe.Fail("proposal does not survive the wire: %v", err)
		}
		prop = back.Proposals[0]
	}
	var saR *security.IKESAKey
	var B []byte
	probe.WithEntropy(in.EntR, 0, func(*probe.Entropy) {
		err = probe.Try(func() error {
			var e error
			saR, B, e = security.NewIKESAKey(prop, A, append([]byte(nil), in.Nonce...), in.SPIi, in.SPIr)
			return e
		})
	})
	if err != nil {
		return probe.Fail("responder NewIKESAKey: %v", err)
	}
	saI := newInfoSA(s)
	if err := probe.Try(func() error {
		shared := group.GetSharedKey(a, new(big.Int).SetBytes(B))
		return saI.GenerateKeyForIKESA(append([]byte(nil), in.Nonce...), shared, in.SPIi, in.SPIr)
	}); err != nil {
		return probe.Fail("initiator GenerateKeyForIKESA: %v", err)
	}
	P := ref.ModpPrime(ref.DHs[s.DH].Bits)
	shared := ref.LeftPad(ref.ModExp(new(big.Int).SetBytes(B), a, P), ref.DHs[s.DH].Bits/8)
	want := ref.DeriveIKE(ref.Prfs[s.Prf], ref.Integs[s.Integ], ref.Encrs[s.Encr], in.Nonce, shared, in.SPIi, in.SPIr)
	if err := checkSAKeys(saI, s, want); err != nil {
		return probe.Fail("initiator's SA: %v", err)
	}
	if err := checkSAKeys(saR, s, want); err != nil {
		return probe.Fail("responder's SA (from NewIKESAKey): %v", err)
	}
	if saR.EncrInfo == nil || saR.IntegInfo == nil || saR.PrfInfo == nil || saR.DhInfo == nil ||
		saR.EncrInfo.GetKeyLength() != ref.Encrs[s.Encr].KeyLen || saR.IntegInfo.TransformID() != ref.Integs[s.Integ].ID ||
		saR.PrfInfo.TransformID() != ref.Prfs[s.Prf].ID || saR.DhInfo.TransformID() != ref.DHs[s.DH].ID {
		return probe.Fail("responder's SA negotiated different algorithms than proposed")
	}
	// mutually usable: each side opens what the other protects
	for _, fromI := range []bool{true, false} {
		snd, rcv := saI, saR
		if !fromI {
			snd, rcv = saR, saI
		}
		w, _, _, err := libProtect(in.Msg, snd, fromI, nil)
		if err != nil {
			return probe.Fail("protect (from initiator=%v): %v", fromI, err)
		}
		got, err := libUnprotect(w, rcv, !fromI, false)
		if err != nil {
			return probe.Fail("peer cannot open the other side's message (from initiator=%v): %v", fromI, err)
		}
		if d := model.Diff(in.Msg, got); d != "" {
			return probe.Fail("peer recovers a different message: %s", d)
		}
	}
	l := []string{"dh:" + ref.DHs[s.DH].Name}
	if in.ViaWire {
		l = append(l, "proposal-via-wire")
	}
	return probe.Outcome{NonTrivial: true, Labels: l}
})

type c07DegIn struct {
	Suite bridge.SuiteSel `json:"suite"`
	Peer  string          `json:"peer_value"` // "1" or "p-1"
	Nonce model.Bytes     `json:"nonces"`
}

// NewIKESAKey with a peer value whose shared secret is known whatever exponent the library draws (1^b = 1; (p-1)^b in {1, p-1}):
// g^ir has leading zero octets, which must be preserved when it is fed to the prf
var c07Degenerate = probe.Define("C07", "degenerate-peer-value", func(t *rapid.T) c07DegIn { panic("enumerated") }, func(in c07DegIn) probe.Outcome {
	s := in.Suite
	n := ref.DHs[s.DH].Bits / 8
	P := ref.ModpPrime(ref.DHs[s.DH].Bits)
	peer := big.NewInt(1)
	if in.Peer == "p-1" {
		peer = new(big.Int).Sub(P, big.NewInt(1))
	}
	prop, err := newInfoSA(s).ToProposal()
	if err != nil {
		return probe.Fail("ToProposal: %v", err)
	}
	var sa *security.IKESAKey
	if err := probe.Try(func() error {
		var e error
		sa, _, e = security.NewIKESAKey(prop, ref.LeftPad(peer, n), append([]byte(nil), in.Nonce...), 7, 9)
		return e
	}); err != nil {
		return probe.Fail("NewIKESAKey: %v", err)
	}
	var errs []string
	for _, secret := range []*big.Int{big.NewInt(1), peer} {
		want := ref.DeriveIKE(ref.Prfs[s.Prf], ref.Integs[s.Integ], ref.Encrs[s.Encr], in.Nonce, ref.LeftPad(secret, n), 7, 9)
		err := checkSAKeys(sa, s, want)
		if err == nil {
			return probe.OK(true, "peer:"+in.Peer, "dh:"+ref.DHs[s.DH].Name)
		}
		errs = append(errs, err.Error())
	}
	return probe.Fail("responder's keys for peer value %s do not follow from the fixed-length shared secret (leading zeros preserved): %s", in.Peer, errs[0])
})

func TestC07(t *testing.T) {
	c := probe.NewCtx(t, "C07")
	idleStart(c, "ike-sa")
	if c.Shard == 0 {
		for d := 0; d < 2; d++ {
			for p := 0; p < 3; p++ {
				for _, peer := range []string{"1", "p-1"} {
					c07Degenerate.Eval(c, c07DegIn{Suite: bridge.SuiteSel{Encr: p, Integ: (p + 1) % 3, Prf: p, DH: d}, Peer: peer, Nonce: model.Bytes("0123456789abcdef0123456789abcdef")})
				}
			}
		}
	}
	c07Derive.Run(c, t, c.N(2000, 20000))
	c07TwoParty.Run(c, t, c.N(60, 600))
	idleFinish(c, "C07", "ike-sa")
}
