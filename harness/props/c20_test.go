package props

import (
	"bytes"
	"fmt"
	"reflect"
	"sort"
	"testing"
	"unsafe"

	ike "github.com/free5gc/ike"
	"github.com/free5gc/ike/message"
	"github.com/free5gc/ike/security"
	"pgregory.net/rapid"

	"verif/bridge"
	"verif/gen"
	"verif/model"
	"verif/probe"
	"verif/ref"
)

// C20 — decoded messages own their data; encoding is pure and deterministic.

type memRange struct {
	lo, hi uintptr
	path   string
}

// reachableSlices walks every value reachable from v (exported or not) and records the memory
// extent [ptr, ptr+cap*elemsize) of every slice found.
func reachableSlices(v reflect.Value, path string, seen map[uintptr]bool, out *[]memRange) {
	switch v.Kind() {
	case reflect.Ptr:
		if v.IsNil() {
			return
		}
		p := v.Pointer()
		if seen[p] {
			return
		}
		seen[p] = true
		reachableSlices(v.Elem(), path, seen, out)
	case reflect.Interface:
		if v.IsNil() {
			return
		}
		reachableSlices(v.Elem(), path, seen, out)
	case reflect.Struct:
		for i := 0; i < v.NumField(); i++ {
			reachableSlices(v.Field(i), path+"."+v.Type().Field(i).Name, seen, out)
		}
	case reflect.Slice:
		if v.IsNil() || v.Cap() == 0 {
			return
		}
		es := v.Type().Elem().Size()
		*out = append(*out, memRange{v.Pointer(), v.Pointer() + uintptr(v.Cap())*es, path})
		switch v.Type().Elem().Kind() {
		case reflect.Ptr, reflect.Interface, reflect.Struct, reflect.Slice, reflect.Map:
			for i := 0; i < v.Len(); i++ {
				reachableSlices(v.Index(i), fmt.Sprintf("%s[%d]", path, i), seen, out)
			}
		}
	case reflect.Map:
		if v.IsNil() {
			return
		}
		it := v.MapRange()
		for it.Next() {
			reachableSlices(it.Value(), path+"[k]", seen, out)
		}
	}
}

func overlapsBuffer(payloads any, buf []byte) string {
	if cap(buf) == 0 {
		return ""
	}
	full := buf[:cap(buf)]
	lo := uintptr(unsafe.Pointer(&full[0]))
	hi := lo + uintptr(cap(buf))
	var rs []memRange
	reachableSlices(reflect.ValueOf(payloads), "Payloads", map[uintptr]bool{}, &rs)
	for _, r := range rs {
		if r.lo < hi && lo < r.hi {
			return r.path
		}
	}
	return ""
}

func scribble(b []byte, pass int) {
	full := b[:cap(b)]
	for i := range full {
		if pass == 0 {
			full[i] = ^full[i]
		} else {
			full[i] = byte(i*131 + 7*pass)
		}
	}
}

type c20DecIn struct {
	W       model.Bytes     `json:"w"`
	Origin  string          `json:"origin"`
	Protect bool            `json:"protected"` // W is a protected message; unprotect with Suite/Keys
	Suite   bridge.SuiteSel `json:"suite"`
	Keys    *bridge.KeySet  `json:"keys,omitempty"`
	RecvI   bool            `json:"recv_initiator"`
	WithHdr bool            `json:"with_header"`
	// Path for unprotected input: "" = (*IKEMessage).Decode, "dd" = ike.DecodeDecrypt without keys (header mode as WithHdr),
	// "dd-key" = ike.DecodeDecrypt with keys (the datagram simply is not protected)
	Path string `json:"path,omitempty"`
}

func c20DecodeOracle(in c20DecIn) probe.Outcome {
	labels := []string{"origin:" + originClass(in.Origin)}
	x := probe.Spare(in.W, 0x3c)
	var m *message.IKEMessage
	err := probe.Try(func() error {
		if !in.Protect && in.Path == "" {
			m = new(message.IKEMessage)
			return m.Decode(x)
		}
		var sa *security.IKESAKey
		if in.Protect || in.Path == "dd-key" {
			var err error
			if sa, err = bridge.NewSA(in.Suite, *in.Keys); err != nil {
				return fmt.Errorf("HARNESS: %w", err)
			}
		}
		var err error
		var hdr *message.IKEHeader
		if in.WithHdr {
			// the header is parsed where the datagram arrived; in every other case that is another buffer than the one handed to
			// DecodeDecrypt (a copy was queued) and it holds the next datagram by then
			src := x
			if len(in.W)%2 == 1 {
				src = append([]byte(nil), x...)
			}
			if hdr, err = message.ParseHeader(src); err != nil {
				return err
			}
			if len(in.W)%2 == 1 {
				scribble(src, 1)
			}
		}
		m, err = ike.DecodeDecrypt(x, hdr, sa, bridge.Role(in.RecvI))
		return err
	})
	if err != nil {
		if in.Protect {
			return probe.Fail("genuine protected message rejected: %v", err)
		}
		if in.WithHdr && in.Path != "" && !probe.IsPanic(err) {
			// refused with a pre-parsed header: then it is refused without one as well (the datagram is the same)
			var sa2 *security.IKESAKey
			if in.Path == "dd-key" {
				sa2, _ = bridge.NewSA(in.Suite, *in.Keys)
			}
			if e2 := probe.Try(func() error {
				_, e := ike.DecodeDecrypt(probe.Exact(in.W), nil, sa2, bridge.Role(in.RecvI))
				return e
			}); e2 == nil {
				return probe.Fail("a datagram is refused when its header was parsed beforehand (in another buffer, since reused) and accepted when it was not: %v", err)
			}
		}
		return probe.OK(false, append(labels, "rejected")...)
	}
	before, err := bridge.FromLib(m)
	if err != nil {
		return probe.Fail("HARNESS: %v", err)
	}
	if p := overlapsBuffer(m.Payloads, x); p != "" {
		return probe.Fail("decoded field %s shares memory with the input buffer", p)
	}
	// ... and its fields own their memory one by one: no two slices of the decoded message overlap, spare capacity included
	// (two lists cut as windows out of one array: appending to the first - BuildTransform on a decoded proposal - overwrites
	// the second)
	{
		var rs []memRange
		reachableSlices(reflect.ValueOf(m.Payloads), "Payloads", map[uintptr]bool{}, &rs)
		sort.Slice(rs, func(i, j int) bool { return rs[i].lo < rs[j].lo || rs[i].lo == rs[j].lo && rs[i].hi < rs[j].hi })
		for i := 0; i+1 < len(rs); i++ {
			if rs[i].hi > rs[i+1].lo && rs[i].path != rs[i+1].path {
				return probe.Fail("decoded fields %s and %s lie in the same memory (capacity included): writing or appending to one changes the other", rs[i].path, rs[i+1].path)
			}
		}
	}
	if len(in.W)%4 == 2 || len(in.W) < 64 {
		if err := probe.Try(func() error { probe.PrintAll(m); return nil }); err != nil { // the receiver logs what it decoded
			return probe.Fail("printing the decoded message: %v", err)
		}
		if printed, perr := bridge.FromLib(m); perr != nil || model.Diff(before, printed) != "" {
			return probe.Fail("printing the decoded message and its parts (%%v) changed it: %s (%v)", model.Diff(before, printed), perr)
		}
	}
	hdrBefore := *m.IKEHeader
	// what the decoded message encodes to while the receive buffer still holds the datagram ...
	var encBefore []byte
	encErr := probe.Try(func() error {
		if in.Protect {
			return fmt.Errorf("not compared")
		}
		var e error
		encBefore, e = m.Encode()
		return e
	})
	if probe.IsPanic(encErr) {
		encErr = fmt.Errorf("not compared")
	}
	encBefore = append([]byte(nil), encBefore...)
	hdrBefore = *m.IKEHeader
	for pass := 0; pass < 2; pass++ {
		scribble(x, pass)
		// ... is what it encodes to when the buffer has been reused (the message owns what it consists of)
		if encErr == nil {
			var y []byte
			if err := probe.Try(func() error { var e error; y, e = m.Encode(); return e }); err != nil || !bytes.Equal(y, encBefore) {
				return probe.Fail("the decoded, unmodified message encodes differently after the receive buffer was overwritten (%v):\n before %s\n after  %s", err, model.Clip(encBefore), model.Clip(y))
			}
		}
		after, err := bridge.FromLib(m)
		if err != nil {
			return probe.Fail("HARNESS: %v", err)
		}
		if d := model.Diff(before, after); d != "" {
			return probe.Fail("decoded message changed when the receive buffer was overwritten: %s", d)
		}
		h := *m.IKEHeader
		h.PayloadBytes, hdrBefore.PayloadBytes = nil, nil // documented exception: PayloadBytes may alias the input
		if !reflect.DeepEqual(h, hdrBefore) {
			return probe.Fail("decoded header changed when the receive buffer was overwritten")
		}
	}
	// a decoded message, too, encodes deterministically (Go randomises map iteration: several rounds)
	if !in.Protect {
		var first []byte
		for i := 0; i < 6; i++ {
			var y []byte
			if err := probe.Try(func() error { var e error; y, e = m.Encode(); return e }); err != nil {
				if probe.IsPanic(err) && i > 0 {
					return probe.Fail("Encode of a decoded message panics on repetition %d only: %v", i+1, err)
				}
				break // not encodable: nothing to compare
			}
			if i == 0 {
				first = y
			} else if !bytes.Equal(first, y) {
				return probe.Fail("repeated encodings of the same decoded, unmodified message differ (repetition %d)\n first %x\n now   %x", i+1, first, y)
			}
		}
	}
	// The receiver turns the decoded message into its answer (another payload in front, the header edited) and encodes it:
	// the octets go into a buffer of their own - the receive buffer, which may hold the next datagram by now, is not written to.
	if !in.Protect {
		snap := append([]byte(nil), x[:cap(x)]...)
		var ans []byte
		aerr := probe.Try(func() error {
			var fresh message.IKEPayloadContainer
			fresh.BuildNonce([]byte{0xa5, 0x5a, 0xa5, 0x5a, 0xa5, 0x5a, 0xa5, 0x5a, 0xa5})
			m.Payloads = append(fresh, m.Payloads...)
			m.Flags ^= 0x20
			m.MessageID++
			var e error
			ans, e = m.Encode()
			return e
		})
		if probe.IsPanic(aerr) {
			return probe.Fail("encoding the decoded message after the receiver edited it: %v", aerr)
		}
		if !bytes.Equal(snap, x[:cap(x)]) {
			return probe.Fail("encoding the decoded, edited message wrote to the receive buffer the message was decoded from")
		}
		if aerr == nil && overlapsBuffer(ans, x) != "" {
			return probe.Fail("the encoding of the decoded, edited message lies inside the receive buffer")
		}
	}
	variable := false
	for _, p := range before.Payloads {
		if model.BodySize(p) > 0 {
			variable = true
		}
	}
	if in.Protect {
		labels = append(labels, "unprotect")
	}
	if in.Path != "" {
		labels = append(labels, fmt.Sprintf("path:DecodeDecrypt(%s,hdr=%v)", in.Path, in.WithHdr))
	}
	return probe.Outcome{NonTrivial: variable, Labels: append(labels, before.Labels()...)}
}

var c20Decode = probe.Define("C20", "decode-owns-data", func(t *rapid.T) c20DecIn {
	im := genImage(t)
	in := c20DecIn{W: im.W, Origin: im.Origin}
	in.Path = rapid.SampledFrom([]string{"", "", "dd", "dd-key"}).Draw(t, "path")
	if in.Path != "" {
		in.WithHdr, in.RecvI = rapid.Bool().Draw(t, "withhdr"), rapid.Bool().Draw(t, "recvI")
		if len(im.W) < 28 {
			in.WithHdr = false
		}
	}
	if in.Path == "dd-key" {
		in.Suite, in.Keys = c04RandomKeys(t)
	}
	return in
}, c20DecodeOracle)

var c20Unprotect = probe.Define("C20", "unprotect-owns-data", func(t *rapid.T) c20DecIn {
	s, k := c04RandomKeys(t)
	in := c20DecIn{Protect: true, Suite: s, Keys: k, RecvI: rapid.Bool().Draw(t, "recvI"), WithHdr: rapid.Bool().Draw(t, "withhdr"), Origin: "protected"}
	m := gen.Message(t, gen.Opts{MaxPayloads: 5, NoBig: true})
	first, inner, err := ref.EncodeChain(m.Payloads, nil)
	if err != nil {
		panic(err)
	}
	pl := 15 - len(inner)%16
	hdr := ref.Header28(m.Header.ISPI, m.Header.RSPI, m.Header.Major, m.Header.Minor, m.Header.Exchange, m.Header.Flags, m.Header.MsgID)
	w, err := ref.Protect(s.Ref(), k.Dir(!in.RecvI), hdr, first, inner, gen.Fill(t, "iv", 16), pl, gen.Fill(t, "pad", pl), 0)
	if err != nil {
		panic(err)
	}
	in.W = w
	return in
}, c20DecodeOracle)

type c20EncIn struct {
	Msg     model.Message   `json:"msg"`
	Protect bool            `json:"protect"`
	Suite   bridge.SuiteSel `json:"suite"`
	Keys    *bridge.KeySet  `json:"keys,omitempty"`
	SendI   bool            `json:"send_initiator"`
}

var c20Encode = probe.Define("C20", "encode-pure", func(t *rapid.T) c20EncIn {
	return c20EncIn{Msg: gen.Message(t, gen.Opts{MaxPayloads: 8})}
}, func(in c20EncIn) probe.Outcome {
	lm, err := bridge.ToLib(in.Msg)
	if err != nil {
		return probe.Fail("building the library message: %v", err)
	}
	var ys [3][]byte
	for i := range ys {
		if err := probe.Try(func() error { var e error; ys[i], e = lm.Encode(); return e }); err != nil {
			return probe.Fail("Encode #%d: %v", i+1, err)
		}
		if i == 0 {
			// the message and its parts are logged between two encodings
			if err := probe.Try(func() error { probe.PrintAll(lm); return nil }); err != nil {
				return probe.Fail("printing the message: %v", err)
			}
		}
		after, err := bridge.FromLib(lm)
		if err != nil {
			return probe.Fail("HARNESS: %v", err)
		}
		if d := model.Diff(in.Msg, after); d != "" {
			return probe.Fail("Encode altered the message: %s", d)
		}
		if i > 0 && !bytes.Equal(ys[i], ys[0]) {
			return probe.Fail("encoding #%d of the unmodified message differs from the first", i+1)
		}
	}
	y0 := append([]byte(nil), ys[0]...)
	// a DIFFERENT message is encoded in between: what Encode returned earlier is the caller's and stays what it was
	{
		other := in.Msg
		other.Header.MsgID ^= 0x5a5a
		other.Payloads = append([]model.Payload{{Kind: model.KNonce, Data: model.Bytes{0xf0, 0x0d}}}, in.Msg.Payloads...)
		if _, _, err := libEncode(other); err == nil {
			for i := range ys {
				if !bytes.Equal(ys[i], y0) {
					return probe.Fail("the buffer Encode returned for one message changed when another message was encoded (encoding #%d)", i+1)
				}
			}
		}
	}
	// the returned buffer must not be referenced by the message's payloads
	if p := overlapsBuffer(lm.Payloads, ys[0]); p != "" {
		return probe.Fail("payload field %s shares memory with the buffer returned by Encode", p)
	}
	// the header object can marshal itself (header octets followed by the payload octets it holds from the last encoding):
	// whatever that gives, it stays the same when the caller reuses the buffers Encode returned
	var h0 []byte
	herr := probe.Try(func() error { var e error; h0, e = lm.IKEHeader.Marshal(); return e })
	if probe.IsPanic(herr) {
		return probe.Fail("IKEHeader.Marshal() after Encode: %v", herr)
	}
	h0copy := append([]byte(nil), h0...)
	for pass := 0; pass < 2; pass++ {
		scribble(ys[0], pass)
		scribble(ys[1], pass)
		scribble(ys[2], pass)
		scribble(h0, pass)
		var h1 []byte
		if err := probe.Try(func() error { var e error; h1, e = lm.IKEHeader.Marshal(); return e }); (err == nil) != (herr == nil) || !bytes.Equal(h1, h0copy) {
			return probe.Fail("overwriting the buffers returned by Encode changed what the message's header marshals: the message references a returned buffer (%v)", err)
		}
		after, err := bridge.FromLib(lm)
		if err != nil {
			return probe.Fail("HARNESS: %v", err)
		}
		if d := model.Diff(in.Msg, after); d != "" {
			return probe.Fail("overwriting the encoded buffer altered the message: %s", d)
		}
		var y []byte
		if err := probe.Try(func() error { var e error; y, e = lm.Encode(); return e }); err != nil {
			return probe.Fail("Encode after overwriting the previous result: %v", err)
		}
		if !bytes.Equal(y, y0) {
			return probe.Fail("Encode after overwriting the previously returned buffer gives different octets")
		}
	}
	// encoding is a function of the message as it is NOW: after the message is changed, the next encoding is that of the
	// changed message (nothing cached from the earlier encodings)
	changed := in.Msg
	changed.Header.MsgID++
	changed.Payloads = append(append([]model.Payload(nil), in.Msg.Payloads...), model.Payload{Kind: model.KNonce, Data: model.Bytes{0xC2, 0x00}})
	lm.IKEHeader.MessageID++
	lm.Payloads.BuildNonce([]byte{0xC2, 0x00})
	var yc []byte
	if err := probe.Try(func() error { var e error; yc, e = lm.Encode(); return e }); err == nil {
		want, _, werr := libEncode(changed)
		if werr == nil && !bytes.Equal(yc, want) {
			return probe.Fail("after the message was changed (message id, one more payload) its encoding differs from the encoding of an identical freshly built message")
		}
	}
	return probe.Outcome{NonTrivial: model.ChainSize(in.Msg.Payloads) > 4*len(in.Msg.Payloads), Labels: in.Msg.Labels()}
})

var c20Protect = probe.Define("C20", "protect-touches-only-the-list", func(t *rapid.T) c20EncIn {
	s, k := c04RandomKeys(t)
	return c20EncIn{Msg: gen.Message(t, gen.Opts{MaxPayloads: 6, MaxChain: 60000}), Protect: true, Suite: s, Keys: k, SendI: rapid.Bool().Draw(t, "sendI")}
}, func(in c20EncIn) probe.Outcome {
	lm, err := bridge.ToLib(in.Msg)
	if err != nil {
		return probe.Fail("building the library message: %v", err)
	}
	sa, err := bridge.NewSA(in.Suite, *in.Keys)
	if err != nil {
		return probe.Fail("HARNESS: %v", err)
	}
	held := append(message.IKEPayloadContainer(nil), lm.Payloads...) // the payload objects the caller still holds
	callers := lm.Payloads                                           // the caller's own container variable (same backing array as the message's)
	var w []byte
	if err := probe.Try(func() error { var e error; w, e = ike.EncodeEncrypt(lm, sa, bridge.Role(in.SendI)); return e }); err != nil {
		return probe.Fail("EncodeEncrypt: %v", err)
	}
	heldModel, err := bridge.FromLibPayloads(held)
	if err != nil {
		return probe.Fail("HARNESS: %v", err)
	}
	if d := model.DiffPayloads(in.Msg.Payloads, heldModel); d != "" {
		return probe.Fail("EncodeEncrypt altered a payload the caller holds: %s", d)
	}
	for i := range held {
		if callers[i] != held[i] {
			return probe.Fail("EncodeEncrypt overwrote element %d of the payload container the caller still holds (the container passed to the message)", i)
		}
	}
	if h := bridge.FromLibHeader(lm.IKEHeader); h != in.Msg.Header {
		return probe.Fail("EncodeEncrypt altered header fields: %+v != %+v", h, in.Msg.Header)
	}
	if len(lm.Payloads) != 1 || lm.Payloads[0].Type() != message.TypeSK {
		return probe.Fail("after EncodeEncrypt the message's payload list is not exactly one Encrypted payload (%d payloads)", len(lm.Payloads))
	}
	if !bytes.Equal(sa.SK_ei, in.Keys.Ei) || !bytes.Equal(sa.SK_er, in.Keys.Er) || !bytes.Equal(sa.SK_ai, in.Keys.Ai) || !bytes.Equal(sa.SK_ar, in.Keys.Ar) {
		return probe.Fail("EncodeEncrypt altered the SA's key bytes")
	}
	// scribbling over the returned datagram must not disturb the message object
	sk := append([]byte(nil), lm.Payloads[0].(*message.Encrypted).EncryptedData...)
	scribble(w, 0)
	if !bytes.Equal(sk, lm.Payloads[0].(*message.Encrypted).EncryptedData) {
		return probe.Fail("the Encrypted payload shares memory with the returned datagram")
	}
	return probe.Outcome{NonTrivial: len(in.Msg.Payloads) > 0, Labels: append(in.Msg.Labels(), "suite:"+in.Suite.String())}
})

func TestC20(t *testing.T) {
	c := probe.NewCtx(t, "C20")
	idleStart(c, "decoded-message")
	runIDSweep(c, func(m model.Message) bool {
		w, err := ref.EncodeMessage(m, nil)
		if err != nil {
			return true
		}
		return c20Decode.Eval(c, c20DecIn{W: w, Origin: "id-sweep"})
	})
	c20Decode.Run(c, t, c.N(4000, 40000))
	c20Unprotect.Run(c, t, c.N(1500, 15000))
	c20Encode.Run(c, t, c.N(2500, 25000))
	c20Protect.Run(c, t, c.N(1500, 15000))
	idleFinish(c, "C20", "decoded-message")
}
