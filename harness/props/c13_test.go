package props

import (
	"fmt"
	"testing"

	"github.com/free5gc/ike/message"
	"github.com/free5gc/ike/security"
	"pgregory.net/rapid"

	"verif/bridge"
	"verif/gen"
	"verif/model"
	"verif/probe"
	"verif/ref"
)

// C13 — unsupported payloads: skipped when not critical, message rejected when critical.

type c13Insert struct {
	Pos int       `json:"pos"` // index in the host payload list before which the payload is inserted
	Raw model.Raw `json:"raw"`
}

type c13In struct {
	Host     model.Message `json:"host"`
	Inserts  []c13Insert   `json:"inserts"`
	Lib      model.Bytes   `json:"liberties"`
	Critical bool          `json:"critical_on_supported"`
	Via      string        `json:"via"` // "message" or "container"
}

func unsupportedType(t *rapid.T) uint8 {
	if rapid.Bool().Draw(t, "lowtype") {
		return uint8(rapid.IntRange(1, 32).Draw(t, "rawtype"))
	}
	return uint8(rapid.IntRange(49, 255).Draw(t, "rawtype"))
}

func c13Combined(in c13In) []model.Payload {
	var out []model.Payload
	for i := 0; i <= len(in.Host.Payloads); i++ {
		for _, ins := range in.Inserts {
			if ins.Pos == i {
				r := ins.Raw
				out = append(out, model.Payload{Kind: model.KRaw, Raw: &r})
			}
		}
		if i < len(in.Host.Payloads) {
			out = append(out, in.Host.Payloads[i])
		}
	}
	return out
}

func c13Oracle(in c13In) probe.Outcome {
	comb := model.Message{Header: in.Host.Header, Payloads: c13Combined(in)}
	// a packet dump names the payload types it sees (String() of the type code); naming a type does not make it a known one
	for _, ins := range in.Inserts {
		if ins.Raw.Type%2 == 1 {
			_ = probe.Try(func() error {
				_ = message.IkePayloadType(ins.Raw.Type).String()
				_ = fmt.Sprintf("%v", message.IkePayloadType(ins.Raw.Type))
				return nil
			})
		}
	}
	anyCritical, notAtEnd := false, false
	for _, ins := range in.Inserts {
		if ins.Raw.Critical {
			anyCritical = true
		}
		if ins.Pos < len(in.Host.Payloads) {
			notAtEnd = true
		}
	}
	e := &ref.Enc{Lib: in.Lib, CriticalOnSupported: in.Critical, NoCPRBit: gen.Exclude["cp-rbit"]}
	var got []model.Payload
	var hdr *model.Header
	var derr error
	if in.Via == "outer-sk" {
		// the host message travels protected; the unsupported payloads sit in the OUTER chain in front of the SK payload
		first, body, err := ref.EncodeChain(in.Host.Payloads, nil)
		if err != nil {
			return probe.Fail("HARNESS: reference encoder: %v", err)
		}
		if len(body) > 60000 {
			return probe.OK(false, "too-big-for-sk")
		}
		var front []ref.RawPayload
		for _, ins := range in.Inserts {
			fl := byte(0)
			if ins.Raw.Critical {
				fl = 0x80
			}
			front = append(front, ref.RawPayload{Type: ins.Raw.Type, Flags: fl, Body: ins.Raw.Body})
		}
		suite := bridge.SuiteSel{Encr: 2, Integ: 2}
		keys := fuzzKeysFor(suite)
		h := in.Host.Header
		pl := 15 - len(body)%16
		w, err := ref.ProtectOuter(suite.Ref(), keys.Dir(false), ref.Header28(h.ISPI, h.RSPI, h.Major, h.Minor, h.Exchange, h.Flags, h.MsgID), front, first, body, make([]byte, 16), pl, make([]byte, pl))
		if err != nil {
			return probe.Fail("HARNESS: reference SK builder: %v", err)
		}
		sa, err := bridge.NewSA(suite, *keys)
		if err != nil {
			return probe.Fail("HARNESS: %v", err)
		}
		var gm model.Message
		gm, derr = libUnprotect(w, sa, true, len(in.Lib)%2 == 1)
		got, hdr = gm.Payloads, &gm.Header
	} else if in.Via == "sk" {
		// the chain travels inside an Encrypted payload built by the reference (fixed keys, AES-128 + SHA1-96)
		first, body, err := ref.EncodeChain(comb.Payloads, e)
		if err != nil {
			return probe.Fail("HARNESS: reference encoder: %v", err)
		}
		if len(body) > 65000 {
			return probe.OK(false, "too-big-for-sk")
		}
		suite := bridge.SuiteSel{Encr: 0, Integ: 1}
		keys := fuzzKeysFor(suite)
		h := in.Host.Header
		pl := 15 - len(body)%16
		w, err := ref.Protect(suite.Ref(), keys.Dir(true), ref.Header28(h.ISPI, h.RSPI, h.Major, h.Minor, h.Exchange, h.Flags, h.MsgID), first, body, make([]byte, 16), pl, make([]byte, pl), 0)
		if err != nil {
			return probe.Fail("HARNESS: reference SK builder: %v", err)
		}
		sa, err := bridge.NewSA(suite, *keys)
		if err != nil {
			return probe.Fail("HARNESS: %v", err)
		}
		var gm model.Message
		gm, derr = libUnprotect(w, sa, false, false)
		got, hdr = gm.Payloads, &gm.Header
	} else if in.Via == "dd-nokey" || in.Via == "dd-key" {
		// the unprotected datagram goes through the entry point a receiver actually calls (DecodeDecrypt), without keys or
		// with the keys of an SA it does not need: C01 - "with no SA keys supplied the same entry points behave as plain ... decode"
		w, err := ref.EncodeMessage(comb, e)
		if err != nil {
			return probe.Fail("HARNESS: reference encoder: %v", err)
		}
		var sa *security.IKESAKey
		if in.Via == "dd-key" {
			suite := bridge.SuiteSel{Encr: 1, Integ: 0}
			if sa, err = bridge.NewSA(suite, *fuzzKeysFor(suite)); err != nil {
				return probe.Fail("HARNESS: %v", err)
			}
		}
		var gm model.Message
		gm, derr = libUnprotect(w, sa, len(in.Lib)%2 == 0, len(in.Inserts)%2 == 1)
		got, hdr = gm.Payloads, &gm.Header
	} else if in.Via == "container" {
		first, body, err := ref.EncodeChain(comb.Payloads, e)
		if err != nil {
			return probe.Fail("HARNESS: reference encoder: %v", err)
		}
		var c message.IKEPayloadContainer
		derr = probe.Try(func() error { return c.Decode(first, probe.Exact(body)) })
		if derr == nil {
			derr = probe.Try(func() error { var e error; got, e = bridge.FromLibPayloads(c); return e })
		}
	} else {
		w, err := ref.EncodeMessage(comb, e)
		if err != nil {
			return probe.Fail("HARNESS: reference encoder: %v", err)
		}
		var gm model.Message
		gm, _, derr = libDecode(w)
		got, hdr = gm.Payloads, &gm.Header
	}
	if probe.IsPanic(derr) {
		return probe.Fail("decoder panicked: %v", derr)
	}
	labels := []string{"via:" + in.Via, fmt.Sprintf("inserts:%d", len(in.Inserts))}
	if anyCritical {
		labels = append(labels, "critical")
		if derr == nil {
			return probe.Fail("message with a critical unsupported payload was accepted")
		}
		return probe.Outcome{NonTrivial: true, Labels: labels}
	}
	if derr != nil {
		// RFC 7296 3.14 wants the Encrypted payload to be the last one; the encodable domain of the property has no SK payload,
		// so a decoder that REFUSES a chain continuing behind an SK payload is not held against it - silently dropping or
		// accepting what follows is.
		skAt := -1
		for i, p := range in.Host.Payloads {
			if p.Raw != nil && p.Raw.Type == 46 && skAt < 0 {
				skAt = i
			}
		}
		if skAt >= 0 && skAt < len(in.Host.Payloads)-1 {
			return probe.OK(false, "refused:chain-continues-behind-sk")
		}
		for _, ins := range in.Inserts {
			if skAt >= 0 && ins.Pos > skAt {
				return probe.OK(false, "refused:chain-continues-behind-sk")
			}
		}
		return probe.Fail("message with only non-critical unsupported payloads rejected: %v", derr)
	}
	if hdr != nil && *hdr != in.Host.Header {
		return probe.Fail("header differs: %+v != %+v", *hdr, in.Host.Header)
	}
	for i := range got {
		// an Encrypted payload in a plainly decoded chain is opaque; its next-payload octet is chain plumbing, not content
		if got[i].Raw != nil && got[i].Raw.Type == 46 {
			got[i].Data = nil
		}
	}
	for _, p := range in.Host.Payloads {
		if p.Raw != nil && p.Raw.Type == 46 {
			labels = append(labels, "host-has-sk")
			break
		}
	}
	if d := model.DiffPayloads(in.Host.Payloads, got); d != "" {
		return probe.Fail("decodes differently from the same message without the unsupported payloads: %s", d)
	}
	if notAtEnd {
		labels = append(labels, "followed-through")
	}
	return probe.Outcome{NonTrivial: notAtEnd || len(in.Inserts) > 0 && len(in.Host.Payloads) == 0, Labels: labels}
}

var c13Random = probe.Define("C13", "insert",
	func(t *rapid.T) c13In {
		in := c13In{Host: gen.Message(t, gen.Opts{MaxPayloads: 6, NoBig: true})}
		n := rapid.IntRange(1, 4).Draw(t, "ninserts")
		adjacent := rapid.IntRange(0, 3).Draw(t, "adjacent") == 3
		sameType := rapid.IntRange(0, 2).Draw(t, "sametype") == 2 // the same unsupported type code several times in one chain
		firstType := unsupportedType(t)
		pos0 := rapid.IntRange(0, len(in.Host.Payloads)).Draw(t, "pos")
		for i := 0; i < n; i++ {
			pos := pos0
			if !adjacent && i > 0 {
				pos = rapid.IntRange(0, len(in.Host.Payloads)).Draw(t, "pos")
			}
			ty := unsupportedType(t)
			if sameType {
				ty = firstType
			}
			in.Inserts = append(in.Inserts, c13Insert{Pos: pos, Raw: model.Raw{
				Type:     ty,
				Critical: rapid.IntRange(0, 4).Draw(t, "critical") == 4,
				Body:     gen.BytesLen(t, "rawbody", 0, 1024, 0, 1, 4, 1024),
			}})
		}
		if rapid.Bool().Draw(t, "withlib") {
			in.Lib = rapid.SliceOfN(rapid.Byte(), 1, 40).Draw(t, "lib")
		}
		in.Critical = rapid.Bool().Draw(t, "critsupported")
		in.Via = rapid.SampledFrom([]string{"message", "message", "container", "sk", "outer-sk", "dd-nokey", "dd-key"}).Draw(t, "via")
		if (in.Via == "message" || in.Via == "container") && rapid.IntRange(0, 4).Draw(t, "host-sk") == 4 {
			// the plainly decoded chain also carries an (opaque) Encrypted payload somewhere: the walker must follow the
			// chain through it like through any other payload, so unsupported payloads behind it are still seen
			sk := model.Payload{Kind: model.KRaw, Raw: &model.Raw{Type: 46, Body: gen.BytesLen(t, "skbody", 1, 80, 1, 16, 48)}}
			at := rapid.IntRange(0, len(in.Host.Payloads)).Draw(t, "skpos")
			ps := append([]model.Payload(nil), in.Host.Payloads[:at]...)
			ps = append(ps, sk)
			in.Host.Payloads = append(ps, in.Host.Payloads[at:]...)
			if rapid.Bool().Draw(t, "behind-sk") {
				for i := range in.Inserts {
					if in.Inserts[i].Pos <= at {
						in.Inserts[i].Pos = rapid.IntRange(at+1, len(in.Host.Payloads)).Draw(t, "pos-behind-sk")
					}
				}
			}
		}
		return in
	}, c13Oracle)

// critical flag on supported payloads only (no insertion): must change nothing
var c13CriticalSupported = probe.Define("C13", "critical-on-supported",
	func(t *rapid.T) c13In {
		in := c13In{Host: gen.Message(t, gen.Opts{MaxPayloads: 6, NoBig: true}), Critical: true, Via: "message"}
		n := len(in.Host.Payloads)
		lib := make(model.Bytes, 0)
		// every liberty octet 0x80 or random with bit 7 set: exercises the critical bit on every generic header
		for i := 0; i < 8*n+8; i++ {
			lib = append(lib, 0x80|rapid.Byte().Draw(t, "lib"))
		}
		in.Lib = lib
		return in
	},
	func(in c13In) probe.Outcome {
		o := c13Oracle(in)
		o.NonTrivial = len(in.Host.Payloads) > 0
		return o
	})

var c13Table = probe.Define("C13", "table",
	func(t *rapid.T) c13In { panic("table is enumerated, not drawn") }, c13Oracle)

func c13HasSK(m model.Message) bool {
	for _, p := range m.Payloads {
		if p.Raw != nil && p.Raw.Type == 46 {
			return true
		}
	}
	return false
}

func c13Hosts() []model.Message {
	h := model.Header{ISPI: 0x1122334455667788, RSPI: 0x99aabbccddeeff00, Major: 2, Exchange: 35, Flags: 0x08, MsgID: 7}
	nonce := model.Payload{Kind: model.KNonce, Data: model.Bytes{1, 2, 3, 4, 5}}
	ke := model.Payload{Kind: model.KKE, KE: &model.KE{Group: 14, Data: model.Bytes{9, 8, 7}}}
	not := model.Payload{Kind: model.KNotify, Notify: &model.Notify{Protocol: 1, Type: 16388, SPI: model.Bytes{1, 2, 3, 4}, Data: model.Bytes{5}}}
	return []model.Message{
		{Header: h},
		{Header: h, Payloads: []model.Payload{nonce}},
		{Header: h, Payloads: []model.Payload{ke, nonce, not}},
		{Header: h, Payloads: []model.Payload{nonce, {Kind: model.KRaw, Raw: &model.Raw{Type: 46, Body: model.Bytes{1, 2, 3, 4, 5, 6, 7, 8}}}}},
		// vendor ids implementations look for, early in the chain (a "vendor quirk" must not change how what follows is treated)
		{Header: h, Payloads: []model.Payload{{Kind: model.KVendor, Data: gen.KnownVendorIDs()[0]}, {Kind: model.KVendor, Data: gen.KnownVendorIDs()[2]}, nonce}},
		{Header: h, Payloads: []model.Payload{{Kind: model.KVendor, Data: gen.KnownVendorIDs()[4]}, {Kind: model.KVendor, Data: gen.KnownVendorIDs()[7]}, nonce}},
	}
}

func c13MeaningfulBodies() []model.Bytes {
	var out []model.Bytes
	for _, fr := range [][2]uint16{{1, 1}, {1, 2}, {2, 2}, {0, 0}, {1, 0}, {2, 1}, {0xffff, 0xffff}} {
		hd := model.Bytes{byte(fr[0] >> 8), byte(fr[0]), byte(fr[1] >> 8), byte(fr[1])}
		out = append(out, hd, append(append(model.Bytes(nil), hd...), 0xaa), append(append(model.Bytes(nil), hd...), pat(48, 3)...))
	}
	out = append(out,
		model.Bytes{0, 0, 0, 8, 1, 2, 3, 4},                           // reads as one generic payload, last of its chain
		model.Bytes{40, 0, 0, 8, 1, 2, 3, 4, 0, 0, 0, 5, 9},           // ... as a Nonce followed by another payload
		model.Bytes{2, 0, 0, 0, 'a', '@', 'b'},                        // ID-like: type, RESERVED, data
		model.Bytes{12, 0, 0, 0}, model.Bytes{0, 0, 0, 0, 0, 0, 0, 0}, // method / reserved-looking starts
	)
	return out
}

func TestC13(t *testing.T) {
	c := probe.NewCtx(t, "C13")
	if c.Shard == 0 {
		endurance(c, "C13", "container-decode", 1100000)
	}
	// exhaustive single insertion: all 239 unsupported type codes x {front, middle, end} x both flags x hosts x {message, container}
	for _, host := range c13Hosts() {
		positions := map[int]bool{0: true, len(host.Payloads) / 2: true, len(host.Payloads): true}
		if len(host.Payloads) == 3 || c13HasSK(host) {
			positions[1], positions[2] = true, true
		}
		for ty := 1; ty <= 255; ty++ {
			if ty >= 33 && ty <= 48 {
				continue
			}
			for pos := range positions {
				for _, crit := range []bool{false, true} {
					for _, via := range []string{"message", "container", "sk", "outer-sk", "dd-nokey", "dd-key"} {
						if (via == "sk" || via == "outer-sk") && c13HasSK(host) {
							continue // an Encrypted payload inside an Encrypted payload is not a thing
						}
						body := model.Bytes{0xde, 0xad, byte(ty)}
						if (ty+pos)%3 == 1 {
							body = model.Bytes{0, 1, 0, 2, 0xaa, 0xbb} // reads as "fragment 1 of 2" to whoever knows RFC 7383
						}
						in := c13In{Host: host, Via: via, Inserts: []c13Insert{{Pos: pos, Raw: model.Raw{Type: uint8(ty), Critical: crit, Body: body}}}}
						if !c13Table.Eval(c, in) && c.Failures() > 3 {
							goto done
						}
					}
				}
			}
		}
	}
	// bodies that mean something to somebody for the registered types among the unsupported ones (IKEv1 payload types 1..32,
	// GSPM 49, IDg 50, GSA 51, KD 52, SKF 53, PS 54): fragment headers "k of n", a nested payload chain, an ID-like body
	for _, host := range c13Hosts()[1:3] {
		for ty := 1; ty <= 54; ty++ {
			if ty >= 33 && ty <= 48 {
				continue
			}
			for _, body := range c13MeaningfulBodies() {
				for pos := 0; pos <= len(host.Payloads); pos++ {
					for _, crit := range []bool{false, true} {
						for _, via := range []string{"message", "container", "sk", "dd-nokey"} {
							in := c13In{Host: host, Via: via, Inserts: []c13Insert{{Pos: pos, Raw: model.Raw{Type: uint8(ty), Critical: crit, Body: body}}}}
							if !c13Table.Eval(c, in) && c.Failures() > 3 {
								goto done
							}
						}
					}
				}
			}
		}
	}
	// every value of every 8-bit identifier of the supported payloads next to an unsupported payload (a rule may look at both)
	idSweep8(func(m model.Message) bool {
		for i, ty := range []uint8{49, 53, 50, 13, 200, 54} {
			pos := 0
			if i%2 == 1 {
				pos = len(m.Payloads)
			}
			in := c13In{Host: m, Via: []string{"message", "dd-nokey", "container"}[i%3], Inserts: []c13Insert{{Pos: pos, Raw: model.Raw{Type: ty, Body: model.Bytes{0xde, 0xad, ty}}}}}
			if !c13Table.Eval(c, in) && c.Failures() > 3 {
				return false
			}
		}
		return true
	})
	c.Exhaustive("table")
done:
	c13Random.Run(c, t, c.N(3000, 30000))
	c13CriticalSupported.Run(c, t, c.N(1000, 10000))
}
