package props

import (
	"bytes"
	"testing"

	"github.com/free5gc/ike/eap"
	"pgregory.net/rapid"

	"verif/gen"
	"verif/model"
	"verif/probe"
	"verif/ref"
)

// C16 — EAP-AKA' key hierarchy follows PRF' of RFC 5448 / RFC 9048.

type c16In struct {
	IK       model.Bytes `json:"ik"`
	CK       model.Bytes `json:"ck"`
	Identity model.Bytes `json:"identity"` // arbitrary octets (passed to the API as a Go string)
}

var c16PRF = probe.Define("C16", "prf-prime", func(t *rapid.T) c16In {
	keyLen := func(label string) int {
		if rapid.IntRange(0, 2).Draw(t, label+".typical") != 2 {
			return 16
		}
		return gen.Len(t, label, 0, 64, 0, 1, 15, 16, 17, 32, 63, 64)
	}
	in := c16In{IK: gen.Fill(t, "ik", keyLen("iklen")), CK: gen.Fill(t, "ck", keyLen("cklen"))}
	// keys RELATED to each other: IK' ending in CK' (IK' = X|CK'), CK' beginning with IK', one a repetition of the other's octet
	switch rapid.IntRange(0, 11).Draw(t, "keyrelation") {
	case 8:
		if len(in.IK)+len(in.CK) <= 64 {
			in.IK = append(append(model.Bytes(nil), in.IK...), in.CK...)
		}
	case 9:
		if len(in.IK)+len(in.CK) <= 64 {
			in.CK = append(append(model.Bytes(nil), in.IK...), in.CK...)
		}
	case 10:
		in.IK, in.CK = bytesRepeat(0xaa, 17), bytesRepeat(0xaa, 16)
	case 11:
		if len(in.CK) > 1 {
			in.IK = append(model.Bytes(nil), in.CK[1:]...)
		}
	}
	switch gen.Pick(t, "idclass", 4, 3, 1, 1, 3) {
	case 0:
		in.Identity = rapid.SliceOfN(rapid.Byte(), 0, 40).Draw(t, "id")
	case 1:
		in.Identity = model.Bytes(rapid.StringMatching(`[0-9]{15}@nai\.5gc\.mnc[0-9]{3}\.mcc[0-9]{3}\.3gppnetwork\.org`).Draw(t, "nai"))
	case 2:
		in.Identity = append(model.Bytes("EAP-AKA'"), rapid.SliceOfN(rapid.Byte(), 0, 10).Draw(t, "id")...)
	case 4:
		in.Identity = model.Bytes(gen.Identity(t, "identity")) // SUPI / NAI / SUCI notations
	default:
		in.Identity = gen.Fill(t, "id", rapid.IntRange(0, 255).Draw(t, "idlen"))
	}
	return in
}, func(in c16In) probe.Outcome {
	var kEncr, kAut, kRe, msk, emsk []byte
	carved := (len(in.IK)+len(in.Identity))%2 == 1 // a function of the input: the case stays reproducible
	unchanged := func() error { return nil }
	err := probe.Try(func() error {
		var e error
		ik, ck := append([]byte(nil), in.IK...), append([]byte(nil), in.CK...)
		if len(in.Identity)%2 == 1 {
			// no octets as an empty, non-nil slice (what trimming or slicing leaves) instead of nil
			if len(ik) == 0 {
				ik = make([]byte, 0, 4)
			}
			if len(ck) == 0 {
				ck = make([]byte, 0, 4)
			}
		}
		if carved {
			// IK' and CK' as the caller got them from the AKA functions: back to back in one buffer
			var v [][]byte
			v, unchanged = probe.Carve(in.IK, in.CK)
			ik, ck = v[0], v[1]
		}
		kEncr, kAut, kRe, msk, emsk, e = eap.EapAkaPrimePRF(ik, ck, string(in.Identity))
		return e
	})
	if err := unchanged(); err != nil {
		return probe.Fail("EapAkaPrimePRF(IK', CK' held back to back in one buffer): %v", err)
	}
	if probe.IsPanic(err) {
		return probe.Fail("EapAkaPrimePRF panics: %v", err)
	}
	if len(in.IK) == 0 || len(in.CK) == 0 {
		if err == nil {
			return probe.Fail("empty IK' or CK' accepted")
		}
		if kEncr != nil || kAut != nil || kRe != nil || msk != nil || emsk != nil {
			return probe.Fail("error returned together with key material")
		}
		return probe.OK(true, "empty-key-refused")
	}
	if err != nil {
		return probe.Fail("EapAkaPrimePRF failed on valid input: %v", err)
	}
	key := append(append([]byte(nil), in.IK...), in.CK...)
	s := append([]byte("EAP-AKA'"), in.Identity...)
	mk := ref.PRFPrime(key, s, 208)
	for _, x := range []struct {
		name     string
		got      []byte
		from, to int
	}{{"K_encr", kEncr, 0, 16}, {"K_aut", kAut, 16, 48}, {"K_re", kRe, 48, 80}, {"MSK", msk, 80, 144}, {"EMSK", emsk, 144, 208}} {
		if !bytes.Equal(x.got, mk[x.from:x.to]) {
			return probe.Fail("%s (%d octets) differs from octets %d..%d of PRF'(IK'|CK', \"EAP-AKA'\"|Identity)", x.name, len(x.got), x.from, x.to-1)
		}
	}
	// The very next derivation with arguments that CONCATENATE to the same octets but split them differently between key and
	// string - K' = IK'|CK'|"EAP-AKA'"|A and S' = "EAP-AKA'"|B for an identity A|"EAP-AKA'"|B - is a different derivation.
	if j := bytes.Index(in.Identity, []byte("EAP-AKA'")); j >= 0 && len(in.CK)+8+j <= 64 {
		ck2 := append(append(append([]byte(nil), in.CK...), "EAP-AKA'"...), in.Identity[:j]...)
		id2 := in.Identity[j+8:]
		var g [5][]byte
		if err := probe.Try(func() error {
			var e error
			g[0], g[1], g[2], g[3], g[4], e = eap.EapAkaPrimePRF(append([]byte(nil), in.IK...), ck2, string(id2))
			return e
		}); err != nil {
			return probe.Fail("EapAkaPrimePRF on the re-split arguments: %v", err)
		}
		mk2 := ref.PRFPrime(append(append([]byte(nil), in.IK...), ck2...), append([]byte("EAP-AKA'"), id2...), 208)
		if !bytes.Equal(g[0], mk2[0:16]) || !bytes.Equal(g[1], mk2[16:48]) || !bytes.Equal(g[2], mk2[48:80]) || !bytes.Equal(g[3], mk2[80:144]) || !bytes.Equal(g[4], mk2[144:208]) {
			return probe.Fail("a derivation whose key and string concatenate to the same octets as the previous one (split differently) does not give PRF' of ITS key and string")
		}
	}
	// keys handed out stay what they are when further derivations are made (no shared buffer behind them)
	if err := probe.Try(func() error {
		for i := 0; i < 3; i++ {
			if _, _, _, _, _, e := eap.EapAkaPrimePRF(append([]byte{byte(i)}, in.CK...), append([]byte{0x5a}, in.IK...), string(in.Identity)+"x"); e != nil {
				return e
			}
		}
		return nil
	}); err != nil {
		return probe.Fail("further derivation failed: %v", err)
	}
	if !bytes.Equal(kEncr, mk[0:16]) || !bytes.Equal(kAut, mk[16:48]) || !bytes.Equal(kRe, mk[48:80]) || !bytes.Equal(msk, mk[80:144]) || !bytes.Equal(emsk, mk[144:208]) {
		return probe.Fail("keys returned earlier changed after further derivations were made")
	}
	hi := false
	for _, b := range in.Identity {
		if b >= 0x80 || b == 0 {
			hi = true
		}
	}
	var labels []string
	if carved {
		labels = append(labels, "keys-share-one-buffer")
	}
	if len(in.IK) != len(in.CK) {
		labels = append(labels, "iklen!=cklen")
	}
	if hi {
		labels = append(labels, "identity:non-ascii")
	}
	if len(in.IK)+len(in.CK) > 64 {
		labels = append(labels, "key>hash-block")
	}
	return probe.Outcome{NonTrivial: len(in.IK) != len(in.CK) || hi || len(in.Identity) > 0, Labels: labels}
})

func TestC16(t *testing.T) {
	c := probe.NewCtx(t, "C16")
	if c.Shard == 0 {
		endurance(c, "C16", "prf-prime", 70000)
	}
	c16PRF.Run(c, t, c.N(5000, 60000))
}

func bytesRepeat(b byte, n int) model.Bytes { return bytes.Repeat([]byte{b}, n) }
