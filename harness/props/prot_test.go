package props

import (
	"errors"
	"fmt"

	ike "github.com/free5gc/ike"
	"github.com/free5gc/ike/message"
	"github.com/free5gc/ike/security"
	"pgregory.net/rapid"

	"verif/bridge"
	"verif/gen"
	"verif/model"
	"verif/probe"
	"verif/ref"
)

// shared helpers for the properties about protected (SK) messages: C01, C02, C06, C17

// errNeitherNor: the library returned (nil, nil) - no value and no error - which is never a valid outcome.
var errNeitherNor = errors.New("DecodeDecrypt returned neither a message nor an error (nil, nil)")

// misbehaviour is an outcome of DecodeDecrypt that is never valid, whatever the input (it matches errNeitherNor in
// errors.Is, so every caller that expects a rejection still reports it).
type misbehaviour struct{ msg string }

func (m *misbehaviour) Error() string        { return m.msg }
func (m *misbehaviour) Is(target error) bool { return target == errNeitherNor }

const maxInnerChain = 65400 // keeps 4 + IV + ciphertext + ICV inside the 16-bit payload length

type protIn struct {
	Msg     model.Message   `json:"msg"`
	Suite   bridge.SuiteSel `json:"suite"`
	Keys    bridge.KeySet   `json:"keys"`
	SendI   bool            `json:"sender_is_initiator"`
	WithHdr bool            `json:"receiver_preparses_header"`
	Entropy model.Bytes     `json:"entropy,omitempty"` // non-empty: the library's random draws come from this stream
}

// genKeys draws the four direction keys; the two directions are made distinct by construction
// (as a real key derivation gives them).
func genKeys(t *rapid.T, s bridge.SuiteSel) bridge.KeySet {
	el, al := ref.Encrs[s.Encr].KeyLen, ref.Integs[s.Integ].KeyLen
	k := bridge.KeySet{Ei: gen.Fill(t, "sk_ei", el), Er: gen.Fill(t, "sk_er", el), Ai: gen.Fill(t, "sk_ai", al), Ar: gen.Fill(t, "sk_ar", al)}
	if string(k.Ei) == string(k.Er) {
		k.Er[0] ^= 0x01
	}
	if string(k.Ai) == string(k.Ar) {
		k.Ar[0] ^= 0x01
	}
	return k
}

// equalDirections makes the two directions share a key in a fraction of the cases ("for all key values" includes that;
// only C02's reflection clause needs them distinct).
func equalDirections(t *rapid.T, in *protIn) {
	if rapid.IntRange(0, 7).Draw(t, "equal-integ-keys") == 7 {
		in.Keys.Ar = append(model.Bytes(nil), in.Keys.Ai...)
	}
	if rapid.IntRange(0, 7).Draw(t, "equal-encr-keys") == 7 {
		in.Keys.Er = append(model.Bytes(nil), in.Keys.Ei...)
	}
}

func genSuite(t *rapid.T) bridge.SuiteSel {
	return bridge.SuiteSel{Encr: rapid.IntRange(0, 2).Draw(t, "encr"), Integ: rapid.IntRange(0, 2).Draw(t, "integ"), Prf: rapid.IntRange(0, 2).Draw(t, "prf"), DH: rapid.IntRange(0, 1).Draw(t, "dh"),
		ViaProposal: rapid.IntRange(0, 2).Draw(t, "viaproposal") == 2}
}

func genProt(t *rapid.T, o gen.Opts) protIn {
	if o.MaxChain == 0 {
		o.MaxChain = maxInnerChain
	}
	in := protIn{Msg: gen.Message(t, o), Suite: genSuite(t), SendI: rapid.Bool().Draw(t, "sendI"), WithHdr: rapid.Bool().Draw(t, "withhdr")}
	if rapid.IntRange(0, 9).Draw(t, "semantic") == 9 {
		in.Msg = gen.Semantic(t) // liveness checks, deletes, error notifications, re-keying requests ...
	}
	in.Keys = genKeys(t, in.Suite)
	switch rapid.IntRange(0, 5).Draw(t, "entropyclass") {
	case 3:
		in.Entropy = gen.Fill(t, "entropy", rapid.IntRange(1, 48).Draw(t, "entlen"))
	case 4:
		in.Entropy = make(model.Bytes, 64)
	case 5:
		in.Entropy = make(model.Bytes, 64)
		for i := range in.Entropy {
			in.Entropy[i] = 0xff
		}
	}
	return in
}

// libProtect runs EncodeEncrypt on a fresh library message with the given SA object.
func libProtect(m model.Message, sa *security.IKESAKey, sendI bool, entropy []byte) (w []byte, lm *message.IKEMessage, chunks [][]byte, err error) {
	lm, err = bridge.ToLib(m)
	if err != nil {
		return nil, nil, nil, fmt.Errorf("building the library message: %w", err)
	}
	call := func() error {
		return probe.Try(func() error { var e error; w, e = ike.EncodeEncrypt(lm, sa, bridge.Role(sendI)); return e })
	}
	if len(entropy) > 0 {
		// a quarter of the injected streams are delivered in short reads (at most 1..17 octets per Read, chosen by the
		// stream's own octets so that the case stays a pure function of its input): the io.Reader contract allows that
		o := probe.EntropyOpts{Stream: entropy}
		if entropy[0]%4 == 3 {
			o.MaxRead = 1 + int(entropy[len(entropy)-1])%17
		}
		probe.WithEntropyOpts(o, func(e *probe.Entropy) { err = call(); chunks = e.Chunks })
	} else {
		err = call()
	}
	if err != nil {
		return nil, lm, chunks, fmt.Errorf("EncodeEncrypt: %w", err)
	}
	return w, lm, chunks, nil
}

// libUnprotect runs DecodeDecrypt on a private copy of w and reads the result. Half of the datagrams (chosen by their own
// octets, so a case stays a pure function of its input) are presented with exact capacity (any access past the length panics),
// the other half in a roomy receive buffer whose spare capacity holds sentinel octets - as a datagram read into a large buffer,
// or followed by the next datagram, is. Whatever the datagram: nothing behind its length may be written to, and a datagram that
// was refused is refused again when the very same buffer is presented a second time.
func libUnprotect(w []byte, sa *security.IKESAKey, recvI, withHdr bool) (model.Message, error) {
	var dm *message.IKEMessage
	roomy := false
	if len(w) > 0 {
		roomy = (w[len(w)-1]^w[len(w)/2])&1 == 1
	}
	x := probe.Exact(w)
	var tail []byte
	if roomy {
		tail = make([]byte, 80)
		for i := range tail {
			tail[i] = 0x96 ^ byte(i)
		}
		x = probe.SpareWith(w, tail)
	}
	// Where the pre-parsed header comes from (chosen by the datagram's own octets): parsed from the very buffer that is then
	// handed to DecodeDecrypt; parsed in the receive buffer, of which the datagram handed on is a private copy, and which has
	// been refilled meanwhile; parsed from the first 28 octets alone (a stream reader). The datagram argument is what counts.
	hdrMode := 0
	if len(w) >= 28 {
		hdrMode = int(w[len(w)/3]^w[27]) % 3
	}
	call := func() error {
		return probe.Try(func() error {
			var hdr *message.IKEHeader
			if withHdr {
				src := x
				switch hdrMode {
				case 1:
					src = append([]byte(nil), x...)
				case 2:
					if len(x) >= 28 {
						src = x[:28:28]
					}
				}
				h, e := message.ParseHeader(src)
				if e != nil {
					return fmt.Errorf("ParseHeader: %w", e)
				}
				hdr = h
				if hdrMode == 1 {
					// the receive buffer now holds the next datagram (same size, other octets)
					for i := range src {
						src[i] = src[i]*7 + byte(i) + 0x33
					}
				}
			}
			var e error
			dm, e = ike.DecodeDecrypt(x, hdr, sa, bridge.Role(recvI))
			return e
		})
	}
	err := call()
	if roomy {
		if got := x[len(x):cap(x)]; string(got) != string(tail) {
			return model.Message{}, &misbehaviour{fmt.Sprintf("DecodeDecrypt wrote to the memory behind the %d-octet datagram it was given (the spare capacity of the receive buffer changed)", len(w))}
		}
		if err != nil && !probe.IsPanic(err) {
			dm = nil
			if err2 := call(); err2 == nil && dm != nil {
				return model.Message{}, &misbehaviour{fmt.Sprintf("a datagram that was refused (%v) is ACCEPTED when the same receive buffer is presented a second time", err)}
			}
			dm = nil
		}
	}
	if err != nil {
		return model.Message{}, err
	}
	if dm == nil {
		return model.Message{}, errNeitherNor
	}
	var got model.Message
	err = probe.Try(func() error { var e error; got, e = bridge.FromLib(dm); return e })
	return got, err
}

// refProtect builds the protected form of m with the reference SK builder (minimal padding unless padBlocks > 0).
func refProtect(m model.Message, s bridge.SuiteSel, k bridge.KeySet, sendI bool, iv []byte, padLen int, pad []byte) ([]byte, error) {
	first, inner, err := ref.EncodeChain(m.Payloads, nil)
	if err != nil {
		return nil, err
	}
	h := m.Header
	hdr := ref.Header28(h.ISPI, h.RSPI, h.Major, h.Minor, h.Exchange, h.Flags, h.MsgID)
	if padLen < 0 {
		padLen = 15 - len(inner)%16
		pad = make([]byte, padLen)
	}
	return ref.Protect(s.Ref(), k.Dir(sendI), hdr, first, inner, iv, padLen, pad, 0)
}

func suiteLabels(in protIn) []string {
	dir := "dir:r->i"
	if in.SendI {
		dir = "dir:i->r"
	}
	mode := "hdr:nil"
	if in.WithHdr {
		mode = "hdr:preparsed"
	}
	return []string{"suite:" + in.Suite.String(), dir, mode}
}
