package props

import (
	"bytes"
	"fmt"
	"testing"

	"pgregory.net/rapid"

	"verif/bridge"
	"verif/gen"
	"verif/model"
	"verif/probe"
	"verif/ref"
)

// C06 — SK payload follows RFC 7296 section 3.14 and interoperates with an independent peer.

var c06Forward = probe.Define("C06", "forward", func(t *rapid.T) protIn {
	in := genProt(t, gen.Opts{})
	equalDirections(t, &in)
	return in
},
	func(in protIn) probe.Outcome {
		if model.ChainSize(in.Msg.Payloads) > maxInnerChain {
			// the protected form would not fit the 16-bit payload length: outside the domain (a generator slip, not the library's)
			return probe.OK(false, "outside-domain:inner-chain-too-long")
		}
		sa, err := bridge.NewSA(in.Suite, in.Keys)
		if err != nil {
			return probe.Fail("%v", err)
		}
		w, _, chunks, err := libProtect(in.Msg, sa, in.SendI, in.Entropy)
		if err != nil {
			return probe.Fail("%v", err)
		}
		if len(w) < 28 {
			return probe.Fail("protected message shorter than a header")
		}
		h := in.Msg.Header
		wantHdr := ref.Header28(h.ISPI, h.RSPI, h.Major, h.Minor, h.Exchange, h.Flags, h.MsgID)
		if !bytes.Equal(w[:16], wantHdr[:16]) || !bytes.Equal(w[17:24], wantHdr[17:24]) {
			return probe.Fail("cleartext header differs from the message's header fields: %x", w[:28])
		}
		o, err := ref.Open(in.Suite.Ref(), in.Keys.Dir(in.SendI), w)
		if err != nil {
			return probe.Fail("independent receiver cannot open the protected message: %v", err)
		}
		first := uint8(0)
		if len(in.Msg.Payloads) > 0 {
			first = ref.PayloadType(in.Msg.Payloads[0])
		}
		if o.FirstInner != first {
			return probe.Fail("SK next-payload field = %d, first inner payload has type %d", o.FirstInner, first)
		}
		ps, err := ref.ParseChain(o.FirstInner, o.Inner, ref.Parse{Strict: true})
		if err != nil {
			return probe.Fail("decrypted inner payloads are not well-formed: %v", err)
		}
		if d := model.DiffPayloads(in.Msg.Payloads, ps); d != "" {
			return probe.Fail("independent receiver recovers different payloads: %s", d)
		}
		labels := append(suiteLabels(in), in.Msg.Labels()...)
		if len(in.Entropy) > 0 {
			found := bytes.Contains(bytes.Join(chunks, nil), o.IV)
			if !found {
				return probe.Fail("IV %x was not drawn from the random source", o.IV)
			}
			labels = append(labels, "entropy:injected")
		}
		return probe.Outcome{NonTrivial: true, Labels: labels}
	})

type c06RevIn struct {
	protIn
	IV        model.Bytes `json:"iv"`
	PadBlocks int         `json:"pad_blocks"` // -1: all 16 legal pad lengths
	PadSeed   uint8       `json:"pad_seed"`
	// PadStyle: 0 = octet i is (i+1)*seed; otherwise a padding convention of some other protocol, kept or broken at one place:
	// 1 = 1,2,3,... (ESP, RFC 4303), 2 = the same with one octet off, 3 = 1,2 and then something else, 4 = every octet equals the
	// pad length (PKCS#7-like), 5 = the same with one octet off, 6 = all zero, 7 = all 0xff
	PadStyle uint8 `json:"pad_style,omitempty"`
}

var c06Reverse = probe.Define("C06", "reverse", func(t *rapid.T) c06RevIn {
	in := c06RevIn{protIn: genProt(t, gen.Opts{MaxChain: 65400 - 256})}
	equalDirections(t, &in.protIn)
	in.Entropy = nil
	in.IV = gen.Fill(t, "iv", 16)
	in.PadBlocks = -1
	in.PadSeed = rapid.Uint8().Draw(t, "padseed")
	if rapid.Bool().Draw(t, "padconvention") {
		in.PadStyle = uint8(rapid.IntRange(1, 7).Draw(t, "padstyle"))
	}
	return in
}, func(in c06RevIn) probe.Outcome {
	sa, err := bridge.NewSA(in.Suite, in.Keys)
	if err != nil {
		return probe.Fail("%v", err)
	}
	n := model.ChainSize(in.Msg.Payloads)
	base := 15 - n%16
	tried := 0
	iv := []byte(in.IV)
	for p := base; p <= 255; p += 16 {
		pad := make([]byte, p)
		for i := range pad {
			switch in.PadStyle {
			case 0:
				pad[i] = byte(i)*in.PadSeed + in.PadSeed
			case 1, 2, 3:
				pad[i] = byte(i + 1)
				if in.PadStyle == 3 && i >= 2 {
					pad[i] = in.PadSeed
				}
			case 4, 5:
				pad[i] = byte(p)
			case 7:
				pad[i] = 0xff
			}
		}
		if (in.PadStyle == 2 || in.PadStyle == 5) && p > 0 {
			pad[int(in.PadSeed)%p] ^= 0x40
		}
		w, err := refProtect(in.Msg, in.Suite, in.Keys, in.SendI, iv, p, pad)
		if err != nil {
			return probe.Fail("HARNESS: reference SK builder: %v", err)
		}
		if in.PadSeed%2 == 1 {
			// this peer chains its IVs: the next message's IV is the last ciphertext block of this one (older implementations do
			// that; a receiver accepts whatever IV the message carries)
			icv := in.Suite.Ref().Integ.OutLen
			iv = append([]byte(nil), w[len(w)-icv-16:len(w)-icv]...)
		}
		got, err := libUnprotect(w, sa, !in.SendI, in.WithHdr)
		if err != nil {
			return probe.Fail("message from an independent peer with pad length %d rejected: %v", p, err)
		}
		if d := model.Diff(in.Msg, got); d != "" {
			return probe.Fail("message from an independent peer with pad length %d decodes differently: %s", p, d)
		}
		tried++
	}
	labels := append(suiteLabels(in.protIn), fmt.Sprintf("padlengths:%d", tried))
	return probe.Outcome{NonTrivial: true, Labels: append(labels, in.Msg.Labels()...), Counts: map[string]int{"reference-built-messages-accepted": tried}}
})

func TestC06(t *testing.T) {
	c := probe.NewCtx(t, "C06")
	if c.Shard == 0 {
		endurance(c, "C06", "sizes-multiple-of-4096", c.N(48, 400))
	}
	c06Forward.Run(c, t, c.N(2000, 20000))
	c06Reverse.Run(c, t, c.N(600, 5000))
}
