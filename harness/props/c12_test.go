package props

import (
	"bytes"
	"fmt"
	"testing"

	"github.com/free5gc/ike/eap"
	"github.com/free5gc/ike/message"
	"pgregory.net/rapid"

	"verif/bridge"
	"verif/gen"
	"verif/model"
	"verif/probe"
	"verif/ref"
)

// C12 — re-encoding a decoded message preserves its meaning (decode/encode is stable).

type bytesIn struct {
	W      model.Bytes `json:"w"`
	Origin string      `json:"origin"` // how the string was made: canonical | liberties | mutated:<classes> | raw
}

// genImage draws a byte string that has a fair chance of being accepted by the message decoder.
func genImage(t *rapid.T) bytesIn {
	m := gen.Message(t, gen.Opts{MaxPayloads: 6, NoBig: true})
	switch gen.Pick(t, "imageclass", 3, 3, 8, 1, 4, 3, 2, 2) {
	case 7:
		// an SA payload whose proposals carry transforms of type codes nobody has assigned (0, 6..255) next to the usual ones -
		// some proposals nothing else: the decoder accepts or refuses; if it accepts and the message encodes again, it is stable
		var body []byte
		np := rapid.IntRange(1, 4).Draw(t, "unk.nprop")
		for pi := 0; pi < np; pi++ {
			var trs []byte
			nt := rapid.IntRange(1, 4).Draw(t, "unk.ntrans")
			onlyUnknown := rapid.IntRange(0, 2).Draw(t, "unk.only") == 0
			for ti := 0; ti < nt; ti++ {
				ty := rapid.SampledFrom([]byte{0, 6, 7, 200, 255}).Draw(t, "unk.type")
				if !onlyUnknown && rapid.Bool().Draw(t, "unk.known") {
					ty = byte(rapid.IntRange(1, 5).Draw(t, "unk.ktype"))
				}
				last := byte(3)
				if ti == nt-1 {
					last = 0
				}
				trs = append(trs, last, 0, 0, 8, ty, 0, 0, byte(rapid.IntRange(0, 20).Draw(t, "unk.id")))
			}
			last := byte(2)
			if pi == np-1 {
				last = 0
			}
			n := 8 + len(trs)
			body = append(body, last, 0, byte(n>>8), byte(n), byte(pi+1), 1, 0, byte(nt))
			body = append(body, trs...)
		}
		ps := gen.Payloads(t, gen.Opts{MaxPayloads: 2, NoBig: true})
		at := rapid.IntRange(0, len(ps)).Draw(t, "unk.at")
		all := append([]model.Payload(nil), ps[:at]...)
		all = append(all, model.Payload{Kind: model.KRaw, Raw: &model.Raw{Type: 33, Body: body}})
		all = append(all, ps[at:]...)
		w, err := ref.EncodeMessage(model.Message{Header: m.Header, Payloads: all}, nil)
		if err != nil {
			panic(err)
		}
		return bytesIn{W: w, Origin: "sa-with-unassigned-transform-types"}
	case 0:
		// canonical: zero liberties, transforms in ascending type order
		m = m.Normalize()
		w, err := ref.EncodeMessage(m, nil)
		if err != nil {
			panic(err)
		}
		return bytesIn{W: w, Origin: "canonical"}
	case 1:
		e := &ref.Enc{Lib: rapid.SliceOfN(rapid.Byte(), 1, 60).Draw(t, "lib"), CriticalOnSupported: true}
		w, err := ref.EncodeMessage(m, e)
		if err != nil {
			panic(err)
		}
		return bytesIn{W: w, Origin: "liberties"}
	case 2:
		e := &ref.Enc{}
		if rapid.Bool().Draw(t, "withlib") {
			e.Lib = rapid.SliceOfN(rapid.Byte(), 1, 30).Draw(t, "lib")
		}
		w, err := ref.EncodeMessage(m, e)
		if err != nil {
			panic(err)
		}
		mw, classes := gen.Mutate(t, w, e.Fields)
		if rapid.Bool().Draw(t, "fixlen") {
			gen.FixHeaderLength(mw)
		}
		return bytesIn{W: mw, Origin: "mutated:" + fmt.Sprint(classes)}
	case 3:
		return bytesIn{W: gen.RawBytes(t, "raw", 400), Origin: "raw"}
	case 6:
		// a message carrying an EAP-AKA' packet with several attributes the decoder has no special case for
		types := rapid.Permutation([]byte{4, 12, 14, 22, 129, 130, 133, 135, 136}).Draw(t, "gaka.types")
		pkt := []byte{1, 7, 0, 0, 50, 1, 0, 0}
		for _, ty := range types[:rapid.IntRange(2, 5).Draw(t, "gaka.n")] {
			words := rapid.IntRange(1, 6).Draw(t, "gaka.words")
			pkt = append(append(pkt, ty, byte(words)), rapid.SliceOfN(rapid.Byte(), 4*words-2, 4*words-2).Draw(t, "gaka.body")...)
		}
		pkt[2], pkt[3] = byte(len(pkt)>>8), byte(len(pkt))
		ps := gen.Payloads(t, gen.Opts{MaxPayloads: 2, NoBig: true})
		ps = append(ps, model.Payload{Kind: model.KRaw, Raw: &model.Raw{Type: 48, Body: pkt}})
		w, err := ref.EncodeMessage(model.Message{Header: m.Header, Payloads: ps}, nil)
		if err != nil {
			panic(err)
		}
		return bytesIn{W: w, Origin: "aka-generic-attributes"}
	case 5:
		// domain payloads mixed with Encrypted payloads (anywhere in the chain) and unsupported non-critical ones
		ps := gen.Payloads(t, gen.Opts{MaxPayloads: 3, NoBig: true})
		n := rapid.IntRange(1, 3).Draw(t, "nextra")
		for i := 0; i < n; i++ {
			var rp model.Raw
			if rapid.Bool().Draw(t, "sk") {
				rp = model.Raw{Type: 46, Body: rapid.SliceOfN(rapid.Byte(), 1, 40).Draw(t, "skbody")}
			} else {
				rp = model.Raw{Type: unsupportedType(t), Body: rapid.SliceOfN(rapid.Byte(), 0, 12).Draw(t, "unkbody")}
			}
			pos := rapid.IntRange(0, len(ps)).Draw(t, "pos")
			ps = append(ps[:pos], append([]model.Payload{{Kind: model.KRaw, Raw: &rp}}, ps[pos:]...)...)
		}
		w, err := ref.EncodeMessage(model.Message{Header: m.Header, Payloads: ps}, nil)
		if err != nil {
			panic(err)
		}
		return bytesIn{W: w, Origin: "sk+unsupported"}
	default:
		// well-formed chain whose payloads (of supported type codes) carry arbitrary short bodies
		n := rapid.IntRange(1, 4).Draw(t, "nraw")
		mm := model.Message{Header: m.Header}
		for i := 0; i < n; i++ {
			ty := uint8(rapid.IntRange(33, 48).Draw(t, "rawtype"))
			if ty == 46 {
				ty = 40
			}
			body := rapid.SliceOfN(rapid.Byte(), 0, 12).Draw(t, "rawbody")
			if rapid.IntRange(0, 3).Draw(t, "zeros") == 3 {
				for j := range body {
					body[j] = 0
				}
			}
			mm.Payloads = append(mm.Payloads, model.Payload{Kind: model.KRaw, Raw: &model.Raw{Type: ty, Body: body}})
		}
		w, err := ref.EncodeMessage(mm, nil)
		if err != nil {
			panic(err)
		}
		return bytesIn{W: w, Origin: "shortbody"}
	}
}

func originClass(o string) string {
	if len(o) > 7 && o[:7] == "mutated" {
		return "mutated"
	}
	return o
}

var c12Message = probe.Define("C12", "message", genImage, func(in bytesIn) probe.Outcome {
	labels := []string{"origin:" + originClass(in.Origin)}
	m1 := new(message.IKEMessage)
	if err := probe.Try(func() error { return m1.Decode(probe.Exact(in.W)) }); err != nil {
		if probe.IsPanic(err) {
			return probe.OK(false, append(labels, "decode-panic(C04's business)")...)
		}
		return probe.OK(false, append(labels, "rejected")...)
	}
	mod1, err := bridge.FromLib(m1)
	if err != nil {
		return probe.Fail("HARNESS: cannot read decoded message: %v", err)
	}
	var y []byte
	if err := probe.Try(func() error { var e error; y, e = m1.Encode(); return e }); err != nil {
		if probe.IsPanic(err) {
			fmt.Printf("OBSERVATION: property=C12 encoder panics on a decoded message (premise discharged): %x\n", []byte(in.W))
			return probe.OK(false, append(labels, "encode_panics")...)
		}
		return probe.OK(false, append(labels, "unencodable")...)
	}
	mod2, m2, err := libDecode(y)
	if err != nil {
		return probe.Fail("re-encoding of an accepted datagram is rejected: %v\n y=%x", err, y)
	}
	if d := model.Diff(mod1, mod2); d != "" {
		return probe.Fail("decode(encode(decode(x))) != decode(x): %s", d)
	}
	var y2 []byte
	if err := probe.Try(func() error { var e error; y2, e = m2.Encode(); return e }); err != nil {
		return probe.Fail("second encoding fails: %v", err)
	}
	if !bytes.Equal(y, y2) {
		return probe.Fail("no fixed point after one step: encode(decode(y)) != y\n y =%x\n y2=%x", y, y2)
	}
	// canonical input => byte-identical re-encoding
	// canonical = a datagram the independent encoder produces for a message of the encodable domain with zero liberties
	// (in particular every transform is of a type 1..5 the library's data model can file)
	if pm, err := ref.ParseMessage(in.W, ref.Parse{Strict: true}); err == nil && pm.InDomain() {
		if cw, err := ref.EncodeMessage(pm.Normalize(), nil); err == nil && bytes.Equal(cw, in.W) {
			labels = append(labels, "canonical-input")
			if !bytes.Equal(y, in.W) {
				return probe.Fail("canonical datagram is not re-encoded byte-identically\n x=%x\n y=%x", []byte(in.W), y)
			}
		}
	}
	labels = append(labels, "accepted+reencodable")
	return probe.Outcome{NonTrivial: true, Labels: labels}
})

func genEAPImage(t *rapid.T) bytesIn {
	e := gen.EAP(t, false)
	w, fields, err := ref.EncodeEAPLayout(e, nil)
	if err != nil {
		panic(err)
	}
	switch gen.Pick(t, "imageclass", 4, 12, 2, 1) {
	case 3:
		// a large AKA' packet made of attributes the decoder has no special case for (AT_IDENTITY, AT_IV, AT_ENCR_DATA, ...),
		// several kilo-octets long (crosses internal buffer sizes)
		types := rapid.Permutation([]byte{4, 12, 14, 22, 129, 130, 133, 134, 135, 136}).Draw(t, "bigaka.types")
		n := rapid.IntRange(3, len(types)).Draw(t, "bigaka.n")
		pkt := []byte{1, e.Identifier, 0, 0, 50, 1, 0, 0}
		for _, ty := range types[:n] {
			words := rapid.SampledFrom([]int{1, 2, 6, 64, 128, 200, 254, 255}).Draw(t, "bigaka.words")
			body := gen.Fill(t, "bigaka.body", 4*words-2)
			pkt = append(append(pkt, ty, byte(words)), body...)
		}
		pkt[2], pkt[3] = byte(len(pkt)>>8), byte(len(pkt))
		return bytesIn{W: pkt, Origin: "big-aka-generic-attributes"}
	case 0:
		return bytesIn{W: w, Origin: "canonical"}
	case 1:
		mw, classes := gen.Mutate(t, w, fields)
		if rapid.Bool().Draw(t, "fixlen") && len(mw) >= 4 {
			mw[2], mw[3] = byte(len(mw)>>8), byte(len(mw))
		}
		return bytesIn{W: mw, Origin: "mutated:" + fmt.Sprint(classes)}
	default:
		return bytesIn{W: gen.RawBytes(t, "raw", 300), Origin: "raw"}
	}
}

var c12EAP = probe.Define("C12", "eap", genEAPImage, func(in bytesIn) probe.Outcome {
	labels := []string{"origin:" + originClass(in.Origin)}
	e1 := new(eap.EAP)
	if err := probe.Try(func() error { return e1.Unmarshal(probe.Exact(in.W)) }); err != nil {
		if probe.IsPanic(err) {
			return probe.OK(false, append(labels, "decode-panic(C04's business)")...)
		}
		return probe.OK(false, append(labels, "rejected")...)
	}
	mod1, err := bridge.FromLibEAP(e1)
	if err != nil {
		return probe.Fail("HARNESS: %v", err)
	}
	var y []byte
	if err := probe.Try(func() error { var e error; y, e = e1.Marshal(); return e }); err != nil {
		if probe.IsPanic(err) {
			fmt.Printf("OBSERVATION: property=C12 EAP encoder panics on a decoded packet: %x\n", []byte(in.W))
			return probe.OK(false, append(labels, "encode_panics")...)
		}
		return probe.OK(false, append(labels, "unencodable")...)
	}
	e2 := new(eap.EAP)
	if err := probe.Try(func() error { return e2.Unmarshal(probe.Exact(y)) }); err != nil {
		return probe.Fail("re-encoding of an accepted EAP packet is rejected: %v\n x=%x\n y=%x", err, []byte(in.W), y)
	}
	mod2, err := bridge.FromLibEAP(e2)
	if err != nil {
		return probe.Fail("HARNESS: %v", err)
	}
	if !mod1.Equal(mod2) {
		return probe.Fail("EAP decode(encode(decode(x))) != decode(x): %s != %s", model.JSON(mod1.Normalize()), model.JSON(mod2.Normalize()))
	}
	var y2 []byte
	if err := probe.Try(func() error { var e error; y2, e = e2.Marshal(); return e }); err != nil {
		return probe.Fail("second EAP encoding fails: %v", err)
	}
	if !bytes.Equal(y, y2) {
		return probe.Fail("EAP: no fixed point after one step\n y =%x\n y2=%x", y, y2)
	}
	if pe, err := ref.ParseEAP(in.W, true); err == nil && pe.InDomain() {
		if cw, err := ref.EncodeEAP(pe.Normalize(), nil); err == nil && bytes.Equal(cw, in.W) {
			labels = append(labels, "canonical-input")
			if !bytes.Equal(y, in.W) {
				return probe.Fail("canonical EAP packet is not re-encoded byte-identically\n x=%x\n y=%x", []byte(in.W), y)
			}
		}
	}
	labels = append(labels, "accepted+reencodable")
	return probe.Outcome{NonTrivial: true, Labels: labels}
})

func TestC12(t *testing.T) {
	c := probe.NewCtx(t, "C12")
	runIDSweep(c, func(m model.Message) bool {
		w, err := ref.EncodeMessage(m, nil)
		if err != nil {
			return true
		}
		return c12Message.Eval(c, bytesIn{W: w, Origin: "canonical"})
	})
	c12Message.Run(c, t, c.N(8000, 80000))
	c12EAP.Run(c, t, c.N(6000, 60000))
}
