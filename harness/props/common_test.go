package props

import (
	"fmt"
	"math/big"
	"os"
	"testing"

	"github.com/free5gc/ike/message"

	"verif/bridge"
	"verif/model"
	"verif/probe"
)

// TestReplay re-runs the oracle named in the replay file $VERIF_REPLAY (no generator involved).
func TestReplay(t *testing.T) {
	path := os.Getenv("VERIF_REPLAY")
	if path == "" {
		t.Skip("VERIF_REPLAY not set")
	}
	prop, verr, err := probe.Replay(path)
	if err != nil {
		fmt.Printf("REPLAY-ERROR file=%s :: %v\n", path, err)
		t.Fatalf("replay: %v", err)
	}
	if verr != nil {
		fmt.Printf("REPLAY-FAIL property=%s file=%s :: %s\n", prop, path, firstLine(verr.Error()))
		fmt.Printf("%v\n", verr)
		return
	}
	fmt.Printf("REPLAY-PASS property=%s file=%s\n", prop, path)
}

func firstLine(s string) string {
	for i, c := range s {
		if c == '\n' {
			return s[:i]
		}
	}
	return s
}

// libEncode builds the library message from the model and encodes it.
func libEncode(m model.Message) ([]byte, *message.IKEMessage, error) {
	lm, err := bridge.ToLib(m)
	if err != nil {
		return nil, nil, fmt.Errorf("building the library message: %w", err)
	}
	// an application logs what it is about to send; looking at a message does not change it
	if (m.Header.MsgID^uint32(m.Header.ISPI)^uint32(len(m.Payloads))^uint32(model.ChainSize(m.Payloads)))&7 == 0 {
		if err := probe.Try(func() error { probe.PrintAll(lm); return nil }); err != nil {
			return nil, lm, fmt.Errorf("printing the message: %w", err)
		}
		if printed, perr := bridge.FromLib(lm); perr != nil || model.Diff(m, printed) != "" {
			return nil, lm, fmt.Errorf("printing the message and its parts (%%v) changed it: %s (%v)", model.Diff(m, printed), perr)
		}
	}
	var w []byte
	err = probe.Try(func() error {
		var e error
		w, e = lm.Encode()
		return e
	})
	if err != nil {
		return nil, lm, fmt.Errorf("Encode: %w", err)
	}
	// encoding reads the message; it must not have written to it (a library that append()s to one of the caller's slices
	// clobbers the neighbouring field when the slices share a backing array, see bridge.Arena)
	var after model.Message
	if err := probe.Try(func() error { var e error; after, e = bridge.FromLib(lm); return e }); err != nil {
		return nil, lm, fmt.Errorf("reading the message back after Encode: %w", err)
	}
	if d := model.Diff(m, after); d != "" {
		return nil, lm, fmt.Errorf("Encode altered the message it was given: %s", d)
	}
	return w, lm, nil
}

// libDecode decodes a datagram with the library (from a capacity-exact private copy) and reads
// the result back into the model.
func libDecode(w []byte) (model.Message, *message.IKEMessage, error) {
	dm := new(message.IKEMessage)
	x := probe.Exact(w)
	twoStep := len(w) >= 28 && (w[19]^w[len(w)-1]^byte(len(w)))&3 == 3
	if err := probe.Try(func() error {
		if !twoStep {
			return dm.Decode(x)
		}
		// the two steps Decode consists of, taken by the caller (as DecodeDecrypt does with a pre-parsed header): the header
		// was parsed in the receive buffer, which holds other octets by the time the payloads are decoded from the datagram
		buf := append([]byte(nil), x...)
		h, err := message.ParseHeader(buf)
		if err != nil {
			return err
		}
		for i := range buf {
			buf[i] = buf[i]*5 + byte(i) + 0x77
		}
		dm.IKEHeader = h
		return dm.DecodePayload(x[28:])
	}); err != nil {
		return model.Message{}, nil, fmt.Errorf("Decode: %w", err)
	}
	// an application logs what it received; looking at a message does not change it
	if (w[len(w)-1]+w[len(w)/2]+byte(len(w)))&7 == 0 {
		if err := probe.Try(func() error { probe.PrintAll(dm); return nil }); err != nil {
			return model.Message{}, nil, fmt.Errorf("printing the decoded message: %w", err)
		}
	}
	var got model.Message
	err := probe.Try(func() error {
		var e error
		got, e = bridge.FromLib(dm)
		return e
	})
	if err != nil {
		return model.Message{}, dm, fmt.Errorf("reading the decoded message: %w", err)
	}
	return got, dm, nil
}

var bigTwo = big.NewInt(2)

type bigInt = big.Int

func newInt(v int64) *big.Int { return big.NewInt(v) }
