package props

import (
	"fmt"
	"math/big"
	"os"
	"testing"

	"github.com/free5gc/ike/message"

	"verif/bridge"
	"verif/model"
	"verif/probe"
)

// TestReplay re-runs the oracle named in the replay file $VERIF_REPLAY (no generator involved).
func TestReplay(t *testing.T) {
	path := os.Getenv("VERIF_REPLAY")
	if path == "" {
		t.Skip("VERIF_REPLAY not set")
	}
	prop, verr, err := probe.Replay(path)
	if err != nil {
		fmt.Printf("REPLAY-ERROR file=%s :: %v\n", path, err)
		t.Fatalf("replay: %v", err)
	}
	if verr != nil {
		fmt.Printf("REPLAY-FAIL property=%s file=%s :: %s\n", prop, path, firstLine(verr.Error()))
		fmt.Printf("%v\n", verr)
		return
	}
	fmt.Printf("REPLAY-PASS property=%s file=%s\n", prop, path)
}

func firstLine(s string) string {
	for i, c := range s {
		if c == '\n' {
			return s[:i]
		}
	}
	return s
}

// libEncode builds the library message from the model and encodes it.
func libEncode(m model.Message) ([]byte, *message.IKEMessage, error) {
	lm, err := bridge.ToLib(m)
	if err != nil {
		return nil, nil, fmt.Errorf("building the library message: %w", err)
	}
	var w []byte
	err = probe.Try(func() error {
		var e error
		w, e = lm.Encode()
		return e
	})
	if err != nil {
		return nil, lm, fmt.Errorf("Encode: %w", err)
	}
	// encoding reads the message; it must not have written to it (a library that append()s to one of the caller's slices
	// clobbers the neighbouring field when the slices share a backing array, see bridge.Arena)
	var after model.Message
	if err := probe.Try(func() error { var e error; after, e = bridge.FromLib(lm); return e }); err != nil {
		return nil, lm, fmt.Errorf("reading the message back after Encode: %w", err)
	}
	if d := model.Diff(m, after); d != "" {
		return nil, lm, fmt.Errorf("Encode altered the message it was given: %s", d)
	}
	return w, lm, nil
}

// libDecode decodes a datagram with the library (from a capacity-exact private copy) and reads
// the result back into the model.
func libDecode(w []byte) (model.Message, *message.IKEMessage, error) {
	dm := new(message.IKEMessage)
	if err := probe.Try(func() error { return dm.Decode(probe.Exact(w)) }); err != nil {
		return model.Message{}, nil, fmt.Errorf("Decode: %w", err)
	}
	var got model.Message
	err := probe.Try(func() error {
		var e error
		got, e = bridge.FromLib(dm)
		return e
	})
	if err != nil {
		return model.Message{}, dm, fmt.Errorf("reading the decoded message: %w", err)
	}
	return got, dm, nil
}

var bigTwo = big.NewInt(2)

type bigInt = big.Int

func newInt(v int64) *big.Int { return big.NewInt(v) }
