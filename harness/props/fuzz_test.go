package props

import (
	"bytes"
	"testing"

	"pgregory.net/rapid"

	"verif/bridge"
	"verif/model"
	"verif/ref"
)

// Native coverage-guided fuzz targets (thorough tier only). The semantic oracle of the property is
// inside each target; a failing input is saved by `go test` under testdata/fuzz/<Target>/ and moved to
// /verif/replays/<ID>/ by the driver.

func fuzzSeedsMessages(f *testing.F) {
	for _, tp := range c04Templates() {
		if tp.entry == "message" {
			f.Add(tp.w)
		}
	}
	f.Add([]byte{})
	f.Add(bytes.Repeat([]byte{0xff}, 64))
	f.Add(append(ref.Header28(1, 2, 2, 0, 34, 8, 0)[:24], 0, 0, 0, 28))
	h := append(ref.Header28(1, 2, 2, 0, 34, 8, 0), 0, 0, 0xff, 0xff)
	h[16] = 33
	f.Add(h)
}

func FuzzC04Message(f *testing.F) {
	fuzzSeedsMessages(f)
	f.Fuzz(func(t *testing.T, data []byte) {
		if len(data) > 70000 {
			return
		}
		if o := c04Oracle(c04In{Entry: "message", B: data}); o.Err != nil {
			t.Fatalf("%v", o.Err)
		}
		if o := c04Oracle(c04In{Entry: "header", B: data}); o.Err != nil {
			t.Fatalf("%v", o.Err)
		}
	})
}

var fuzzBodyEntries = append(append([]string{}, c04Entries[2:]...), "payloads")

func FuzzC04Body(f *testing.F) {
	for _, tp := range c04Templates() {
		for i, e := range fuzzBodyEntries {
			if e == tp.entry {
				f.Add(uint8(i), uint8(0), tp.w)
			}
		}
	}
	for i := range fuzzBodyEntries {
		f.Add(uint8(i), uint8(33), []byte{0, 0, 0, 0xff, 0xff, 0xff, 0xff, 0xff})
		f.Add(uint8(i), uint8(41), bytes.Repeat([]byte{0xff}, 40))
	}
	f.Fuzz(func(t *testing.T, which, first uint8, data []byte) {
		if len(data) > 70000 {
			return
		}
		entry := fuzzBodyEntries[int(which)%len(fuzzBodyEntries)]
		if entry == "payloads" {
			entry = "payloads:" + itoa(int(first))
		}
		if o := c04Oracle(c04In{Entry: entry, B: data}); o.Err != nil {
			t.Fatalf("%v", o.Err)
		}
	})
}

func itoa(n int) string {
	if n == 0 {
		return "0"
	}
	s := ""
	for n > 0 {
		s = string(rune('0'+n%10)) + s
		n /= 10
	}
	return s
}

func FuzzC04EAP(f *testing.F) {
	for _, tp := range c04Templates() {
		if tp.entry == "eap" {
			f.Add(tp.w)
		}
	}
	f.Add([]byte{1, 2, 0, 8, 50, 1, 0, 0})
	f.Add([]byte{1, 2, 0, 12, 50, 1, 0, 0, 3, 0xff, 0xff, 0xff})
	f.Fuzz(func(t *testing.T, data []byte) {
		if len(data) > 70000 {
			return
		}
		if o := c04Oracle(c04In{Entry: "eap", B: data}); o.Err != nil {
			t.Fatalf("%v", o.Err)
		}
		if len(data) >= 4 {
			if o := c04Oracle(c04In{Entry: "eapmethod:aka", B: data[4:]}); o.Err != nil {
				t.Fatalf("%v", o.Err)
			}
		}
	})
}

var fuzzKeys = bridge.KeySet{Ei: bytes.Repeat([]byte{1}, 32), Er: bytes.Repeat([]byte{2}, 32), Ai: bytes.Repeat([]byte{3}, 32), Ar: bytes.Repeat([]byte{4}, 32)}

func fuzzKeysFor(s bridge.SuiteSel) *bridge.KeySet {
	el, al := ref.Encrs[s.Encr].KeyLen, ref.Integs[s.Integ].KeyLen
	return &bridge.KeySet{Ei: fuzzKeys.Ei[:el], Er: fuzzKeys.Er[:el], Ai: fuzzKeys.Ai[:al], Ar: fuzzKeys.Ar[:al]}
}

// post-MAC inputs: arbitrary inner octets, next-payload octet and pad-length octet under the receiver's keys
func FuzzC04UnprotectInner(f *testing.F) {
	for _, tp := range c04Templates() {
		if len(tp.entry) > 9 && tp.entry[:9] == "payloads:" {
			f.Add(uint8(0), uint8(33), uint8(0), tp.w)
		}
	}
	f.Add(uint8(4), uint8(0), uint8(255), []byte{})
	f.Add(uint8(8), uint8(41), uint8(16), bytes.Repeat([]byte{0xff}, 31))
	f.Fuzz(func(t *testing.T, suite, next, padOctet uint8, inner []byte) {
		if len(inner) > 60000 {
			return
		}
		s := bridge.SuiteSel{Encr: int(suite) % 3, Integ: int(suite/3) % 3}
		k := fuzzKeysFor(s)
		pt := append([]byte(nil), inner...)
		for len(pt)%16 != 15 {
			pt = append(pt, 0)
		}
		pt = append(pt, padOctet)
		recvI := suite&0x40 != 0
		w, err := ref.ProtectPlain(s.Ref(), k.Dir(!recvI), ref.Header28(1, 2, 2, 0, 35, 8, 1), next, pt, bytes.Repeat([]byte{7}, 16), 0)
		if err != nil {
			return
		}
		if o := c04Oracle(c04In{Entry: "unprotect", B: w, Suite: s, Keys: k, RecvInitiator: recvI, WithHeader: suite&0x80 != 0}); o.Err != nil {
			t.Fatalf("%v", o.Err)
		}
	})
}

func FuzzC12Stable(f *testing.F) {
	fuzzSeedsMessages(f)
	f.Fuzz(func(t *testing.T, data []byte) {
		if len(data) > 70000 {
			return
		}
		if o := c12Message.Oracle(bytesIn{W: model.Bytes(data), Origin: "fuzz"}); o.Err != nil {
			t.Fatalf("%v", o.Err)
		}
	})
}

func FuzzC12EAPStable(f *testing.F) {
	for _, tp := range c04Templates() {
		if tp.entry == "eap" {
			f.Add(tp.w)
		}
	}
	f.Fuzz(func(t *testing.T, data []byte) {
		if len(data) > 70000 {
			return
		}
		if o := c12EAP.Oracle(bytesIn{W: model.Bytes(data), Origin: "fuzz"}); o.Err != nil {
			t.Fatalf("%v", o.Err)
		}
	})
}

func FuzzC20Ownership(f *testing.F) {
	fuzzSeedsMessages(f)
	f.Fuzz(func(t *testing.T, data []byte) {
		if len(data) > 70000 {
			return
		}
		if o := c20DecodeOracle(c20DecIn{W: model.Bytes(data), Origin: "fuzz"}); o.Err != nil {
			t.Fatalf("%v", o.Err)
		}
	})
}

// Coverage-guided runs of structured (rapid-generated) properties: the fuzz engine mutates rapid's bit stream.
func FuzzC03RoundTrip(f *testing.F) { f.Fuzz(rapid.MakeFuzz(c03RoundTrip.AsProp())) }
func FuzzC05Reverse(f *testing.F)   { f.Fuzz(rapid.MakeFuzz(c05Reverse.AsProp())) }
func FuzzC01RoundTrip(f *testing.F) { f.Fuzz(rapid.MakeFuzz(c01RoundTrip.AsProp())) }
func FuzzC06Reverse(f *testing.F)   { f.Fuzz(rapid.MakeFuzz(c06Reverse.AsProp())) }
func FuzzC14Codec(f *testing.F)     { f.Fuzz(rapid.MakeFuzz(c14Codec.AsProp())) }
func FuzzC13Insert(f *testing.F)    { f.Fuzz(rapid.MakeFuzz(c13Random.AsProp())) }
