package props

import (
	"bytes"
	"fmt"
	"time"

	"github.com/free5gc/ike/eap"
	"pgregory.net/rapid"

	"verif/bridge"
	"verif/model"
	"verif/probe"
	"verif/ref"
)

// Idle: an object is set up and used, then NOTHING happens to it for a few seconds (the quick tier: 4 s, the thorough tier:
// 60 s), then it is used again. Every other check finishes with an object within milliseconds, so an entry that expires, a
// cached stream that is wiped "after the retransmission period", received octets that are dropped when they are "too old"
// cannot show; real SAs and half-finished EAP exchanges live for seconds to hours. The waiting overlaps with the rest of the
// property's cases: the objects are prepared when the test starts and looked at again when it ends. No result depends on the
// clock - time is only allowed to pass.

type idleIn struct {
	What    string `json:"what"`
	Seconds int    `json:"seconds_idle"`
}

type idleJob struct {
	at     time.Time
	verify func() error
	err    error
}

var idleJobs = map[string]*idleJob{}

func idlePrepare(what string) (func() error, error) {
	switch what {
	case "child-keys":
		cin := c08In{Prf: 2, SKd: bytes.Repeat([]byte{0x3c}, 32)}
		L, skd, err := c08NewSA(cin)
		if err != nil {
			return nil, err
		}
		nonce := []byte("Ni-of-the-create-child-sa-request|Nr-of-the-response")
		want := refChild(bridge.SuiteSel{Prf: 2}, skd, nonce, 1, 2)
		first, err := deriveChild(L, 1, 2, nonce)
		if err != nil {
			return nil, err
		}
		if !childEqual(first, want) {
			return nil, fmt.Errorf("the Child SA keys are not prf+(SK_d, Ni|Nr)")
		}
		return func() error {
			if !childEqual(first, want) {
				return fmt.Errorf("the Child SA keys derived before the pause have changed")
			}
			// the same exchange answered again (a retransmitted request), and another one, on the same IKE SA
			for i, n := range [][]byte{nonce, append([]byte("x"), nonce...), nonce} {
				k, err := deriveChild(L, 1, 2, n)
				if err != nil {
					return fmt.Errorf("derivation %d on the same IKE SA after the pause: %v", i+1, err)
				}
				if !childEqual(k, refChild(bridge.SuiteSel{Prf: 2}, skd, n, 1, 2)) {
					return fmt.Errorf("derivation %d on the same IKE SA after the pause does not give prf+(SK_d, Ni|Nr)", i+1)
				}
			}
			return nil
		}, nil
	case "received-mac":
		key := bytes.Repeat([]byte{0x42}, 32)
		w := c18ReceivedChallenge(0x31)
		mac, err := refMAC(key, w)
		if err != nil {
			return nil, err
		}
		off, _, _ := ref.AkaAttrSpan(w, model.AT_MAC)
		copy(w[off:], mac)
		pkt := new(eap.EAP)
		if err := pkt.Unmarshal(probe.Exact(w)); err != nil {
			return nil, err
		}
		return func() error {
			// the receiver had to wait for the authentication vector before it could verify
			got, err := pkt.CalcEapAkaPrimeAtMAC(key)
			if err != nil || !bytes.Equal(got, mac) {
				return fmt.Errorf("the receiver computes AT_MAC %x for the packet it decoded before the pause, the genuine packet carries %x (%v)", got, mac, err)
			}
			return nil
		}, nil
	case "sa-pair":
		a, b, s, k, err := enduranceSA(false)
		if err != nil {
			return nil, err
		}
		msg := model.Message{Header: model.Header{ISPI: 3, RSPI: 4, Major: 2, Exchange: 37, Flags: 0x08, MsgID: 1}, Payloads: []model.Payload{
			{Kind: model.KNotify, Notify: &model.Notify{Protocol: 1, Type: 16384, Data: model.Bytes{1, 2, 3}}}, {Kind: model.KNonce, Data: model.Bytes{9, 9, 9, 9, 9}}}}
		w1, _, _, err := libProtect(msg, a, true, nil)
		if err != nil {
			return nil, err
		}
		if _, err := libUnprotect(w1, b, false, false); err != nil {
			return nil, err
		}
		return func() error {
			// the message sent before the pause arrives again (a retransmission); the next message of the SA follows
			got, err := libUnprotect(w1, b, false, true)
			if err != nil {
				return fmt.Errorf("a genuine message protected before the pause is refused after it: %v", err)
			}
			if d := model.Diff(msg, got); d != "" {
				return fmt.Errorf("message protected before the pause: %s", d)
			}
			m2 := msg
			m2.Header.MsgID = 2
			for _, asI := range []bool{true, false} {
				w2, _, _, err := libProtect(m2, a, asI, nil)
				if err != nil {
					return fmt.Errorf("protecting with an SA that was idle: %v", err)
				}
				if _, err := ref.Open(s.Ref(), k.Dir(asI), w2); err != nil {
					return fmt.Errorf("message protected by an SA that was idle: independent receiver: %v", err)
				}
				got, err := libUnprotect(w2, b, !asI, false)
				if err != nil {
					return fmt.Errorf("message protected by an SA that was idle is refused by its peer: %v", err)
				}
				if d := model.Diff(m2, got); d != "" {
					return fmt.Errorf("message protected by an SA that was idle: %s", d)
				}
			}
			return nil
		}, nil
	case "cipher":
		key := bytes.Repeat([]byte{0x6b}, 32)
		c, err := c10New(2, key)
		if err != nil {
			return nil, err
		}
		p := []byte("plaintext of some length, not a multiple of 16")
		ct, err := c.Encrypt(probe.Exact(p))
		if err != nil {
			return nil, err
		}
		ct0 := append([]byte(nil), ct...)
		return func() error {
			back, err := c.Decrypt(append([]byte(nil), ct0...))
			if err != nil || !bytes.Equal(back, p) {
				return fmt.Errorf("a ciphertext made before the pause does not decrypt to its plaintext on the same object after it (%v)", err)
			}
			ct2, err := c.Encrypt(probe.Exact(p))
			if err != nil {
				return fmt.Errorf("encryption on a cipher object that was idle: %v", err)
			}
			if bytes.Equal(ct2[:16], ct0[:16]) {
				return fmt.Errorf("the IV of the encryption before the pause is used again after it")
			}
			return c10CheckCiphertext(key, p, ct2, nil)
		}, nil
	case "eap-packet":
		e := model.EAP{Code: 1, Identifier: 9, Kind: model.EAka, Sub: 1, Attrs: []model.AkaAttr{{Type: model.AT_RAND, Value: bytes.Repeat([]byte{3}, 16)},
			{Type: model.AT_RES, Value: model.Bytes{1, 2, 3, 4, 5}}, {Type: model.AT_KDF, Value: model.Bytes{0, 1}}, {Type: model.AT_KDF_INPUT, Value: model.Bytes("5G:mnc093.mcc208.3gppnetwork.org")}}}
		le, err := bridge.ToLibEAP(e)
		if err != nil {
			return nil, err
		}
		w1, err := le.Marshal()
		if err != nil {
			return nil, err
		}
		back := new(eap.EAP)
		if err := back.Unmarshal(probe.Exact(w1)); err != nil {
			return nil, err
		}
		return func() error {
			for i, x := range []*eap.EAP{le, back} {
				w, err := x.Marshal()
				if err != nil || !bytes.Equal(w, w1) {
					return fmt.Errorf("packet %d encodes differently after the pause than before it (%v)", i, err)
				}
				m, err := bridge.FromLibEAP(x)
				if err != nil || !m.Equal(e) {
					return fmt.Errorf("packet %d holds other values after the pause than before it (%v)", i, err)
				}
			}
			return nil
		}, nil
	case "decoded-message":
		m := model.Message{Header: model.Header{ISPI: 1, RSPI: 2, Major: 2, Exchange: 34, Flags: 8, MsgID: 0}, Payloads: []model.Payload{
			{Kind: model.KSA, SA: &model.SA{Proposals: []model.Proposal{{Number: 1, Protocol: 1, Transforms: []model.Transform{{Type: 1, ID: 12, Attr: &model.Attr{Type: 14, TV: true, Value: 256}}, {Type: 2, ID: 5}, {Type: 3, ID: 12}, {Type: 4, ID: 14}}}}}},
			{Kind: model.KKE, KE: &model.KE{Group: 14, Data: bytes.Repeat([]byte{7}, 256)}}, {Kind: model.KNonce, Data: bytes.Repeat([]byte{5}, 32)},
			{Kind: model.KNotify, Notify: &model.Notify{Protocol: 0, Type: 16388, Data: bytes.Repeat([]byte{1}, 20)}}, {Kind: model.KVendor, Data: model.Bytes{1, 2, 3, 4}}}}
		w, err := ref.EncodeMessage(m, nil)
		if err != nil {
			return nil, err
		}
		buf := probe.Exact(w)
		_, lm, err := libDecode(buf)
		if err != nil {
			return nil, err
		}
		return func() error {
			for i := range buf {
				buf[i] = 0xee // the receive buffer has long been used for other datagrams
			}
			got, err := bridge.FromLib(lm)
			if err != nil {
				return err
			}
			if d := model.Diff(m, got); d != "" {
				return fmt.Errorf("a message decoded before the pause reads differently after it: %s", d)
			}
			w2, err := lm.Encode()
			if err != nil || !bytes.Equal(w2, w) {
				return fmt.Errorf("a message decoded before the pause encodes differently after it (%v)", err)
			}
			return nil
		}, nil
	case "ike-sa":
		s := bridge.SuiteSel{Encr: 2, Integ: 1, Prf: 1, DH: 1}
		x := newInfoSA(s)
		nonce, secret := bytes.Repeat([]byte{0x5e}, 64), bytes.Repeat([]byte{0x17}, 256)
		if err := x.GenerateKeyForIKESA(append([]byte(nil), nonce...), append([]byte(nil), secret...), 0x1122334455667788, 0x99aabbccddeeff00); err != nil {
			return nil, err
		}
		snap := fmt.Sprintf("%x|%x|%x|%x|%x|%x|%x", x.SK_d, x.SK_ai, x.SK_ar, x.SK_ei, x.SK_er, x.SK_pi, x.SK_pr)
		return func() error {
			if now := fmt.Sprintf("%x|%x|%x|%x|%x|%x|%x", x.SK_d, x.SK_ai, x.SK_ar, x.SK_ei, x.SK_er, x.SK_pi, x.SK_pr); now != snap {
				return fmt.Errorf("the keys of an IKE SA changed while it was idle")
			}
			y := newInfoSA(s)
			if err := y.GenerateKeyForIKESA(append([]byte(nil), nonce...), append([]byte(nil), secret...), 0x1122334455667788, 0x99aabbccddeeff00); err != nil {
				return fmt.Errorf("the same derivation after the pause: %v", err)
			}
			if now := fmt.Sprintf("%x|%x|%x|%x|%x|%x|%x", y.SK_d, y.SK_ai, y.SK_ar, y.SK_ei, y.SK_er, y.SK_pi, y.SK_pr); now != snap {
				return fmt.Errorf("the same derivation gives other keys after the pause than before it")
			}
			msg := model.Message{Header: model.Header{ISPI: 3, RSPI: 4, Major: 2, Exchange: 37, MsgID: 1}, Payloads: []model.Payload{{Kind: model.KNonce, Data: model.Bytes{9}}}}
			w, _, _, err := libProtect(msg, x, true, nil)
			if err != nil {
				return fmt.Errorf("protecting with an IKE SA that was idle: %v", err)
			}
			if _, err := libUnprotect(w, y, false, false); err != nil {
				return fmt.Errorf("a message protected by an IKE SA that was idle is refused by an SA with the same keys: %v", err)
			}
			return nil
		}, nil
	}
	return nil, fmt.Errorf("HARNESS: idle %q", what)
}

func idleOracle(in idleIn) probe.Outcome {
	job := idleJobs[in.What]
	delete(idleJobs, in.What)
	if job == nil {
		job = &idleJob{at: time.Now()}
		if err := probe.Try(func() error { var e error; job.verify, e = idlePrepare(in.What); return e }); err != nil {
			job.err = err
		}
	}
	if job.err != nil {
		return probe.Fail("before the pause: %v", job.err)
	}
	if wait := time.Duration(in.Seconds)*time.Second - time.Since(job.at); wait > 0 {
		time.Sleep(wait)
	}
	if err := probe.Try(job.verify); err != nil {
		return probe.Fail("%s, left alone for %d s: %v", in.What, in.Seconds, err)
	}
	return probe.OK(true, "idle:"+in.What, fmt.Sprintf("seconds-idle:%d", in.Seconds))
}

var idleChecks = func() map[string]*probe.Check[idleIn] {
	m := map[string]*probe.Check[idleIn]{}
	for _, prop := range []string{"C07", "C08", "C10", "C14", "C15", "C17", "C20"} {
		m[prop] = probe.Define(prop, "idle", func(t *rapid.T) idleIn { panic("enumerated") }, idleOracle)
	}
	return m
}()

// idleStart prepares the object now; idleFinish (at the end of the property's test) waits until the pause is over and looks
// at it again. In a replay the oracle does both itself.
func idleStart(c *probe.Ctx, what string) {
	if c.Shard != 0 {
		return
	}
	job := &idleJob{at: time.Now()}
	if err := probe.Try(func() error { var e error; job.verify, e = idlePrepare(what); return e }); err != nil {
		job.err = err
	}
	job.at = time.Now()
	idleJobs[what] = job
}

func idleFinish(c *probe.Ctx, prop, what string) {
	if c.Shard != 0 {
		return
	}
	idleChecks[prop].Eval(c, idleIn{What: what, Seconds: c.N(4, 60)})
}
