package props

import (
	"bytes"
	"fmt"
	"testing"

	"github.com/free5gc/ike/message"
	"github.com/free5gc/ike/security"
	"github.com/free5gc/ike/security/dh"
	"github.com/free5gc/ike/security/encr"
	"github.com/free5gc/ike/security/esn"
	"github.com/free5gc/ike/security/integ"
	"github.com/free5gc/ike/security/prf"
	"pgregory.net/rapid"

	"verif/bridge"
	"verif/gen"
	"verif/model"
	"verif/probe"
	"verif/ref"
)

// C11 — algorithm <-> transform mapping is faithful and closed over the advertised set.

// wireTransform sends one transform through a real SA payload (Marshal / Unmarshal).
func wireTransform(tr *message.Transform) (*message.Transform, error) {
	p := &message.Proposal{ProposalNumber: 1, ProtocolID: 1}
	switch tr.TransformType {
	case 1:
		p.EncryptionAlgorithm = append(p.EncryptionAlgorithm, tr)
	case 2:
		p.PseudorandomFunction = append(p.PseudorandomFunction, tr)
	case 3:
		p.IntegrityAlgorithm = append(p.IntegrityAlgorithm, tr)
	case 4:
		p.DiffieHellmanGroup = append(p.DiffieHellmanGroup, tr)
	case 5:
		p.ExtendedSequenceNumbers = append(p.ExtendedSequenceNumbers, tr)
	default:
		return nil, fmt.Errorf("HARNESS: transform type %d", tr.TransformType)
	}
	back, err := wireProposal(p)
	if err != nil {
		return nil, err
	}
	for _, c := range []message.TransformContainer{back.EncryptionAlgorithm, back.PseudorandomFunction, back.IntegrityAlgorithm, back.DiffieHellmanGroup, back.ExtendedSequenceNumbers} {
		if len(c) == 1 {
			return c[0], nil
		}
	}
	return nil, fmt.Errorf("transform lost on the wire")
}

func wireProposal(p *message.Proposal) (*message.Proposal, error) {
	sa := &message.SecurityAssociation{Proposals: message.ProposalContainer{p}}
	var back message.SecurityAssociation
	err := probe.Try(func() error {
		b, e := sa.Marshal()
		if e != nil {
			return e
		}
		return back.Unmarshal(probe.Exact(b))
	})
	if err != nil {
		return nil, err
	}
	if len(back.Proposals) != 1 {
		return nil, fmt.Errorf("%d proposals after the wire", len(back.Proposals))
	}
	return back.Proposals[0], nil
}

// c11Attr describes the attribute attached to a probe transform.
type c11Attr struct {
	Class string      `json:"class"` // absent | tv | tlv
	Type  uint16      `json:"type"`
	Value uint16      `json:"value"`
	Var   model.Bytes `json:"var,omitempty"`
}

type c11In struct {
	IDs   []uint16  `json:"ids"`
	Attrs []c11Attr `json:"attrs"`
}

func (a c11Attr) apply(tr *message.Transform) {
	switch a.Class {
	case "tv":
		tr.AttributePresent, tr.AttributeFormat, tr.AttributeType, tr.AttributeValue = true, message.AttributeFormatUseTV, a.Type, a.Value
	case "tlv":
		tr.AttributePresent, tr.AttributeFormat, tr.AttributeType = true, message.AttributeFormatUseTLV, a.Type
		tr.VariableLengthAttributeValue = append([]byte(nil), a.Var...)
	}
}

// Descriptors handed out earlier must keep describing the algorithm they were obtained for: several negotiations are in
// flight at a time, so a descriptor object that a later decode re-parameterises (a shared, mutable instance) maps the
// EARLIER transform to a different key size. The ledger keeps the last descriptors handed out; whenever a new one is
// obtained all held ones are asked again.
type c11HeldDesc struct {
	what   string
	get    func() (id uint16, keyLen int)
	id     uint16
	keyLen int
}

var c11Held []c11HeldDesc

func c11Hold(what string, id uint16, keyLen int, get func() (uint16, int)) error {
	for _, h := range c11Held {
		var gid uint16
		var gkl int
		if err := probe.Try(func() error { gid, gkl = h.get(); return nil }); err != nil {
			return fmt.Errorf("descriptor obtained earlier for %s panics when asked again: %v", h.what, err)
		}
		if gid != h.id || gkl != h.keyLen {
			return fmt.Errorf("descriptor obtained earlier for %s now reports id %d / key length %d (was %d / %d) after %s was decoded: descriptors of different negotiations share state",
				h.what, gid, gkl, h.id, h.keyLen, what)
		}
	}
	c11Held = append(c11Held, c11HeldDesc{what: what, get: get, id: id, keyLen: keyLen})
	if len(c11Held) > 24 {
		c11Held = c11Held[len(c11Held)-24:]
	}
	return nil
}

// decodeAll runs the 7 decode functions on a transform with the given id/attribute (one type at a time)
// and checks the reference mapping.
func c11CheckDecode(id uint16, a c11Attr, viaWire bool) error {
	mk := func(ttype uint8) (*message.Transform, error) {
		tr := &message.Transform{TransformType: ttype, TransformID: id}
		a.apply(tr)
		if viaWire {
			return wireTransform(tr)
		}
		return tr, nil
	}
	keyLenOK := a.Class == "tv" && a.Type == 14 && (a.Value == 128 || a.Value == 192 || a.Value == 256)
	where := func(name string) string {
		return fmt.Sprintf("%s(id=%d, attr=%+v, via wire=%v)", name, id, a, viaWire)
	}
	// encryption (IKE and Child)
	tr, err := mk(1)
	if err != nil {
		return fmt.Errorf("HARNESS/wire: %v", err)
	}
	var e encr.ENCRType
	var ek encr.ENCRKType
	if err := probe.Try(func() error { e = encr.DecodeTransform(tr); ek = encr.DecodeTransformChildSA(tr); return nil }); err != nil {
		return fmt.Errorf("%s panics: %v", where("encr.DecodeTransform"), err)
	}
	if id == 12 && keyLenOK {
		if e == nil || ek == nil {
			return fmt.Errorf("%s: advertised AES-CBC-%d reported unsupported", where("encr.DecodeTransform"), a.Value)
		}
		if e.TransformID() != 12 || e.GetKeyLength() != int(a.Value)/8 || ek.TransformID() != 12 || ek.GetKeyLength() != int(a.Value)/8 {
			return fmt.Errorf("%s: mapped to key length %d / %d octets", where("encr.DecodeTransform"), e.GetKeyLength(), ek.GetKeyLength())
		}
		if err := c11Hold(where("encr.DecodeTransform"), 12, int(a.Value)/8, func() (uint16, int) { return e.TransformID(), e.GetKeyLength() }); err != nil {
			return err
		}
		if err := c11Hold(where("encr.DecodeTransformChildSA"), 12, int(a.Value)/8, func() (uint16, int) { return ek.TransformID(), ek.GetKeyLength() }); err != nil {
			return err
		}
	} else if e != nil || ek != nil {
		kl := -1
		if e != nil {
			kl = e.GetKeyLength()
		}
		return fmt.Errorf("%s: must be 'unsupported' but mapped to an algorithm (key length %d)", where("encr.DecodeTransform"), kl)
	}
	// integrity (IKE and Child)
	if tr, err = mk(3); err != nil {
		return fmt.Errorf("HARNESS/wire: %v", err)
	}
	var in integ.INTEGType
	var ink integ.INTEGKType
	if err := probe.Try(func() error { in = integ.DecodeTransform(tr); ink = integ.DecodeTransformChildSA(tr); return nil }); err != nil {
		return fmt.Errorf("%s panics: %v", where("integ.DecodeTransform"), err)
	}
	var wantI *ref.IntegAlg
	for i := range ref.Integs {
		if ref.Integs[i].ID == id {
			wantI = &ref.Integs[i]
		}
	}
	if in != nil && (wantI == nil || in.TransformID() != id || in.GetKeyLength() != wantI.KeyLen || in.GetOutputLength() != wantI.OutLen) {
		return fmt.Errorf("%s: mapped to a different algorithm (id %d, key %d, out %d)", where("integ.DecodeTransform"), in.TransformID(), in.GetKeyLength(), in.GetOutputLength())
	}
	if ink != nil && (wantI == nil || ink.TransformID() != id || ink.GetKeyLength() != wantI.KeyLen) {
		return fmt.Errorf("%s: mapped to a different algorithm", where("integ.DecodeTransformChildSA"))
	}
	if in != nil {
		if err := c11Hold(where("integ.DecodeTransform"), id, wantI.KeyLen, func() (uint16, int) { return in.TransformID(), in.GetKeyLength() }); err != nil {
			return err
		}
	}
	if ink != nil {
		if err := c11Hold(where("integ.DecodeTransformChildSA"), id, wantI.KeyLen, func() (uint16, int) { return ink.TransformID(), ink.GetKeyLength() }); err != nil {
			return err
		}
	}
	if wantI != nil && a.Class == "absent" && (in == nil || ink == nil) {
		return fmt.Errorf("%s: advertised algorithm reported unsupported", where("integ.DecodeTransform"))
	}
	// prf
	if tr, err = mk(2); err != nil {
		return fmt.Errorf("HARNESS/wire: %v", err)
	}
	var pf prf.PRFType
	if err := probe.Try(func() error { pf = prf.DecodeTransform(tr); return nil }); err != nil {
		return fmt.Errorf("%s panics: %v", where("prf.DecodeTransform"), err)
	}
	var wantP *ref.PrfAlg
	for i := range ref.Prfs {
		if ref.Prfs[i].ID == id {
			wantP = &ref.Prfs[i]
		}
	}
	if pf != nil && (wantP == nil || pf.TransformID() != id || pf.GetKeyLength() != wantP.KeyLen || pf.GetOutputLength() != wantP.KeyLen) {
		return fmt.Errorf("%s: mapped to a different algorithm", where("prf.DecodeTransform"))
	}
	if pf != nil {
		if err := c11Hold(where("prf.DecodeTransform"), id, wantP.KeyLen, func() (uint16, int) { return pf.TransformID(), pf.GetKeyLength() }); err != nil {
			return err
		}
	}
	if wantP != nil && a.Class == "absent" && pf == nil {
		return fmt.Errorf("%s: advertised algorithm reported unsupported", where("prf.DecodeTransform"))
	}
	// dh
	if tr, err = mk(4); err != nil {
		return fmt.Errorf("HARNESS/wire: %v", err)
	}
	var d dh.DHType
	if err := probe.Try(func() error { d = dh.DecodeTransform(tr); return nil }); err != nil {
		return fmt.Errorf("%s panics: %v", where("dh.DecodeTransform"), err)
	}
	isDH := id == 2 || id == 14
	if d != nil && (!isDH || d.TransformID() != id) {
		return fmt.Errorf("%s: mapped to a different group", where("dh.DecodeTransform"))
	}
	if isDH && a.Class == "absent" && d == nil {
		return fmt.Errorf("%s: advertised group reported unsupported", where("dh.DecodeTransform"))
	}
	// esn
	if tr, err = mk(5); err != nil {
		return fmt.Errorf("HARNESS/wire: %v", err)
	}
	var es esn.ESN
	var eerr error
	if err := probe.Try(func() error { es, eerr = esn.DecodeTransform(tr); return nil }); err != nil {
		return fmt.Errorf("%s panics: %v", where("esn.DecodeTransform"), err)
	}
	if eerr == nil && (id > 1 || es.TransformID() != id || es.GetNeedESN() != (id == 1)) {
		return fmt.Errorf("%s: mapped to a different ESN setting", where("esn.DecodeTransform"))
	}
	if id <= 1 && a.Class == "absent" && eerr != nil {
		return fmt.Errorf("%s: advertised ESN value reported unsupported", where("esn.DecodeTransform"))
	}
	return nil
}

var c11Decode = probe.Define("C11", "decode", func(t *rapid.T) c11In {
	in := c11In{}
	for i := rapid.IntRange(1, 8).Draw(t, "nids"); i > 0; i-- {
		in.IDs = append(in.IDs, rapid.Uint16().Draw(t, "id"))
	}
	in.IDs = append(in.IDs, rapid.SampledFrom([]uint16{0, 1, 2, 5, 12, 14}).Draw(t, "advid"))
	for i := rapid.IntRange(1, 6).Draw(t, "nattrs"); i > 0; i-- {
		switch gen.Pick(t, "attrclass", 3, 3, 2) {
		case 0:
			in.Attrs = append(in.Attrs, c11Attr{Class: "tv", Type: 14, Value: rapid.Uint16().Draw(t, "value")})
		case 1:
			in.Attrs = append(in.Attrs, c11Attr{Class: "tv", Type: rapid.Uint16().Draw(t, "type") & 0x7fff, Value: rapid.SampledFrom([]uint16{128, 192, 256}).Draw(t, "value")})
		default:
			in.Attrs = append(in.Attrs, c11Attr{Class: "tlv", Type: rapid.SampledFrom([]uint16{14, 142, 0x400e}).Draw(t, "type"), Var: rapid.SliceOfN(rapid.Byte(), 1, 6).Draw(t, "var")})
		}
	}
	return in
}, func(in c11In) probe.Outcome {
	for _, id := range in.IDs {
		for _, a := range in.Attrs {
			for _, wire := range []bool{false, true} {
				if err := c11CheckDecode(id, a, wire); err != nil {
					return probe.Fail("%v", err)
				}
			}
		}
	}
	return probe.Outcome{NonTrivial: true}
})

func c11AttrClasses() []c11Attr {
	out := []c11Attr{{Class: "absent"}}
	for _, v := range []uint16{0, 1, 64, 127, 128, 129, 191, 192, 193, 255, 256, 257, 512, 1024, 32768, 65535} {
		out = append(out, c11Attr{Class: "tv", Type: 14, Value: v})
	}
	for _, ty := range []uint16{0, 1, 13, 15, 14 + 128, 14 + 256, 14 + 1024, 14 | 0x4000, 0x7fff, 0x3f8e, 0x7f0e} {
		for _, v := range []uint16{128, 256} {
			out = append(out, c11Attr{Class: "tv", Type: ty, Value: v})
		}
	}
	for _, v := range []uint16{128, 192, 256} {
		out = append(out, c11Attr{Class: "tlv", Type: 14, Var: model.Bytes{byte(v >> 8), byte(v)}})
	}
	for _, n := range []int{16, 24, 32, 128, 192, 256} {
		out = append(out, c11Attr{Class: "tlv", Type: 14, Var: make(model.Bytes, n)})
	}
	out = append(out, c11Attr{Class: "tlv", Type: 14, Var: model.Bytes{128}}, c11Attr{Class: "tlv", Type: 15, Var: model.Bytes{1, 0}}, c11Attr{Class: "tlv", Type: 142, Var: model.Bytes{0, 128}})
	return out
}

// the exhaustive table: identifiers x attribute classes x 7 decode functions, directly and via the wire
var c11Table = probe.Define("C11", "table", func(t *rapid.T) c11In { panic("enumerated") }, func(in c11In) probe.Outcome {
	adv := false
	for _, id := range in.IDs {
		for _, a := range in.Attrs {
			for _, wire := range []bool{false, true} {
				if err := c11CheckDecode(id, a, wire); err != nil {
					return probe.Fail("%v", err)
				}
			}
		}
		if id <= 14 {
			adv = true
		}
	}
	return probe.Outcome{NonTrivial: adv || len(in.Attrs) > 1, Counts: map[string]int{"(identifier, attribute, path) triples x 7 decode functions": 2 * len(in.IDs) * len(in.Attrs)}}
})

var c11KeyLen = probe.Define("C11", "keylength", func(t *rapid.T) c11In { panic("enumerated") }, func(in c11In) probe.Outcome {
	for _, id := range in.IDs {
		for _, a := range in.Attrs {
			for _, wire := range []bool{false, true} {
				if err := c11CheckDecode(id, a, wire); err != nil {
					return probe.Fail("%v", err)
				}
			}
		}
	}
	return probe.Outcome{NonTrivial: true}
})

// the same without the wire round trip (for the sweeps over neighbouring identifiers)
var c11KeyLenNear = probe.Define("C11", "keylength-near", func(t *rapid.T) c11In { panic("enumerated") }, func(in c11In) probe.Outcome {
	for _, id := range in.IDs {
		for _, a := range in.Attrs {
			if err := c11CheckDecode(id, a, false); err != nil {
				return probe.Fail("%v", err)
			}
		}
	}
	return probe.Outcome{NonTrivial: true}
})

// --- advertised algorithms and proposals ---

type c11AdvIn struct {
	Suite bridge.SuiteSel `json:"suite"`
	ESN   bool            `json:"esn"`
	Child bool            `json:"child"`
	NoInt bool            `json:"child_without_integrity"`
	NoDH  bool            `json:"child_without_dh"`
}

var c11Advertised = probe.Define("C11", "advertised", func(t *rapid.T) c11AdvIn { panic("enumerated") }, func(in c11AdvIn) probe.Outcome {
	s := in.Suite
	eName, iName, pName, dName := ref.Encrs[s.Encr].Name, ref.Integs[s.Integ].Name, ref.Prfs[s.Prf].Name, ref.DHs[s.DH].Name
	if !in.Child {
		sa := newInfoSA(s)
		if sa.EncrInfo == nil || sa.IntegInfo == nil || sa.PrfInfo == nil || sa.DhInfo == nil {
			return probe.Fail("StrToType does not know an advertised name (%s %s %s %s)", eName, iName, pName, dName)
		}
		if sa.EncrInfo.GetKeyLength() != ref.Encrs[s.Encr].KeyLen || sa.EncrInfo.TransformID() != 12 ||
			sa.IntegInfo.GetKeyLength() != ref.Integs[s.Integ].KeyLen || sa.IntegInfo.GetOutputLength() != ref.Integs[s.Integ].OutLen || sa.IntegInfo.TransformID() != ref.Integs[s.Integ].ID ||
			sa.PrfInfo.GetKeyLength() != ref.Prfs[s.Prf].KeyLen || sa.PrfInfo.GetOutputLength() != ref.Prfs[s.Prf].KeyLen || sa.PrfInfo.TransformID() != ref.Prfs[s.Prf].ID ||
			sa.DhInfo.TransformID() != ref.DHs[s.DH].ID {
			return probe.Fail("descriptor lengths/identifiers differ from the RFC table for %s %s %s %s", eName, iName, pName, dName)
		}
		// The transforms the library hands out are the caller's: it edits one (offers another key size in a copy of its own
		// making) - the next conversion of the same algorithm is unaffected.
		if err := probe.Try(func() error {
			t1, e := encr.ToTransform(sa.EncrInfo)
			if e != nil {
				return e
			}
			t1.AttributeValue ^= 0x0180
			t1.TransformID, t1.AttributePresent = 3, !t1.AttributePresent
			t2, e := encr.ToTransform(sa.EncrInfo)
			if e != nil {
				return e
			}
			if back := encr.DecodeTransform(t2); back == nil || back.TransformID() != sa.EncrInfo.TransformID() || back.GetKeyLength() != sa.EncrInfo.GetKeyLength() {
				return fmt.Errorf("after the caller edited a transform it had been handed, the next conversion of %s gives another algorithm or key size", eName)
			}
			for _, pair := range [][2]*message.Transform{{integ.ToTransform(sa.IntegInfo), nil}, {prf.ToTransform(sa.PrfInfo), nil}, {dh.ToTransform(sa.DhInfo), nil}} {
				pair[0].TransformID ^= 0x7
			}
			if integ.DecodeTransform(integ.ToTransform(sa.IntegInfo)) == nil || prf.DecodeTransform(prf.ToTransform(sa.PrfInfo)) == nil || dh.DecodeTransform(dh.ToTransform(sa.DhInfo)) == nil {
				return fmt.Errorf("after the caller edited transforms it had been handed, the next conversion of the same algorithms is not understood any more")
			}
			return nil
		}); err != nil {
			return probe.Fail("%v", err)
		}
		// every descriptor -> transform -> wire -> descriptor
		var prop *message.Proposal
		if err := probe.Try(func() error { var e error; prop, e = sa.ToProposal(); return e }); err != nil {
			return probe.Fail("ToProposal: %v", err)
		}
		back, err := wireProposal(prop)
		if err != nil {
			return probe.Fail("proposal does not survive the wire: %v", err)
		}
		peer := ref.LeftPad(ref.ModExp(bigTwo, bigTwo, refPrime(s.DH)), ref.DHs[s.DH].Bits/8)
		var got *security.IKESAKey
		if err := probe.Try(func() error {
			var e error
			got, _, e = security.NewIKESAKey(back, peer, []byte("nonces"), 1, 2)
			return e
		}); err != nil {
			return probe.Fail("NewIKESAKey from the library's own proposal: %v", err)
		}
		if got == nil {
			return probe.Fail("NewIKESAKey returned neither an SA nor an error")
		}
		if got.EncrInfo == nil || got.IntegInfo == nil || got.PrfInfo == nil || got.DhInfo == nil ||
			got.EncrInfo.TransformID() != sa.EncrInfo.TransformID() || got.EncrInfo.GetKeyLength() != sa.EncrInfo.GetKeyLength() ||
			got.IntegInfo.TransformID() != sa.IntegInfo.TransformID() || got.IntegInfo.GetKeyLength() != sa.IntegInfo.GetKeyLength() || got.IntegInfo.GetOutputLength() != sa.IntegInfo.GetOutputLength() ||
			got.PrfInfo.TransformID() != sa.PrfInfo.TransformID() || got.PrfInfo.GetKeyLength() != sa.PrfInfo.GetKeyLength() ||
			got.DhInfo.TransformID() != sa.DhInfo.TransformID() {
			return probe.Fail("NewIKESAKey maps the proposal for %s %s %s %s to different algorithms", eName, iName, pName, dName)
		}
		if len(got.SK_ei) != ref.Encrs[s.Encr].KeyLen || len(got.SK_ai) != ref.Integs[s.Integ].KeyLen || len(got.SK_d) != ref.Prfs[s.Prf].KeyLen {
			return probe.Fail("derived key lengths differ from the RFC table")
		}
		if err := c11Hold("NewIKESAKey("+eName+")", 12, ref.Encrs[s.Encr].KeyLen, func() (uint16, int) { return got.EncrInfo.TransformID(), got.EncrInfo.GetKeyLength() }); err != nil {
			return probe.Fail("%v", err)
		}
		// the caller refills ITS proposal value for the next negotiation; the SA still offers what was negotiated for it
		c11Refill(back)
		var again *message.Proposal
		if err := probe.Try(func() error { var e error; again, e = got.ToProposal(); return e }); err != nil {
			return probe.Fail("ToProposal of the SA built from a proposal: %v", err)
		}
		if c11PropIDs(again) != c11PropIDs(prop) {
			return probe.Fail("after the caller reused its Proposal value for another negotiation the SA offers %s, negotiated was %s", c11PropIDs(again), c11PropIDs(prop))
		}
		return probe.OK(true, "ike-proposal")
	}
	// Child SA
	c := &security.ChildSAKey{EncrKInfo: encr.StrToKType(eName)}
	if !in.NoInt {
		c.IntegKInfo = integ.StrToKType(iName)
	}
	if !in.NoDH {
		c.DhInfo = dh.StrToType(dName)
	}
	var err error
	name := "ESN_DISABLE"
	if in.ESN {
		name = "ESN_ENABLE"
	}
	if c.EsnInfo, err = esn.StrToType(name); err != nil {
		return probe.Fail("esn.StrToType(%s): %v", name, err)
	}
	if c.EncrKInfo == nil || (!in.NoInt && c.IntegKInfo == nil) || (!in.NoDH && c.DhInfo == nil) {
		return probe.Fail("StrToKType does not know an advertised name")
	}
	if c.EncrKInfo.GetKeyLength() != ref.Encrs[s.Encr].KeyLen || (!in.NoInt && c.IntegKInfo.GetKeyLength() != ref.Integs[s.Integ].KeyLen) || c.EsnInfo.GetNeedESN() != in.ESN {
		return probe.Fail("child descriptor lengths differ from the RFC table")
	}
	var prop *message.Proposal
	if err := probe.Try(func() error { var e error; prop, e = c.ToProposal(); return e }); err != nil {
		return probe.Fail("ChildSAKey.ToProposal: %v", err)
	}
	back, err := wireProposal(prop)
	if err != nil {
		return probe.Fail("child proposal does not survive the wire: %v", err)
	}
	var got *security.ChildSAKey
	err = probe.Try(func() error { var e error; got, e = security.NewChildSAKeyByProposal(back); return e })
	if probe.IsPanic(err) {
		return probe.Fail("NewChildSAKeyByProposal panics: %v", err)
	}
	if err != nil {
		if in.NoInt {
			// the property does not promise acceptance of a proposal without integrity transform: error or the right mapping
			return probe.OK(true, "child-proposal:no-integrity-refused")
		}
		return probe.Fail("NewChildSAKeyByProposal from the library's own proposal: %v", err)
	}
	if got == nil {
		return probe.Fail("NewChildSAKeyByProposal returned neither an SA nor an error")
	}
	same := got.EncrKInfo != nil && got.EncrKInfo.TransformID() == c.EncrKInfo.TransformID() && got.EncrKInfo.GetKeyLength() == c.EncrKInfo.GetKeyLength() &&
		(got.IntegKInfo == nil) == (c.IntegKInfo == nil) && (got.DhInfo == nil) == (c.DhInfo == nil) && got.EsnInfo.GetNeedESN() == in.ESN
	if same && c.IntegKInfo != nil {
		same = got.IntegKInfo.TransformID() == c.IntegKInfo.TransformID() && got.IntegKInfo.GetKeyLength() == c.IntegKInfo.GetKeyLength()
	}
	if same && c.DhInfo != nil {
		same = got.DhInfo.TransformID() == c.DhInfo.TransformID()
	}
	if !same {
		return probe.Fail("NewChildSAKeyByProposal maps the proposal to different algorithms")
	}
	if err := c11Hold("NewChildSAKeyByProposal("+eName+")", 12, ref.Encrs[s.Encr].KeyLen, func() (uint16, int) { return got.EncrKInfo.TransformID(), got.EncrKInfo.GetKeyLength() }); err != nil {
		return probe.Fail("%v", err)
	}
	// the Child SA is keyed (used) and asked for its proposal again: still the algorithms that were negotiated, nothing that
	// the IKE SA it was keyed from happens to hold
	ikeSA := newInfoSA(bridge.SuiteSel{Encr: (s.Encr + 1) % 3, Integ: (s.Integ + 1) % 3, Prf: s.Prf, DH: 1 - s.DH})
	ikeSA.SK_d = bytes.Repeat([]byte{0x5d}, ref.Prfs[s.Prf].KeyLen)
	ikeSA.Prf_d = ikeSA.PrfInfo.Init(ikeSA.SK_d)
	if err := probe.Try(func() error { return got.GenerateKeyForChildSA(ikeSA, []byte("Ni|Nr")) }); err != nil {
		return probe.Fail("GenerateKeyForChildSA on the negotiated Child SA: %v", err)
	}
	c11Refill(back) // the caller's Proposal value goes into the next negotiation
	var prop2 *message.Proposal
	if err := probe.Try(func() error { var e error; prop2, e = got.ToProposal(); return e }); err != nil {
		return probe.Fail("ToProposal of the keyed Child SA: %v", err)
	}
	if c11PropIDs(prop2) != c11PropIDs(prop) {
		return probe.Fail("after its keys were derived the Child SA offers %s, negotiated was %s", c11PropIDs(prop2), c11PropIDs(prop))
	}
	return probe.OK(true, "child-proposal")
})

// c11PropIDs renders the transforms a proposal offers.
func c11PropIDs(p *message.Proposal) string {
	out := ""
	for _, c := range []message.TransformContainer{p.EncryptionAlgorithm, p.PseudorandomFunction, p.IntegrityAlgorithm, p.DiffieHellmanGroup, p.ExtendedSequenceNumbers} {
		out += "["
		for _, tr := range c {
			out += fmt.Sprintf("%d/%d/%v/%d ", tr.TransformType, tr.TransformID, tr.AttributePresent, tr.AttributeValue)
		}
		out += "]"
	}
	return out
}

// c11Refill: the caller uses its Proposal value again for the next negotiation (another suite: every transform it holds is
// rewritten in place and the lists are replaced) - it was an argument, it belongs to the caller.
func c11Refill(p *message.Proposal) {
	for _, c := range []message.TransformContainer{p.EncryptionAlgorithm, p.PseudorandomFunction, p.IntegrityAlgorithm, p.DiffieHellmanGroup, p.ExtendedSequenceNumbers} {
		for _, tr := range c {
			tr.TransformID ^= 0x0101
			tr.AttributeValue ^= 0x0180
			tr.AttributePresent = !tr.AttributePresent
		}
	}
	p.EncryptionAlgorithm = message.TransformContainer{{TransformType: 1, TransformID: 3}}
	p.PseudorandomFunction = message.TransformContainer{{TransformType: 2, TransformID: 1}}
	p.IntegrityAlgorithm = nil
	p.DiffieHellmanGroup = message.TransformContainer{{TransformType: 4, TransformID: 5}}
	p.ExtendedSequenceNumbers = nil
	p.ProposalNumber, p.ProtocolID, p.SPI = 9, 2, []byte{1, 2, 3, 4}
}

// Two negotiations in flight: the descriptors obtained for the first one must still describe it after the second one has
// been decoded (enumerated: every ordered pair of advertised encryption key sizes x every path to a descriptor).
type c11PairIn struct {
	First  int    `json:"first_encr"`  // index into the three AES key sizes
	Second int    `json:"second_encr"` // likewise
	Path   string `json:"path"`        // decode | decode-child | ike-proposal | child-proposal
	Wire   bool   `json:"via_wire"`
}

func c11Descriptor(i int, path string, wire bool) (func() (uint16, int), error) {
	bits := uint16(ref.Encrs[i].KeyLen * 8)
	tr := &message.Transform{TransformType: 1, TransformID: 12, AttributePresent: true, AttributeFormat: message.AttributeFormatUseTV, AttributeType: 14, AttributeValue: bits}
	var err error
	if wire {
		if tr, err = wireTransform(tr); err != nil {
			return nil, fmt.Errorf("HARNESS/wire: %v", err)
		}
	}
	switch path {
	case "decode":
		d := encr.DecodeTransform(tr)
		if d == nil {
			return nil, fmt.Errorf("encr.DecodeTransform: AES-CBC-%d reported unsupported", bits)
		}
		return func() (uint16, int) { return d.TransformID(), d.GetKeyLength() }, nil
	case "decode-child":
		d := encr.DecodeTransformChildSA(tr)
		if d == nil {
			return nil, fmt.Errorf("encr.DecodeTransformChildSA: AES-CBC-%d reported unsupported", bits)
		}
		return func() (uint16, int) { return d.TransformID(), d.GetKeyLength() }, nil
	case "ike-proposal":
		sa := newInfoSA(bridge.SuiteSel{Encr: i, Integ: i % 3, Prf: (i + 1) % 3, DH: 0})
		prop, err := sa.ToProposal()
		if err != nil {
			return nil, fmt.Errorf("ToProposal: %v", err)
		}
		if wire {
			if prop, err = wireProposal(prop); err != nil {
				return nil, fmt.Errorf("HARNESS/wire: %v", err)
			}
		}
		peer := ref.LeftPad(ref.ModExp(bigTwo, bigTwo, refPrime(0)), ref.DHs[0].Bits/8)
		got, _, err := security.NewIKESAKey(prop, peer, []byte("nonces"), 1, 2)
		if err != nil || got == nil || got.EncrInfo == nil {
			return nil, fmt.Errorf("NewIKESAKey: %v", err)
		}
		return func() (uint16, int) { return got.EncrInfo.TransformID(), got.EncrInfo.GetKeyLength() }, nil
	default:
		c := &security.ChildSAKey{EncrKInfo: encr.StrToKType(ref.Encrs[i].Name), IntegKInfo: integ.StrToKType(ref.Integs[i%3].Name)}
		c.EsnInfo, _ = esn.StrToType("ESN_DISABLE")
		prop, err := c.ToProposal()
		if err != nil {
			return nil, fmt.Errorf("ChildSAKey.ToProposal: %v", err)
		}
		if wire {
			if prop, err = wireProposal(prop); err != nil {
				return nil, fmt.Errorf("HARNESS/wire: %v", err)
			}
		}
		got, err := security.NewChildSAKeyByProposal(prop)
		if err != nil || got == nil || got.EncrKInfo == nil {
			return nil, fmt.Errorf("NewChildSAKeyByProposal: %v", err)
		}
		return func() (uint16, int) { return got.EncrKInfo.TransformID(), got.EncrKInfo.GetKeyLength() }, nil
	}
}

var c11Pairs = probe.Define("C11", "pairs", func(t *rapid.T) c11PairIn { panic("enumerated") }, func(in c11PairIn) probe.Outcome {
	var first, second func() (uint16, int)
	if err := probe.Try(func() error {
		var e error
		if first, e = c11Descriptor(in.First, in.Path, in.Wire); e != nil {
			return e
		}
		second, e = c11Descriptor(in.Second, in.Path, in.Wire)
		return e
	}); err != nil {
		return probe.Fail("%v", err)
	}
	id1, kl1 := first()
	id2, kl2 := second()
	if id1 != 12 || kl1 != ref.Encrs[in.First].KeyLen {
		return probe.Fail("the descriptor obtained for AES-CBC with %d-octet keys reports id %d / %d octets once a second negotiation (%d-octet keys) has been decoded",
			ref.Encrs[in.First].KeyLen, id1, kl1, ref.Encrs[in.Second].KeyLen)
	}
	if id2 != 12 || kl2 != ref.Encrs[in.Second].KeyLen {
		return probe.Fail("the second descriptor (AES-CBC with %d-octet keys) reports id %d / %d octets", ref.Encrs[in.Second].KeyLen, id2, kl2)
	}
	return probe.OK(in.First != in.Second, "pairs:"+in.Path)
})

// names the library does not advertise are answered with "no such algorithm" - a nil descriptor (an error for ESN) -, never
// with a descriptor of some other algorithm and never with a value that claims to be present but cannot be used
type c11NameIn struct {
	Name string `json:"name"`
}

var c11Names = probe.Define("C11", "unknown-names", func(t *rapid.T) c11NameIn { panic("enumerated") }, func(in c11NameIn) probe.Outcome {
	var bad string
	if err := probe.Try(func() error {
		if d := encr.StrToType(in.Name); d != nil {
			bad = fmt.Sprintf("encr.StrToType -> id %d, %d-octet keys", d.TransformID(), d.GetKeyLength())
		} else if d := encr.StrToKType(in.Name); d != nil {
			bad = fmt.Sprintf("encr.StrToKType -> id %d", d.TransformID())
		} else if d := integ.StrToType(in.Name); d != nil {
			bad = fmt.Sprintf("integ.StrToType -> id %d", d.TransformID())
		} else if d := integ.StrToKType(in.Name); d != nil {
			bad = fmt.Sprintf("integ.StrToKType -> id %d", d.TransformID())
		} else if d := prf.StrToType(in.Name); d != nil {
			bad = fmt.Sprintf("prf.StrToType -> id %d", d.TransformID())
		} else if d := dh.StrToType(in.Name); d != nil {
			bad = fmt.Sprintf("dh.StrToType -> id %d", d.TransformID())
		} else if d, err := esn.StrToType(in.Name); err == nil {
			bad = fmt.Sprintf("esn.StrToType -> %v without error", d)
		}
		return nil
	}); err != nil {
		return probe.Fail("looking up the unknown name %q yields a descriptor that is not nil but cannot be used: %v", in.Name, err)
	}
	if bad != "" {
		return probe.Fail("the name %q is not advertised, yet %s", in.Name, bad)
	}
	return probe.OK(true, "unknown-names")
})

// proposals whose first transform of some type is unsupported / ill-attributed must not yield an SA
type c11BadIn struct {
	Which string  `json:"which"` // encr | integ | prf | dh | esn
	ID    uint16  `json:"id"`
	Attr  c11Attr `json:"attr"`
	Child bool    `json:"child"`
	Wire  bool    `json:"via_wire"`
	// Proto: protocol id carried by the proposal (0 = leave what ToProposal set); a proposal is judged by its transforms
	// whatever protocol it is for
	Proto uint8 `json:"protocol_id,omitempty"`
}

var c11Bad = probe.Define("C11", "bad-proposal", func(t *rapid.T) c11BadIn {
	in := c11BadIn{Which: rapid.SampledFrom([]string{"encr", "encr", "integ", "prf", "dh", "esn"}).Draw(t, "which"), Child: rapid.Bool().Draw(t, "child"), Wire: rapid.Bool().Draw(t, "wire")}
	in.ID = rapid.Uint16().Draw(t, "id")
	if rapid.Bool().Draw(t, "nearid") {
		in.ID = rapid.SampledFrom([]uint16{0, 1, 2, 3, 4, 5, 6, 11, 12, 13, 14, 15, 268, 0x0c00}).Draw(t, "id2")
	}
	in.Attr = rapid.SampledFrom(c11AttrClasses()).Draw(t, "attr")
	if rapid.IntRange(0, 2).Draw(t, "proto") == 2 {
		in.Proto = rapid.SampledFrom([]uint8{1, 2, 3, 4, 255}).Draw(t, "protoid")
	}
	return in
}, func(in c11BadIn) probe.Outcome {
	// is the altered transform supported according to the reference mapping?
	keyLenOK := in.Attr.Class == "tv" && in.Attr.Type == 14 && (in.Attr.Value == 128 || in.Attr.Value == 192 || in.Attr.Value == 256)
	supported := false
	switch in.Which {
	case "encr":
		supported = in.ID == 12 && keyLenOK
	case "integ":
		supported = in.ID == 1 || in.ID == 2 || in.ID == 12
	case "prf":
		supported = in.ID == 1 || in.ID == 2 || in.ID == 5
	case "dh":
		supported = in.ID == 2 || in.ID == 14
	case "esn":
		supported = in.ID <= 1
	}
	s := bridge.SuiteSel{Encr: 1, Integ: 1, Prf: 2, DH: 1}
	var prop *message.Proposal
	var err error
	if in.Child {
		if in.Which == "prf" {
			return probe.OK(false, "n/a")
		}
		c := &security.ChildSAKey{EncrKInfo: encr.StrToKType(ref.Encrs[1].Name), IntegKInfo: integ.StrToKType(ref.Integs[1].Name), DhInfo: dh.StrToType(ref.DHs[1].Name)}
		c.EsnInfo, _ = esn.StrToType("ESN_DISABLE")
		prop, err = c.ToProposal()
	} else {
		if in.Which == "esn" {
			return probe.OK(false, "n/a")
		}
		prop, err = newInfoSA(s).ToProposal()
	}
	if err != nil {
		return probe.Fail("ToProposal: %v", err)
	}
	bad := &message.Transform{TransformID: in.ID}
	in.Attr.apply(bad)
	switch in.Which {
	case "encr":
		bad.TransformType = 1
		prop.EncryptionAlgorithm = message.TransformContainer{bad}
	case "integ":
		bad.TransformType = 3
		prop.IntegrityAlgorithm = message.TransformContainer{bad}
	case "prf":
		bad.TransformType = 2
		prop.PseudorandomFunction = message.TransformContainer{bad}
	case "dh":
		bad.TransformType = 4
		prop.DiffieHellmanGroup = message.TransformContainer{bad}
	case "esn":
		bad.TransformType = 5
		prop.ExtendedSequenceNumbers = message.TransformContainer{bad}
	}
	if in.Proto != 0 {
		prop.ProtocolID = in.Proto
	}
	if in.Wire {
		if prop, err = wireProposal(prop); err != nil {
			return probe.Fail("HARNESS/wire: %v", err)
		}
	}
	var gotI *security.IKESAKey
	var gotC *security.ChildSAKey
	err = probe.Try(func() error {
		var e error
		if in.Child {
			gotC, e = security.NewChildSAKeyByProposal(prop)
		} else {
			peer := ref.LeftPad(bigTwo, 256)
			gotI, _, e = security.NewIKESAKey(prop, peer, []byte("nonces"), 1, 2)
		}
		return e
	})
	if probe.IsPanic(err) {
		return probe.Fail("building an SA from a proposal with %s id %d attr %+v panics: %v", in.Which, in.ID, in.Attr, err)
	}
	if !supported {
		if err == nil || gotI != nil || gotC != nil {
			return probe.Fail("an SA was built from a proposal whose %s transform (id %d, attr %+v, child=%v, via wire=%v) is not supported", in.Which, in.ID, in.Attr, in.Child, in.Wire)
		}
		return probe.OK(true, "unsupported:"+in.Which)
	}
	if err != nil {
		// supported identifiers with a foreign attribute may be refused; never mis-mapped
		return probe.OK(false, "supported-but-refused:"+in.Which)
	}
	if (in.Child && gotC == nil) || (!in.Child && gotI == nil) {
		return probe.Fail("neither an SA nor an error was returned for a proposal with %s id %d", in.Which, in.ID)
	}
	// accepted: the mapping must be the right one
	if !in.Child {
		switch in.Which {
		case "encr":
			if gotI.EncrInfo.GetKeyLength() != int(in.Attr.Value)/8 {
				return probe.Fail("key size mis-mapped")
			}
		case "integ":
			if gotI.IntegInfo.TransformID() != in.ID {
				return probe.Fail("integrity algorithm mis-mapped")
			}
		case "prf":
			if gotI.PrfInfo.TransformID() != in.ID {
				return probe.Fail("prf mis-mapped")
			}
		case "dh":
			if gotI.DhInfo.TransformID() != in.ID {
				return probe.Fail("dh group mis-mapped")
			}
		}
	} else {
		switch in.Which {
		case "encr":
			if gotC.EncrKInfo.GetKeyLength() != int(in.Attr.Value)/8 {
				return probe.Fail("child key size mis-mapped")
			}
		case "integ":
			if gotC.IntegKInfo.TransformID() != in.ID {
				return probe.Fail("child integrity algorithm mis-mapped")
			}
		case "dh":
			if gotC.DhInfo.TransformID() != in.ID {
				return probe.Fail("child dh group mis-mapped")
			}
		case "esn":
			if gotC.EsnInfo.TransformID() != in.ID {
				return probe.Fail("ESN mis-mapped")
			}
		}
	}
	return probe.OK(true, "supported:"+in.Which)
})

func TestC11(t *testing.T) {
	c := probe.NewCtx(t, "C11")
	if c.Shard == 0 {
		// all single-choice proposals from the advertised set
		for e := 0; e < 3; e++ {
			for i := 0; i < 3; i++ {
				for p := 0; p < 3; p++ {
					for d := 0; d < 2; d++ {
						c11Advertised.Eval(c, c11AdvIn{Suite: bridge.SuiteSel{Encr: e, Integ: i, Prf: p, DH: d}})
					}
				}
				for d := 0; d < 2; d++ {
					for _, es := range []bool{false, true} {
						for _, noint := range []bool{false, true} {
							for _, nodh := range []bool{false, true} {
								c11Advertised.Eval(c, c11AdvIn{Suite: bridge.SuiteSel{Encr: e, Integ: i, DH: d}, ESN: es, Child: true, NoInt: noint, NoDH: nodh})
							}
						}
					}
				}
			}
		}
		c.Exhaustive("advertised")
	}
	// all 65536 identifiers x attribute classes (thorough: everything; quick: boundary identifiers)
	attrs := c11AttrClasses()
	var ids []uint16
	if c.Thorough() {
		for id := c.Shard; id < 65536; id += 16 {
			ids = append(ids, uint16(id))
		}
	} else {
		for id := 0; id <= 40; id++ {
			ids = append(ids, uint16(id))
		}
		ids = append(ids, 127, 128, 140, 255, 256, 257, 268, 270, 0x0c00, 0x0c0c, 0x0e00, 0x7fff, 0x8000, 0x8000|12, 0x8000|14, 65534, 65535)
	}
	for i := 0; i < len(ids); i += 8 {
		j := i + 8
		if j > len(ids) {
			j = len(ids)
		}
		if !c11Table.Eval(c, c11In{IDs: ids[i:j], Attrs: attrs}) && c.Failures() > 5 {
			break
		}
	}
	if c.Thorough() && c.Failures() == 0 {
		c.Exhaustive("table")
	}
	// every value of the key-length attribute for the AES-CBC identifier (wrap-arounds, non-multiples of 8 ...), direct and via the wire
	if c.Shard == 0 {
		for v := 0; v < 65536; v += 64 {
			var attrs []c11Attr
			for k := 0; k < 64; k++ {
				attrs = append(attrs, c11Attr{Class: "tv", Type: 14, Value: uint16(v + k)})
			}
			if !c11KeyLen.Eval(c, c11In{IDs: []uint16{12}, Attrs: attrs}) && c.Failures() > 5 {
				break
			}
		}
		// ... and for the identifiers next to it (a lookup keyed on a COMBINATION of identifier and key length can collide:
		// id 11 with key length 1128, id 10 with 2128, ...): every key-length value, directly; more identifiers in the thorough tier
		near := []uint16{10, 11, 13, 14}
		if c.Thorough() {
			near = []uint16{0, 1, 2, 3, 4, 5, 6, 7, 8, 9, 10, 11, 13, 14, 15, 16, 17, 18, 19, 20, 23, 24, 25, 28, 31, 32, 64, 65, 255, 256, 268, 1024}
		}
		for _, id := range near {
			for v := 0; v < 65536 && c.Failures() <= 5; v += 512 {
				var attrs []c11Attr
				for k := 0; k < 512; k++ {
					attrs = append(attrs, c11Attr{Class: "tv", Type: 14, Value: uint16(v + k)})
				}
				c11KeyLenNear.Eval(c, c11In{IDs: []uint16{id}, Attrs: attrs})
			}
		}
		if c.Failures() == 0 {
			c.Exhaustive("keylength")
		}
	}
	if c.Shard == 0 {
		for _, n := range []string{"", "bogus", "ENCR_AES_CBC_512", "ENCR_AES_CBC", "AUTH_HMAC_SHA2_512_256", "PRF_HMAC_SHA2_512", "DH_4096_BIT_MODP", "ESN",
			"encr_aes_cbc_128", "auth_hmac_sha1_96", "prf_hmac_sha1", "ENCR_AES_CBC_128 ", " AUTH_HMAC_MD5_96", "PRF_HMAC_SHA1\x00", "DH_1024_BIT_MODP\n", "ESN_ENABLED"} {
			c11Names.Eval(c, c11NameIn{Name: n})
		}
		for _, path := range []string{"decode", "decode-child", "ike-proposal", "child-proposal"} {
			for _, wire := range []bool{false, true} {
				for a := 0; a < 3; a++ {
					for b := 0; b < 3; b++ {
						c11Pairs.Eval(c, c11PairIn{First: a, Second: b, Path: path, Wire: wire})
					}
				}
			}
		}
		if c.Failures() == 0 {
			c.Exhaustive("pairs")
		}
	}
	c11Decode.Run(c, t, c.N(300, 2000))
	c11Bad.Run(c, t, c.N(1500, 10000))
}
