package props

import (
	"testing"

	"github.com/free5gc/ike/message"
	"pgregory.net/rapid"

	"verif/bridge"
	"verif/gen"
	"verif/model"
	"verif/probe"
	"verif/ref"
)

// C03 — plain message codec round trip (value -> wire -> value).

type c03In struct {
	Msg model.Message `json:"msg"`
}

var c03RoundTrip = probe.Define("C03", "roundtrip",
	func(t *rapid.T) c03In { return c03In{Msg: gen.Message(t, gen.Opts{})} },
	func(in c03In) probe.Outcome {
		w, _, err := libEncode(in.Msg)
		if err != nil {
			return probe.Fail("%v", err)
		}
		got, dm, err := libDecode(w)
		if err != nil {
			return probe.Fail("decoding the encoding failed: %v", err)
		}
		if d := model.Diff(in.Msg, got); d != "" {
			return probe.Fail("decode(encode(m)) != m: %s", d)
		}
		first := uint8(0)
		if len(in.Msg.Payloads) > 0 {
			first = ref.PayloadType(in.Msg.Payloads[0])
		}
		if dm.NextPayload != first {
			return probe.Fail("decoded header NextPayload = %d, first payload has type %d", dm.NextPayload, first)
		}
		// The decoded message is the receiver's own. It answers with it: the header fields are edited in the decoded object (the
		// other direction, the next message id, another exchange type) and it is sent; and the payload list is handed to a NEW
		// message with that header. Both encode to the edited header followed by the same payloads.
		h2 := in.Msg.Header
		h2.ISPI, h2.RSPI = h2.RSPI, h2.ISPI+1
		h2.Flags ^= 0x28
		h2.MsgID += 0x01000001
		h2.Exchange ^= 3
		h2.Major, h2.Minor = h2.Minor, h2.Major
		// ... and it edits the proposals it received before it sends them back: every transform attribute that came in the
		// fixed-size (TV) format is changed to the variable-size format and vice versa, by setting the format and the field that
		// goes with it - the field of the other format keeps the old value, as it does in any such edit.
		wantPayloads := in.Msg.Payloads
		{
			edited := false
			var out []model.Payload
			for pi, p := range in.Msg.Payloads {
				lsa, ok := dm.Payloads[pi].(*message.SecurityAssociation)
				if p.SA == nil || !ok || model.PayloadSize(p) > 55000 {
					out = append(out, p)
					continue
				}
				sa := &model.SA{}
				for _, pr := range p.SA.Proposals {
					npr := pr
					npr.Transforms = nil
					for _, tr := range pr.Transforms {
						if tr.Attr != nil {
							a := *tr.Attr
							if a.TV {
								a = model.Attr{TV: false, Type: a.Type, Var: model.Bytes{byte(a.Value >> 8), byte(a.Value), 0x99}}
							} else {
								a = model.Attr{TV: true, Type: a.Type, Value: 0x1234}
							}
							tr.Attr = &a
							edited = true
						}
						npr.Transforms = append(npr.Transforms, tr)
					}
					sa.Proposals = append(sa.Proposals, npr)
				}
				for _, lpr := range lsa.Proposals {
					for _, c := range []message.TransformContainer{lpr.EncryptionAlgorithm, lpr.PseudorandomFunction, lpr.IntegrityAlgorithm, lpr.DiffieHellmanGroup, lpr.ExtendedSequenceNumbers} {
						for _, lt := range c {
							if !lt.AttributePresent {
								continue
							}
							if lt.AttributeFormat == message.AttributeFormatUseTV {
								lt.AttributeFormat = message.AttributeFormatUseTLV
								lt.VariableLengthAttributeValue = []byte{byte(lt.AttributeValue >> 8), byte(lt.AttributeValue), 0x99}
							} else {
								lt.AttributeFormat = message.AttributeFormatUseTV
								lt.AttributeValue = 0x1234
							}
						}
					}
				}
				out = append(out, model.Payload{Kind: model.KSA, SA: sa})
			}
			if edited {
				wantPayloads = out
			}
		}
		shell, err := bridge.ToLib(model.Message{Header: h2})
		if err != nil {
			return probe.Fail("HARNESS: %v", err)
		}
		shell.Payloads = dm.Payloads
		dm.InitiatorSPI, dm.ResponderSPI, dm.Flags, dm.MessageID, dm.ExchangeType = h2.ISPI, h2.RSPI, h2.Flags, h2.MsgID, h2.Exchange
		dm.MajorVersion, dm.MinorVersion = h2.Major, h2.Minor
		for i, x := range []*message.IKEMessage{dm, shell} {
			var w2 []byte
			if err := probe.Try(func() error { var e error; w2, e = x.Encode(); return e }); err != nil {
				return probe.Fail("encoding the decoded message with edited header fields (variant %d): %v", i, err)
			}
			pm, perr := ref.ParseMessage(w2, ref.Parse{Strict: true})
			if perr != nil {
				return probe.Fail("the decoded message with edited header fields (variant %d) encodes to something that is not well-formed: %v", i, perr)
			}
			if d := model.Diff(model.Message{Header: h2, Payloads: wantPayloads}, pm); d != "" {
				return probe.Fail("the decoded message, its header fields edited by the receiver (variant %d: 0 = in place, 1 = payload list moved into a new message), encodes to: %s", i, d)
			}
		}
		return probe.Outcome{NonTrivial: len(in.Msg.Payloads) > 0, Labels: in.Msg.Labels()}
	})

// the payload chain alone, through IKEPayloadContainer.Encode / Decode
var c03Container = probe.Define("C03", "container",
	func(t *rapid.T) c03In { return c03In{Msg: model.Message{Payloads: gen.Payloads(t, gen.Opts{})}} },
	func(in c03In) probe.Outcome {
		ps, err := bridge.ToLibPayloads(in.Msg.Payloads)
		if err != nil {
			return probe.Fail("building the library payloads: %v", err)
		}
		var w []byte
		if err := probe.Try(func() error { var e error; w, e = ps.Encode(); return e }); err != nil {
			return probe.Fail("container Encode: %v", err)
		}
		first := uint8(0)
		if len(in.Msg.Payloads) > 0 {
			first = ref.PayloadType(in.Msg.Payloads[0])
		}
		var back message.IKEPayloadContainer
		if err := probe.Try(func() error { return back.Decode(first, probe.Exact(w)) }); err != nil {
			return probe.Fail("container Decode of its own encoding: %v", err)
		}
		var got []model.Payload
		if err := probe.Try(func() error { var e error; got, e = bridge.FromLibPayloads(back); return e }); err != nil {
			return probe.Fail("reading decoded payloads: %v", err)
		}
		if d := model.DiffPayloads(in.Msg.Payloads, got); d != "" {
			return probe.Fail("container decode(encode(ps)) != ps: %s", d)
		}
		return probe.Outcome{NonTrivial: len(in.Msg.Payloads) > 0, Labels: in.Msg.Labels()}
	})

func TestC03(t *testing.T) {
	c := probe.NewCtx(t, "C03")
	if c.Shard == 0 {
		endurance(c, "C03", "decode", 1100000)
	}
	runIDSweep(c, func(m model.Message) bool { return c03RoundTrip.Eval(c, c03In{Msg: m}) })
	c03RoundTrip.Run(c, t, c.N(4000, 40000))
	c03Container.Run(c, t, c.N(1500, 10000))
}
