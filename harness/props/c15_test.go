package props

import (
	"bytes"
	"fmt"
	"testing"

	"github.com/free5gc/ike/eap"
	"pgregory.net/rapid"

	"verif/bridge"
	"verif/gen"
	"verif/model"
	"verif/probe"
	"verif/ref"
)

// C15 — EAP-AKA' AT_MAC is HMAC-SHA-256-128 over the packet as sent; both ends agree.

type c15In struct {
	Key     model.Bytes `json:"k_aut"`
	EAP     model.EAP   `json:"eap"`      // AKA' packet (AT_MAC value, if present, is the "previous" value)
	PrevMAC model.Bytes `json:"prev_mac"` // a second, different previous AT_MAC value (16 octets) or empty = attribute absent
	// RefBuilt: the transmitted packet is produced by the reference encoder with the attributes in wire order Order
	RefBuilt bool  `json:"ref_built"`
	Order    []int `json:"order,omitempty"`
	// MoreKDF: further AT_KDF attributes of a ref-built packet (RFC 5448 3.2: a Challenge lists several KDF offers, one
	// AT_KDF each, in preference order), appended to EAP.Attrs before Order is applied
	MoreKDF []model.Bytes `json:"more_kdf,omitempty"`
	// ResBitsLess (ref-built, 0..7): the RES length field says this many bits less than the octets carry (RFC 4187 10.8: the
	// length of RES is counted in bits; it need not be a multiple of 8)
	ResBitsLess int `json:"res_bits_less,omitempty"`
	// LockStep (ref-built): a second, different packet is decoded and its code computed between two computations on this one
	LockStep bool `json:"two_packets_in_lock_step,omitempty"`
	// Generic: further attributes of a ref-built packet whose types the library has no special case for (value = the 4L-2 octets
	// behind the length octet); several large ones make the packet exceed one 4096-octet buffer fill of a buffered reader
	Generic []model.AkaAttr `json:"generic_attributes,omitempty"`
	// EAPLib: reserved octets chosen by the independent encoder (zero unless LibReserved)
	AllOctets bool `json:"every_single_octet_change"`
}

func refMAC(key, w []byte) ([]byte, error) {
	off, n, ok := ref.AkaAttrSpan(w, model.AT_MAC)
	if !ok || n != 16 {
		return nil, fmt.Errorf("no AT_MAC in the packet")
	}
	z := append([]byte(nil), w...)
	for i := 0; i < 16; i++ {
		z[off+i] = 0
	}
	return ref.HMAC(ref.SHA256, key, z)[:16], nil
}

func libCalc(e *eap.EAP, key []byte) (mac []byte, err error) {
	err = probe.Try(func() error { var x error; mac, x = e.CalcEapAkaPrimeAtMAC(append([]byte(nil), key...)); return x })
	return
}

// receiverVerdict decodes w and reports the carried AT_MAC and the value the receiver computes.
func receiverVerdict(w, key []byte) (carried, computed []byte, err error) {
	r := new(eap.EAP)
	if len(w) >= 8 && w[4] == 50 && w[1]%4 == 3 && int(w[2])<<8|int(w[3]) == len(w) {
		// the receiver reads the four header octets itself and hands the rest (type octet onwards) to the method's own decoder
		inner := new(eap.EapAkaPrime)
		if err = probe.Try(func() error { return inner.Unmarshal(probe.Exact(w[4:])) }); err != nil {
			return nil, nil, err
		}
		r = &eap.EAP{Code: eap.EapCode(w[0]), Identifier: w[1], EapTypeData: inner}
	} else if err = probe.Try(func() error { return r.Unmarshal(probe.Exact(w)) }); err != nil {
		return nil, nil, err
	}
	ak, ok := r.EapTypeData.(*eap.EapAkaPrime)
	if !ok {
		return nil, nil, fmt.Errorf("not an AKA' packet after decoding")
	}
	a, gerr := ak.GetAttr(eap.AT_MAC)
	if gerr != nil {
		return nil, nil, fmt.Errorf("no AT_MAC after decoding: %v", gerr)
	}
	view := a.GetValue() // what a receiver holds on to: the value as the getter hands it out
	carried = append([]byte(nil), view...)
	defer func() {
		// ... and compares with what it computes: computing the code has not changed the value it fetched before
		if err == nil && !bytes.Equal(view, carried) {
			err = fmt.Errorf("the AT_MAC value fetched from the decoded packet before the computation (%x) reads %x after it: computing the code alters the received value", carried, view)
		}
	}()
	// a receiver may compute the code more than once on the packet it decoded (e.g. first with a stale key): every
	// computation with the same key gives the same value
	wrong := append([]byte{0x77}, key...)
	if _, err = libCalc(r, wrong); err != nil {
		return
	}
	if computed, err = libCalc(r, key); err != nil {
		return
	}
	again, err2 := libCalc(r, key)
	if err2 != nil || !bytes.Equal(again, computed) {
		return carried, computed, fmt.Errorf("two computations of AT_MAC on the same decoded packet with the same key differ: %x vs %x (%v)", computed, again, err2)
	}
	// a setter call that is REFUSED leaves the packet what it was - the packet as received
	if serr := probe.Try(func() error { return ak.SetAttr(eap.AT_RES, []byte{1, 2}) }); serr == nil {
		return carried, computed, fmt.Errorf("SetAttr(AT_RES, 2 octets) was not refused")
	} else if probe.IsPanic(serr) {
		return carried, computed, serr
	}
	again, err2 = libCalc(r, key)
	if err2 != nil || !bytes.Equal(again, computed) {
		return carried, computed, fmt.Errorf("after a REFUSED SetAttr the receiver computes a different AT_MAC for the same decoded packet and key: %x vs %x (%v)", computed, again, err2)
	}
	return
}

func c15Oracle(in c15In) probe.Outcome {
	e := in.EAP
	labels := []string{}
	var w, mac []byte
	if !in.RefBuilt {
		// sender side through the API, with two different previous AT_MAC values
		var macs [2][]byte
		for i, prev := range [][]byte{nil, in.PrevMAC} {
			m := e
			m.Attrs = nil
			for _, a := range e.Attrs {
				if a.Type != model.AT_MAC {
					m.Attrs = append(m.Attrs, a)
				}
			}
			if i == 0 {
				for _, a := range e.Attrs {
					if a.Type == model.AT_MAC {
						m.Attrs = append(m.Attrs, a)
					}
				}
			} else if len(prev) == 16 {
				m.Attrs = append(m.Attrs, model.AkaAttr{Type: model.AT_MAC, Value: prev})
			}
			le, err := bridge.ToLibEAP(m)
			if err != nil {
				return probe.Fail("building the packet: %v", err)
			}
			if macs[i], err = libCalc(le, in.Key); err != nil {
				return probe.Fail("CalcEapAkaPrimeAtMAC: %v", err)
			}
			if len(macs[i]) != 16 {
				return probe.Fail("MAC has %d octets, want 16", len(macs[i]))
			}
			if i == 0 {
				ak := le.EapTypeData.(*eap.EapAkaPrime)
				inPlace := false
				if e.Identifier%2 == 1 {
					// the sender writes the code into the packet's own AT_MAC storage (the value the getter hands out)
					if a, gerr := ak.GetAttr(eap.AT_MAC); gerr == nil && len(a.GetValue()) == 16 {
						copy(a.GetValue(), macs[0])
						// whether the getter hands out the packet's storage or a copy is the library's choice: the packet took
						// the value, or the sender uses the setter after all
						if a2, gerr := ak.GetAttr(eap.AT_MAC); gerr == nil && bytes.Equal(a2.GetValue(), macs[0]) {
							inPlace = true
							labels = append(labels, "mac-filled-in-place")
						}
					}
				}
				if !inPlace {
					if err := probe.Try(func() error { return ak.SetAttr(eap.AT_MAC, macs[0]) }); err != nil {
						return probe.Fail("SetAttr(AT_MAC): %v", err)
					}
				}
				if inPlace {
					// ... which is that packet's storage only: the same packet built again gets the same code
					again, err := bridge.ToLibEAP(m)
					if err != nil {
						return probe.Fail("building the packet: %v", err)
					}
					if m3, err := libCalc(again, in.Key); err != nil || !bytes.Equal(m3, macs[0]) {
						return probe.Fail("after one packet's AT_MAC value was filled in place, the code computed for an identical, separately built packet is %x, not %x (%v): packets share AT_MAC storage", m3, macs[0], err)
					}
				}
				if err := probe.Try(func() error { var x error; w, x = le.Marshal(); return x }); err != nil {
					return probe.Fail("Marshal: %v", err)
				}
			}
		}
		if !bytes.Equal(macs[0], macs[1]) {
			return probe.Fail("the MAC depends on the value AT_MAC held before: %x vs %x", macs[0], macs[1])
		}
		mac = macs[0]
		want, err := refMAC(in.Key, w)
		if err != nil {
			return probe.Fail("transmitted packet: %v", err)
		}
		if !bytes.Equal(mac, want) {
			return probe.Fail("MAC %x is not HMAC-SHA-256-128(K_aut, packet as sent with AT_MAC zeroed) = %x\n packet %x", mac, want, w)
		}
	} else {
		// an independent sender: attributes in arbitrary order, MAC by the reference
		hasMAC := false
		for _, a := range e.Attrs {
			if a.Type == model.AT_MAC {
				hasMAC = true
			}
		}
		if !hasMAC {
			e.Attrs = append(e.Attrs, model.AkaAttr{Type: model.AT_MAC, Value: make(model.Bytes, 16)})
		}
		for _, v := range in.MoreKDF {
			e.Attrs = append(append([]model.AkaAttr(nil), e.Attrs...), model.AkaAttr{Type: model.AT_KDF, Value: v})
		}
		if len(in.MoreKDF) > 0 {
			labels = append(labels, "repeated-AT_KDF")
		}
		if len(in.Generic) > 0 {
			e.Attrs = append(append([]model.AkaAttr(nil), e.Attrs...), in.Generic...)
			labels = append(labels, "generic-attributes")
		}
		order := in.Order
		if len(order) != len(e.Attrs) {
			order = nil
		}
		var err error
		if w, err = ref.EncodeEAPGeneric(e, order); err != nil {
			return probe.Fail("HARNESS: reference EAP encoder: %v", err)
		}
		if in.ResBitsLess > 0 {
			if roff, rn, ok := ref.AkaAttrSpan(w, model.AT_RES); ok && rn >= 4 {
				bits := rn*8 - in.ResBitsLess
				w[roff-2], w[roff-1] = byte(bits>>8), byte(bits)
				labels = append(labels, "res-bit-length-not-a-multiple-of-8")
			}
		}
		if mac, err = refMAC(in.Key, w); err != nil {
			return probe.Fail("HARNESS: %v", err)
		}
		off, _, _ := ref.AkaAttrSpan(w, model.AT_MAC)
		copy(w[off:], mac)
		asc := true
		for i := 1; i < len(order); i++ {
			if e.Attrs[order[i]].Type < e.Attrs[order[i-1]].Type {
				asc = false
			}
		}
		if !asc {
			labels = append(labels, "non-ascending-order")
		}
	}
	// receiver: decodes the transmitted packet and computes the code with the same key
	carried, computed, err := receiverVerdict(w, in.Key)
	if err != nil {
		return probe.Fail("receiver: %v\n packet %x", err, w)
	}
	if !bytes.Equal(carried, mac) {
		return probe.Fail("receiver reads AT_MAC %x, transmitted was %x", carried, mac)
	}
	if !bytes.Equal(computed, mac) {
		return probe.Fail("receiver computes %x for a genuine packet carrying %x (ref-built=%v)\n packet %x", computed, mac, in.RefBuilt, w)
	}
	// two received packets handled in lock step (two sessions, or a retransmission next to its original): computing the code of
	// one does not disturb the other
	if in.LockStep {
		w2 := append([]byte(nil), w...)
		w2[1]++       // another identifier,
		w2[5] ^= 0x21 // another subtype: another packet, of the same size
		mac2, err := refMAC(in.Key, w2)
		if err != nil {
			return probe.Fail("HARNESS: %v", err)
		}
		off2, _, _ := ref.AkaAttrSpan(w2, model.AT_MAC)
		copy(w2[off2:], mac2)
		a, b := new(eap.EAP), new(eap.EAP)
		if err := probe.Try(func() error {
			if e := a.Unmarshal(probe.Exact(w)); e != nil {
				return e
			}
			return b.Unmarshal(probe.Exact(w2))
		}); err != nil {
			return probe.Fail("receiver: %v", err)
		}
		for round, x := range []struct {
			p    *eap.EAP
			want []byte
		}{{a, mac}, {b, mac2}, {a, mac}, {b, mac2}, {a, mac}} {
			got, err := libCalc(x.p, in.Key)
			if err != nil || !bytes.Equal(got, x.want) {
				return probe.Fail("two decoded packets handled in lock step: computation %d gives %x, the packet carries %x (%v)", round+1, got, x.want, err)
			}
		}
		labels = append(labels, "lock-step")
	}
	// a receiver that changes the decoded packet (e.g. to build its answer) gets the MAC of the packet as it is then
	for variant := 0; variant < 2; variant++ {
		r := new(eap.EAP)
		if err := probe.Try(func() error { return r.Unmarshal(probe.Exact(w)) }); err == nil {
			ak := r.EapTypeData.(*eap.EapAkaPrime)
			change := func() error { return ak.SetAttr(eap.AT_KDF, []byte{0x12, 0x34}) }
			if variant == 1 {
				// the receiver sets an attribute to the very value it already holds (it rebuilds the packet from its own state):
				// the packet is now the receiver's own and is sent as the library serialises it
				change = func() error { return ak.SetAttr(eap.AT_MAC, append([]byte(nil), carried...)) }
			}
			if err := probe.Try(change); err == nil {
				m2, err := libCalc(r, in.Key)
				if err != nil {
					return probe.Fail("CalcEapAkaPrimeAtMAC on a modified decoded packet: %v", err)
				}
				var w2 []byte
				if err := probe.Try(func() error {
					if e := ak.SetAttr(eap.AT_MAC, m2); e != nil {
						return e
					}
					var e error
					w2, e = r.Marshal()
					return e
				}); err != nil {
					return probe.Fail("marshalling the modified decoded packet: %v", err)
				}
				want2, err := refMAC(in.Key, w2)
				if err != nil || !bytes.Equal(m2, want2) {
					return probe.Fail("MAC of a decoded-then-modified packet is not the MAC over that packet as sent (%x vs %x, %v)", m2, want2, err)
				}
			}
		}
	}
	// a receiver that answers with the decoded packet (a library-built one: its octets are what the library writes itself)
	// after editing the HEADER fields - code and identifier are exported fields - gets the MAC of the packet as it is then
	if !in.RefBuilt {
		r := new(eap.EAP)
		if err := probe.Try(func() error { return r.Unmarshal(probe.Exact(w)) }); err == nil {
			if ak, ok := r.EapTypeData.(*eap.EapAkaPrime); ok {
				r.Identifier ^= 0x5a
				r.Code = 3 - r.Code&1 // request <-> response
				m2, err := libCalc(r, in.Key)
				if err != nil {
					return probe.Fail("CalcEapAkaPrimeAtMAC on a decoded packet whose header fields were edited: %v", err)
				}
				var w2 []byte
				if err := probe.Try(func() error {
					if e := ak.SetAttr(eap.AT_MAC, m2); e != nil {
						return e
					}
					var e error
					w2, e = r.Marshal()
					return e
				}); err != nil {
					return probe.Fail("marshalling the decoded packet with edited header fields: %v", err)
				}
				if want2, err := refMAC(in.Key, w2); err != nil || !bytes.Equal(m2, want2) {
					return probe.Fail("MAC of a decoded packet whose code / identifier were edited is not the MAC over that packet as sent (%x vs %x, %v)", m2, want2, err)
				}
			}
		}
	}
	// a different key gives a different value
	k2 := append([]byte(nil), in.Key...)
	if len(k2) == 0 {
		k2 = []byte{1}
	} else {
		k2[len(k2)/2] ^= 0x10
	}
	if _, c2, err := receiverVerdict(w, k2); err == nil && bytes.Equal(c2, mac) {
		return probe.Fail("receiver with a different key still computes the transmitted MAC")
	}
	// any single-octet change that still decodes must make verification fail
	off, _, _ := ref.AkaAttrSpan(w, model.AT_MAC)
	step := 1
	if !in.AllOctets && len(w) > 120 {
		step = 3
	}
	if len(w) > 600 {
		step = len(w)/200 + 1 // large packets: about 200 positions spread over the packet (the first octets of every region included)
	}
	decoded := 0
	for i := 0; i < len(w); i += step {
		x := append([]byte(nil), w...)
		x[i] ^= 0x01 << uint(i%8)
		car, comp, err := receiverVerdict(x, in.Key)
		if probe.IsPanic(err) {
			return probe.Fail("receiver panics on an altered packet: %v", err)
		}
		if err != nil {
			continue
		}
		decoded++
		if bytes.Equal(car, comp) {
			where := "outside AT_MAC"
			if i >= off && i < off+16 {
				where = "inside AT_MAC"
			}
			return probe.Fail("octet %d (%s) of the packet altered, yet the receiver's computed MAC equals the carried one: the alteration goes unnoticed\n genuine %x\n altered %x", i, where, w, x)
		}
	}
	labels = append(labels, fmt.Sprintf("attrs:%d", len(e.Attrs)))
	padded := false
	for _, a := range e.Attrs {
		if (a.Type == model.AT_RES || a.Type == model.AT_KDF_INPUT) && len(a.Value)%4 != 0 {
			padded = true
		}
	}
	if padded {
		labels = append(labels, "aka:padded")
	}
	if in.RefBuilt {
		labels = append(labels, "ref-built")
	}
	if len(in.Key) != 32 {
		labels = append(labels, "key-len!=32")
	}
	return probe.Outcome{NonTrivial: padded || len(e.Attrs) >= 3 || in.RefBuilt, Labels: labels,
		Counts: map[string]int{"single-octet-alterations-that-still-decode": decoded, "single-octet-alterations-tried": (len(w) + step - 1) / step}}
}

func c15Gen(t *rapid.T) c15In {
	in := c15In{EAP: model.EAP{Code: uint8(rapid.IntRange(1, 2).Draw(t, "code")), Identifier: rapid.Uint8().Draw(t, "id"), Kind: model.EAka, Sub: rapid.Uint8().Draw(t, "sub")}}
	in.EAP.Attrs = gen.AkaAttrs(t)
	if rapid.IntRange(0, 3).Draw(t, "keyclass") == 3 {
		in.Key = gen.Fill(t, "key", rapid.IntRange(0, 80).Draw(t, "keylen"))
	} else {
		in.Key = gen.Fill(t, "key", 32)
	}
	if rapid.Bool().Draw(t, "prevmac") {
		in.PrevMAC = gen.Fill(t, "prevmacv", 16)
	}
	in.RefBuilt = rapid.Bool().Draw(t, "refbuilt")
	if in.RefBuilt {
		n := len(in.EAP.Attrs)
		has := false
		for _, a := range in.EAP.Attrs {
			if a.Type == model.AT_MAC {
				has = true
			}
		}
		if !has {
			n++
		}
		if g := rapid.IntRange(0, 15).Draw(t, "generic") - 8; g >= 5 {
			// attribute types of RFC 4187 / 5448 that the library does not model (and a few unassigned skippable ones)
			k := rapid.IntRange(1, 3).Draw(t, "ngeneric")
			if g == 7 {
				k = rapid.IntRange(5, 8).Draw(t, "ngeneric-big") // 5..9 attributes of ~1 KiB: the packet exceeds 4096 octets
			}
			for i := 0; i < k; i++ {
				ty := rapid.SampledFrom([]uint8{5, 6, 7, 10, 12, 13, 14, 15, 129, 130, 132, 133, 135, 136, 137, 200, 255}).Draw(t, "gtype")
				words := rapid.SampledFrom([]int{1, 2, 5, 64, 255}).Draw(t, "gwords")
				if g == 7 {
					words = rapid.IntRange(200, 255).Draw(t, "gwords-big")
				}
				dup := false
				for _, x := range in.Generic {
					dup = dup || x.Type == ty
				}
				if dup {
					continue
				}
				in.Generic = append(in.Generic, model.AkaAttr{Type: ty, Value: gen.Fill(t, "gvalue", 4*words-2)})
				n++
			}
		}
		in.LockStep = rapid.IntRange(0, 2).Draw(t, "lockstep") == 2
		if rapid.IntRange(0, 3).Draw(t, "resbits") == 3 {
			in.ResBitsLess = rapid.IntRange(1, 7).Draw(t, "resbitsless")
		}
		if rapid.IntRange(0, 3).Draw(t, "more-kdf") == 3 {
			for i := rapid.IntRange(1, 3).Draw(t, "nkdf"); i > 0; i-- {
				in.MoreKDF = append(in.MoreKDF, gen.Fill(t, "kdf-offer", 2))
				n++
			}
		}
		idx := make([]int, n)
		for i := range idx {
			idx[i] = i
		}
		if !gen.Exclude["aka-mac-order"] {
			in.Order = rapid.Permutation(idx).Draw(t, "order")
		}
	}
	in.AllOctets = model.EAPSize(in.EAP) <= 200
	return in
}

var c15MAC = probe.Define("C15", "at-mac", c15Gen, c15Oracle)

func TestC15(t *testing.T) {
	c := probe.NewCtx(t, "C15")
	idleStart(c, "received-mac")
	if c.Shard == 0 {
		endurance(c, "C15", "aka-setattr-gaps", 70000)
		endurance(c, "C15", "mac-after-many-decodes", 30000)
	}
	c15MAC.Run(c, t, c.N(1500, 15000))
	idleFinish(c, "C15", "received-mac")
}
