package props

import (
	"bytes"
	"fmt"
	"math/big"
	"runtime"

	ike "github.com/free5gc/ike"
	"github.com/free5gc/ike/eap"
	"github.com/free5gc/ike/message"
	"github.com/free5gc/ike/security"
	"pgregory.net/rapid"

	"verif/bridge"
	"verif/model"
	"verif/probe"
	"verif/ref"
)

// Endurance: the same cheap operation tens of thousands of times on ONE object (or a million times in one process), every
// result checked. Histories of up to 64 or 200 steps never reach a counter that wraps at 256, 4096, 65536 or 2^20, a pool that
// hands a buffer out again after it has cycled once, or an arena that restarts at offset 0; these loops do. The inputs are
// tiny (a count and a selector), the work is a few seconds in the quick tier.

type enduranceIn struct {
	What string `json:"what"`
	N    int    `json:"n"`
}

func enduranceSA(objectsOnly bool) (*security.IKESAKey, *security.IKESAKey, bridge.SuiteSel, *bridge.KeySet, error) {
	s := bridge.SuiteSel{Encr: 1, Integ: 2, Prf: 1}
	k := fuzzKeysFor(s)
	a, err := bridge.NewSA(s, *k)
	if err != nil {
		return nil, nil, s, k, err
	}
	b, err := bridge.NewSA(s, *k)
	if err != nil {
		return nil, nil, s, k, err
	}
	if objectsOnly {
		// the SA holds the ready-made cipher and MAC objects only, not the key octets (the library's own tests build SAs so)
		for _, x := range []*security.IKESAKey{a, b} {
			x.SK_ai, x.SK_ar, x.SK_ei, x.SK_er = nil, nil, nil, nil
		}
	}
	return a, b, s, k, nil
}

func enduranceOracle(in enduranceIn) probe.Outcome {
	switch in.What {
	case "protect-unprotect", "protect-unprotect-objects-only":
		a, b, s, k, err := enduranceSA(in.What == "protect-unprotect-objects-only")
		if err != nil {
			return probe.Fail("HARNESS: %v", err)
		}
		msg := model.Message{Header: model.Header{ISPI: 3, RSPI: 4, Major: 2, Exchange: 37, Flags: 0x08}, Payloads: []model.Payload{
			{Kind: model.KNotify, Notify: &model.Notify{Protocol: 1, Type: 16384, Data: model.Bytes{1, 2, 3}}}, {Kind: model.KNonce, Data: model.Bytes{9, 9, 9, 9, 9}}}}
		for i := 1; i <= in.N; i++ {
			msg.Header.MsgID = uint32(i)
			asI := i%5 != 0 // mostly one direction, so that its per-direction state accumulates
			w, _, _, err := libProtect(msg, a, asI, nil)
			if err != nil {
				return probe.Fail("protect number %d on one SA object: %v", i, err)
			}
			got, err := libUnprotect(w, b, !asI, i%2 == 0)
			if err != nil {
				return probe.Fail("message number %d protected by one SA object is refused by its (equally long-lived) peer: %v", i, err)
			}
			if d := model.Diff(msg, got); d != "" {
				return probe.Fail("message number %d: %s", i, d)
			}
			if i%4099 == 0 || i == 4096 || i == 65536 {
				if _, err := ref.Open(s.Ref(), k.Dir(asI), w); err != nil {
					return probe.Fail("message number %d: independent receiver: %v", i, err)
				}
			}
		}
	case "sizes-multiple-of-4096":
		// Messages whose authenticated part (header .. end of the ciphertext) is an exact multiple of 4096 octets - of 4096, 8192,
		// 32768, 61440, 65536 (the largest SK payload there is). How much padding a sender adds is its own business, so nonces of sixteen lengths (16 octets apart) are
		// protected; with minimal padding one in sixteen hits the size. Every one is opened by the independent receiver and by the peer SA, an altered copy is refused, and a
		// small message follows on the same SA objects (whatever the large one left behind must not disturb it).
		for _, integ := range []int{0, 2} {
			s := bridge.SuiteSel{Encr: 0, Integ: integ, Prf: 1}
			k := fuzzKeysFor(s)
			a, err := bridge.NewSA(s, *k)
			if err != nil {
				return probe.Fail("HARNESS: %v", err)
			}
			b, _ := bridge.NewSA(s, *k)
			icv := s.Ref().Integ.OutLen
			small := model.Message{Header: model.Header{ISPI: 3, RSPI: 4, Major: 2, Exchange: 37, Flags: 0x08}, Payloads: []model.Payload{{Kind: model.KNonce, Data: model.Bytes{9, 9, 9}}}}
			hits := 0
			for _, blocks := range []int{1, 2, 8, 15, 16} {
				for i := 1; i <= in.N; i++ {
					// with minimal padding a nonce of 4096*blocks-53 octets gives the size; a sender that pads more reaches it from
					// a nonce that is 16, 32, ... 240 octets shorter
					L := 4096*blocks - 53 - 16*(i%16)
					if i%16 == 1 {
						L = 4096*blocks - 53 - (i/16)%16 // the other inner sizes that pad up to the same ciphertext
					}
					big := model.Message{Header: small.Header, Payloads: []model.Payload{{Kind: model.KNonce, Data: pat(L, byte(blocks))}}}
					big.Header.MsgID, small.Header.MsgID = uint32(2*i), uint32(2*i+1)
					asI := i%2 == 0
					w, _, _, err := libProtect(big, a, asI, nil)
					if err != nil {
						return probe.Fail("protecting a %d-octet payload: %v", L, err)
					}
					aligned := (len(w)-icv)%4096 == 0
					if aligned {
						hits++
					}
					what := fmt.Sprintf("message of %d octets (authenticated part %d octets, a multiple of 4096: %v)", len(w), len(w)-icv, aligned)
					if _, err := ref.Open(s.Ref(), k.Dir(asI), w); err != nil {
						return probe.Fail("%s: independent receiver: %v", what, err)
					}
					got, err := libUnprotect(w, b, !asI, i%3 == 0)
					if err != nil {
						return probe.Fail("%s is refused by the peer SA: %v", what, err)
					}
					if d := model.Diff(big, got); d != "" {
						return probe.Fail("%s: %s", what, d)
					}
					x := append([]byte(nil), w...)
					x[20+i%4] ^= 0x10 // message id
					if _, err := libUnprotect(x, b, !asI, false); err == nil {
						return probe.Fail("%s with one bit of the header flipped is ACCEPTED", what)
					}
					x = append([]byte(nil), w...)
					x[len(x)-icv-1-(i-1)%64] ^= 1
					if _, err := libUnprotect(x, b, !asI, true); err == nil {
						return probe.Fail("%s with one bit of the ciphertext flipped is ACCEPTED", what)
					}
					ws, _, _, err := libProtect(small, a, asI, nil)
					if err != nil {
						return probe.Fail("protecting a small message after a %s: %v", what, err)
					}
					if _, err := ref.Open(s.Ref(), k.Dir(asI), ws); err != nil {
						return probe.Fail("small message protected right after a %s: independent receiver: %v", what, err)
					}
					if _, err := libUnprotect(ws, b, !asI, false); err != nil {
						return probe.Fail("small message right after a %s is refused by the peer SA: %v", what, err)
					}
				}
			}
			if hits == 0 {
				return probe.OK(false, "endurance:"+in.What, "no-aligned-size-drawn")
			}
		}
	case "encrypt":
		key := bytes.Repeat([]byte{0x6b}, 32)
		c, err := c10New(2, key)
		if err != nil {
			return probe.Fail("%v", err)
		}
		p := []byte("sixteen octets..")
		seen := map[string]bool{}
		for i := 1; i <= in.N; i++ {
			var ct, back []byte
			if err := probe.Try(func() error { var e error; ct, e = c.Encrypt(probe.Exact(p)); return e }); err != nil {
				return probe.Fail("encryption number %d on one cipher object: %v", i, err)
			}
			if err := c10CheckCiphertext(key, p, ct, nil); err != nil {
				return probe.Fail("encryption number %d on one cipher object: %v", i, err)
			}
			if seen[string(ct[:16])] {
				return probe.Fail("encryption number %d repeats an IV used earlier on this object", i)
			}
			seen[string(ct[:16])] = true
			if err := probe.Try(func() error { var e error; back, e = c.Decrypt(ct); return e }); err != nil || !bytes.Equal(back, p) {
				return probe.Fail("decryption number %d on one cipher object: wrong plaintext (%v)", i, err)
			}
		}
	case "prf-prime":
		ik, ck, id := bytes.Repeat([]byte{1}, 16), bytes.Repeat([]byte{2}, 16), "0208930123456789@nai.5gc.mnc093.mcc208.3gppnetwork.org"
		mk := ref.PRFPrime(append(append([]byte(nil), ik...), ck...), append([]byte("EAP-AKA'"), id...), 208)
		for i := 1; i <= in.N; i++ {
			a, b, c, d, e, err := eap.EapAkaPrimePRF(ik, ck, id)
			if err != nil || !bytes.Equal(a, mk[:16]) || !bytes.Equal(b, mk[16:48]) || !bytes.Equal(c, mk[48:80]) || !bytes.Equal(d, mk[80:144]) || !bytes.Equal(e, mk[144:208]) {
				return probe.Fail("derivation number %d in this process does not give PRF'(IK'|CK', \"EAP-AKA'\"|Identity) (%v)", i, err)
			}
		}
	case "aka-setattr-gaps":
		// encode, then exactly g successful SetAttr calls, then encode again: the second encoding is that of the packet as it is
		// then (g around the wrap points of 8- and 16-bit revision counters)
		for _, g := range []int{255, 256, 257, 511, 512, 65535, 65536, 65537, 131072} {
			if g > in.N {
				continue
			}
			ak := eap.NewEapAkaPrime(1)
			pkt := &eap.EAP{Code: 1, Identifier: 7, EapTypeData: ak}
			if err := ak.SetAttr(eap.AT_RAND, bytes.Repeat([]byte{0xaa}, 16)); err != nil {
				return probe.Fail("HARNESS: %v", err)
			}
			key := bytes.Repeat([]byte{0x11}, 32)
			if _, err := pkt.Marshal(); err != nil {
				return probe.Fail("Marshal: %v", err)
			}
			if _, err := pkt.CalcEapAkaPrimeAtMAC(key); err != nil {
				return probe.Fail("CalcEapAkaPrimeAtMAC: %v", err)
			}
			var last []byte
			for i := 0; i < g; i++ {
				last = []byte{byte(i), byte(i >> 8), byte(i >> 16), 0x5c, byte(g)}
				if err := ak.SetAttr(eap.AT_RES, last); err != nil {
					return probe.Fail("SetAttr number %d: %v", i, err)
				}
			}
			mac, err := pkt.CalcEapAkaPrimeAtMAC(key)
			if err != nil {
				return probe.Fail("CalcEapAkaPrimeAtMAC after %d SetAttr calls: %v", g, err)
			}
			if err := ak.SetAttr(eap.AT_MAC, mac); err != nil {
				return probe.Fail("SetAttr(AT_MAC): %v", err)
			}
			w, err := pkt.Marshal()
			if err != nil {
				return probe.Fail("Marshal after %d SetAttr calls: %v", g, err)
			}
			want := model.EAP{Code: 1, Identifier: 7, Kind: model.EAka, Sub: 1, Attrs: []model.AkaAttr{{Type: model.AT_RAND, Value: bytes.Repeat([]byte{0xaa}, 16)},
				{Type: model.AT_RES, Value: last}, {Type: model.AT_MAC, Value: mac}}}
			pe, err := ref.ParseEAP(w, true)
			if err != nil || !pe.Equal(want) {
				return probe.Fail("after exactly %d SetAttr calls between two encodings the packet encodes to %s, want %s (%v): a stale encoding is handed out", g,
					model.Clip(model.JSON(pe.Normalize())), model.Clip(model.JSON(want.Normalize())), err)
			}
			if m2, err := refMAC(key, w); err != nil || !bytes.Equal(m2, mac) {
				return probe.Fail("after exactly %d SetAttr calls between two computations the AT_MAC is not the code of the packet as sent (%x vs %x, %v)", g, mac, m2, err)
			}
		}
	case "exponents":
		first, err := security.GenerateRandomNumber()
		if err != nil || first == nil {
			return probe.Fail("GenerateRandomNumber: %v", err)
		}
		keep := new(big.Int).Set(first)
		lo := new(big.Int).Lsh(big.NewInt(1), 128)
		for i := 1; i <= in.N; i++ {
			x, err := security.GenerateRandomNumber()
			if err != nil || x == nil || x.Cmp(lo) < 0 || x.BitLen() > 2048 {
				return probe.Fail("exponent number %d: out of range or error (%v)", i, err)
			}
			if first.Cmp(keep) != 0 {
				return probe.Fail("an exponent handed out earlier changed its value when exponent number %d was generated", i)
			}
		}
	case "child-keys":
		// enough Child SAs from one IKE SA to exceed 64 KiB of keying material; all of them stay what they were
		cin := c08In{Prf: 2, SKd: bytes.Repeat([]byte{0x3c}, 32)}
		L, skd, err := c08NewSA(cin)
		if err != nil {
			return probe.Fail("%v", err)
		}
		type held struct {
			got, want ref.ChildKeys
		}
		var all []held
		for i := 1; i <= in.N; i++ {
			e, ig := i%3, i%4
			nonce := []byte{byte(i), byte(i >> 8), 0x77}
			k, err := deriveChild(L, e, ig, nonce)
			if err != nil {
				return probe.Fail("derivation %d: %v", i, err)
			}
			all = append(all, held{k, refChild(bridge.SuiteSel{Prf: 2}, skd, nonce, e, ig)})
			if i%512 == 0 || i == in.N {
				runtime.GC() // Child SA objects no longer referenced may be finalised; the keys they handed out stay
				for j, h := range all {
					if !childEqual(h.got, h.want) {
						return probe.Fail("the keys of Child SA number %d are no longer prf+(SK_d, Ni|Nr) after %d derivations on the same IKE SA", j+1, i)
					}
				}
			}
		}
	case "decode":
		// about 2^20 decodes in one process
		m := model.Message{Header: model.Header{ISPI: 1, RSPI: 2, Major: 2, Exchange: 35, Flags: 8, MsgID: 5}, Payloads: []model.Payload{
			{Kind: model.KVendor, Data: model.Bytes{1, 2, 3, 4}}, {Kind: model.KNonce, Data: model.Bytes{5, 6}}, {Kind: model.KKE, KE: &model.KE{Group: 14, Data: model.Bytes{7}}}}}
		w, err := ref.EncodeMessage(m, nil)
		if err != nil {
			return probe.Fail("HARNESS: %v", err)
		}
		x := probe.Exact(w)
		for i := 1; i <= in.N; i++ {
			dm := new(message.IKEMessage)
			if err := dm.Decode(x); err != nil {
				return probe.Fail("decode number %d in this process: %v", i, err)
			}
			ok := len(dm.Payloads) == 3
			if ok {
				v, ok1 := dm.Payloads[0].(*message.VendorID)
				n, ok2 := dm.Payloads[1].(*message.Nonce)
				ke, ok3 := dm.Payloads[2].(*message.KeyExchange)
				ok = ok1 && ok2 && ok3 && bytes.Equal(v.VendorIDData, []byte{1, 2, 3, 4}) && bytes.Equal(n.NonceData, []byte{5, 6}) && ke.DiffieHellmanGroup == 14 && bytes.Equal(ke.KeyExchangeData, []byte{7})
			}
			if !ok || dm.MessageID != 5 {
				return probe.Fail("decode number %d in this process yields a different message than the first one did", i)
			}
		}
	case "eap-unmarshal":
		e := model.EAP{Code: 1, Identifier: 9, Kind: model.EAka, Sub: 1, Attrs: []model.AkaAttr{{Type: model.AT_RAND, Value: bytes.Repeat([]byte{3}, 16)}, {Type: model.AT_RES, Value: model.Bytes{1, 2, 3, 4, 5}}, {Type: model.AT_KDF, Value: model.Bytes{0, 1}}}}
		w, err := ref.EncodeEAP(e, []int{2, 0, 1})
		if err != nil {
			return probe.Fail("HARNESS: %v", err)
		}
		x := probe.Exact(w)
		for i := 1; i <= in.N; i++ {
			p := new(eap.EAP)
			if err := p.Unmarshal(x); err != nil {
				return probe.Fail("EAP decode number %d in this process: %v", i, err)
			}
			ak, ok := p.EapTypeData.(*eap.EapAkaPrime)
			if !ok || p.Identifier != 9 {
				return probe.Fail("EAP decode number %d yields another packet than the first one did", i)
			}
			a, e1 := ak.GetAttr(eap.AT_RES)
			k, e2 := ak.GetAttr(eap.AT_KDF)
			if e1 != nil || e2 != nil || !bytes.Equal(a.GetValue(), []byte{1, 2, 3, 4, 5}) || !bytes.Equal(k.GetValue(), []byte{0, 1}) {
				return probe.Fail("EAP decode number %d yields other attribute values than the first one did", i)
			}
		}
	case "mac-after-many-decodes":
		// a packet is decoded; before its AT_MAC is verified (the authentication vector has to be fetched first) the process
		// decodes tens of thousands of other packets - several megabytes. The code of the first one is still that of the octets
		// as received (its attributes came in an order of the sender's own).
		key := bytes.Repeat([]byte{0x42}, 32)
		mk := func(id byte) ([]byte, []byte) {
			w := c18ReceivedChallenge(id)
			mac, _ := refMAC(key, w)
			off, _, _ := ref.AkaAttrSpan(w, model.AT_MAC)
			copy(w[off:], mac)
			return w, mac
		}
		wA, macA := mk(0xa1)
		first := new(eap.EAP)
		if err := first.Unmarshal(probe.Exact(wA)); err != nil {
			return probe.Fail("HARNESS: %v", err)
		}
		var keep []*eap.EAP
		for i := 1; i <= in.N; i++ {
			w, mac := mk(byte(i))
			p := new(eap.EAP)
			if err := p.Unmarshal(probe.Exact(w)); err != nil {
				return probe.Fail("EAP decode number %d in this process: %v", i, err)
			}
			if i%64 == 0 {
				keep = append(keep, p) // some sessions stay open
			}
			if i%1000 == 0 {
				got, err := p.CalcEapAkaPrimeAtMAC(key)
				if err != nil || !bytes.Equal(got, mac) {
					return probe.Fail("packet number %d: the receiver computes AT_MAC %x, the genuine packet carries %x (%v)", i, got, mac, err)
				}
			}
		}
		got, err := first.CalcEapAkaPrimeAtMAC(key)
		if err != nil || !bytes.Equal(got, macA) {
			return probe.Fail("after %d further packets were decoded the receiver computes AT_MAC %x for the first packet, which carries %x (%v): the octets as received are gone", in.N, got, macA, err)
		}
		for j, p := range keep {
			w, mac := mk(byte((j + 1) * 64))
			_ = w
			got, err := p.CalcEapAkaPrimeAtMAC(key)
			if err != nil || !bytes.Equal(got, mac) {
				return probe.Fail("after %d packets were decoded the receiver computes AT_MAC %x for packet number %d, which carries %x (%v)", in.N, got, (j+1)*64, mac, err)
			}
		}
	case "container-decode":
		// a chain with an unsupported payload in the middle, through the container and through DecodeDecrypt without keys
		m := model.Message{Header: model.Header{ISPI: 1, RSPI: 2, Major: 2, Exchange: 37, Flags: 8, MsgID: 5}, Payloads: []model.Payload{
			{Kind: model.KNonce, Data: model.Bytes{5, 6}}, {Kind: model.KRaw, Raw: &model.Raw{Type: 200, Body: model.Bytes{1, 2, 3}}}, {Kind: model.KVendor, Data: model.Bytes{1, 2, 3, 4}}}}
		w, err := ref.EncodeMessage(m, nil)
		if err != nil {
			return probe.Fail("HARNESS: %v", err)
		}
		x := probe.Exact(w)
		for i := 1; i <= in.N; i++ {
			var c message.IKEPayloadContainer
			if err := c.Decode(x[16], x[28:]); err != nil || len(c) != 2 {
				return probe.Fail("container decode number %d in this process: %d payloads, %v", i, len(c), err)
			}
			if i%4 == 0 {
				dm, err := ike.DecodeDecrypt(x, nil, nil, message.Role_Responder)
				if err != nil || dm == nil || len(dm.Payloads) != 2 {
					return probe.Fail("DecodeDecrypt (no keys) number %d in this process gives another result than the first one did (%v)", i/4, err)
				}
			}
			n, ok1 := c[0].(*message.Nonce)
			v, ok2 := c[1].(*message.VendorID)
			if !ok1 || !ok2 || !bytes.Equal(n.NonceData, []byte{5, 6}) || !bytes.Equal(v.VendorIDData, []byte{1, 2, 3, 4}) {
				return probe.Fail("container decode number %d in this process yields other payloads than the first one did", i)
			}
		}
	default:
		return probe.Fail("HARNESS: endurance %q", in.What)
	}
	return probe.OK(true, "endurance:"+in.What, fmt.Sprintf("repetitions:%d", in.N))
}

// one check "endurance" per property that has such loops (registered at start-up, so that replay files find it)
var enduranceChecks = func() map[string]*probe.Check[enduranceIn] {
	m := map[string]*probe.Check[enduranceIn]{}
	for _, prop := range []string{"C01", "C02", "C03", "C06", "C08", "C09", "C10", "C13", "C14", "C15", "C16", "C17"} {
		m[prop] = probe.Define(prop, "endurance", func(t *rapid.T) enduranceIn { panic("enumerated") }, enduranceOracle)
	}
	return m
}()

func endurance(c *probe.Ctx, prop, what string, n int) {
	enduranceChecks[prop].Eval(c, enduranceIn{What: what, N: n})
}
