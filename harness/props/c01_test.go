package props

import (
	"bytes"
	"testing"

	"pgregory.net/rapid"

	"verif/bridge"
	"verif/gen"
	"verif/model"
	"verif/probe"
)

// C01 — protected message round trip between opposite roles of one IKE SA.

var c01RoundTrip = probe.Define("C01", "roundtrip", func(t *rapid.T) protIn {
	in := genProt(t, gen.Opts{})
	equalDirections(t, &in)
	return in
},
	func(in protIn) probe.Outcome {
		if model.ChainSize(in.Msg.Payloads) > maxInnerChain {
			// the protected form would not fit the 16-bit payload length: outside the domain (a generator slip, not the library's)
			return probe.OK(false, "outside-domain:inner-chain-too-long")
		}
		saS, err := bridge.NewSA(in.Suite, in.Keys)
		if err != nil {
			return probe.Fail("%v", err)
		}
		saR, err := bridge.NewSA(in.Suite, in.Keys) // a separate object holding the same keys
		if err != nil {
			return probe.Fail("%v", err)
		}
		w, _, _, err := libProtect(in.Msg, saS, in.SendI, in.Entropy)
		if err != nil {
			return probe.Fail("%v", err)
		}
		got, err := libUnprotect(w, saR, !in.SendI, in.WithHdr)
		if err != nil {
			return probe.Fail("DecodeDecrypt by the opposite role failed: %v", err)
		}
		if d := model.Diff(in.Msg, got); d != "" {
			return probe.Fail("unprotect(protect(m)) != m: %s", d)
		}
		// the same datagram once more (a retransmission), in the other header mode, on the same receiver object
		got, err = libUnprotect(w, saR, !in.SendI, !in.WithHdr)
		if err != nil {
			return probe.Fail("DecodeDecrypt of the same datagram a second time (other header mode) failed: %v", err)
		}
		if d := model.Diff(in.Msg, got); d != "" {
			return probe.Fail("second unprotect of the same datagram != m: %s", d)
		}
		// one holder of the keys acting in both roles with a single SA object
		w2, _, _, err := libProtect(in.Msg, saS, in.SendI, nil)
		if err != nil {
			return probe.Fail("second EncodeEncrypt on the same SA object: %v", err)
		}
		got, err = libUnprotect(w2, saS, !in.SendI, in.WithHdr)
		if err != nil {
			return probe.Fail("the SA object that protected the message cannot unprotect it in the opposite role: %v", err)
		}
		if d := model.Diff(in.Msg, got); d != "" {
			return probe.Fail("unprotect(protect(m)) on one SA object != m: %s", d)
		}
		// two holders of the same keys that both send in this direction: what the second one protects, the first one
		// (which has protected messages itself) must unprotect when it acts in the opposite role
		w3, _, _, err := libProtect(in.Msg, saR, in.SendI, nil)
		if err != nil {
			return probe.Fail("EncodeEncrypt on the second holder's SA object: %v", err)
		}
		got, err = libUnprotect(w3, saS, !in.SendI, in.WithHdr)
		if err != nil {
			return probe.Fail("a holder that has protected messages itself cannot unprotect the other holder's message (same keys, opposite role): %v", err)
		}
		if d := model.Diff(in.Msg, got); d != "" {
			return probe.Fail("unprotect by a holder that has protected messages itself != m: %s", d)
		}
		labels := append(suiteLabels(in), in.Msg.Labels()...)
		if len(in.Entropy) > 0 {
			labels = append(labels, "entropy:injected")
		}
		if bytes.Equal(in.Keys.Ai, in.Keys.Ar) || bytes.Equal(in.Keys.Ei, in.Keys.Er) {
			labels = append(labels, "keys:same-in-both-directions")
		}
		return probe.Outcome{NonTrivial: true, Labels: labels}
	})

// with no SA keys the same entry points behave as plain encode and decode
var c01NilKey = probe.Define("C01", "nilkey", func(t *rapid.T) protIn {
	in := protIn{Msg: gen.Message(t, gen.Opts{}), SendI: rapid.Bool().Draw(t, "sendI"), WithHdr: rapid.Bool().Draw(t, "withhdr")}
	return in
}, func(in protIn) probe.Outcome {
	w, _, _, err := libProtect(in.Msg, nil, in.SendI, nil)
	if err != nil {
		return probe.Fail("EncodeEncrypt without keys: %v", err)
	}
	plain, _, err := libEncode(in.Msg) // independently built copy
	if err != nil {
		return probe.Fail("%v", err)
	}
	if !bytes.Equal(w, plain) {
		return probe.Fail("EncodeEncrypt(nil key) differs from Encode()")
	}
	got, err := libUnprotect(w, nil, !in.SendI, in.WithHdr)
	if err != nil {
		return probe.Fail("DecodeDecrypt without keys rejects a plain message: %v", err)
	}
	want, _, err := libDecode(w)
	if err != nil {
		return probe.Fail("%v", err)
	}
	if d := model.Diff(want, got); d != "" {
		return probe.Fail("DecodeDecrypt(nil key) differs from Decode(): %s", d)
	}
	if d := model.Diff(in.Msg, got); d != "" {
		return probe.Fail("DecodeDecrypt(nil key) != original: %s", d)
	}
	l := in.Msg.Labels()
	if in.WithHdr {
		l = append(l, "hdr:preparsed")
	}
	return probe.Outcome{NonTrivial: true, Labels: l}
})

func TestC01(t *testing.T) {
	c := probe.NewCtx(t, "C01")
	if c.Shard == 0 {
		endurance(c, "C01", "sizes-multiple-of-4096", c.N(48, 400))
	}
	if c.Shard == 0 {
		endurance(c, "C01", "protect-unprotect-objects-only", 70000)
	}
	if c.Shard == 0 {
		// every notify type and every configuration attribute type inside a protected message (what is validated or rewritten
		// only on the protected path is reached too)
		suite := bridge.SuiteSel{Encr: 0, Integ: 1}
		keys := *fuzzKeysFor(suite)
		for v := 0; v < 65536 && c.Failures() <= 3; v++ {
			m := model.Message{Header: idSweepHeader(), Payloads: []model.Payload{{Kind: model.KNotify, Notify: &model.Notify{Type: uint16(v), Data: pat(1+v%3, byte(v))}}}}
			if v < 32768 && v%2 == 1 {
				m.Payloads = append(m.Payloads, model.Payload{Kind: model.KCP, CP: &model.CP{Type: 1, Attrs: []model.CPAttr{{Type: uint16(v), Value: pat(16, 1)}}}})
			}
			c01RoundTrip.Eval(c, protIn{Msg: m, Suite: suite, Keys: keys, SendI: v%2 == 0, WithHdr: v%4 >= 2})
		}
	}
	c01RoundTrip.Run(c, t, c.N(3000, 30000))
	c01NilKey.Run(c, t, c.N(1000, 8000))
}
