package props

import (
	"bytes"
	"fmt"
	"reflect"
	"strings"
	"testing"

	"github.com/free5gc/ike/eap"
	"github.com/free5gc/ike/message"
	"pgregory.net/rapid"

	"verif/bridge"
	"verif/gen"
	"verif/model"
	"verif/probe"
	"verif/ref"
)

// C19 — constructors and builders yield exactly the specified payloads, 3GPP ones too.

type c19In struct {
	Builder string          `json:"builder"`
	Prior   []model.Payload `json:"prior"`
	U8a     uint8           `json:"u8a"`
	U8b     uint8           `json:"u8b"`
	U8c     uint8           `json:"u8c"`
	U16a    uint16          `json:"u16a"`
	U16b    uint16          `json:"u16b"`
	U32a    uint32          `json:"u32a"`
	U32b    uint32          `json:"u32b"`
	U64a    uint64          `json:"u64a"`
	U64b    uint64          `json:"u64b"`
	B1      model.Bytes     `json:"b1"`
	B2      model.Bytes     `json:"b2"`
	Bool1   bool            `json:"bool1"`
	Bool2   bool            `json:"bool2"`
	U32s    []uint32        `json:"u32s,omitempty"`
	Attr    string          `json:"attr,omitempty"` // transform: none | tv | tlv
	IP      [4]uint8        `json:"ip"`
}

var c19Builders = []string{"NewHeader", "NewMessage", "Notification", "Certificate", "Encrypted", "KeyExchange", "IDi", "IDr", "Authentication",
	"Configuration", "ConfigurationAttribute", "Nonce", "TSi", "TSr", "IndividualTrafficSelector", "SecurityAssociation", "Proposal", "Delete",
	"Transform", "EAP", "EAPSuccess", "EAPfailure", "EapExpanded", "EAP5GStart", "EAP5GNAS", "Notify5G_QOS_INFO", "NotifyNAS_IP4_ADDRESS",
	"NotifyUP_IP4_ADDRESS", "NotifyNAS_TCP_PORT"}

// big octet strings where a length limit exists
func c19Bytes(t *rapid.T, label string, limit int) model.Bytes {
	switch gen.Pick(t, label+".class", 8, 2, 1) {
	case 0:
		return gen.BytesLen(t, label, 0, 300, 0, 1, 4, 255, 256)
	case 1:
		return gen.Fill(t, label, rapid.SampledFrom([]int{limit - 1, limit, limit + 1, 65535, 65536}).Draw(t, label+".n"))
	default:
		return gen.Fill(t, label, rapid.IntRange(0, 70000).Draw(t, label+".n"))
	}
}

func c19Gen(t *rapid.T) c19In { return c19GenFor(t, "") }

// c19GenFor draws the arguments for the given builder (any builder when the name is empty).
func c19GenFor(t *rapid.T, builder string) c19In {
	in := c19In{Builder: builder}
	if builder == "" {
		in.Builder = rapid.SampledFrom(c19Builders).Draw(t, "builder")
	}
	if rapid.Bool().Draw(t, "withprior") {
		in.Prior = gen.Payloads(t, gen.Opts{MaxPayloads: 4, NoBig: true})
	}
	in.U8a, in.U8b, in.U8c = rapid.Uint8().Draw(t, "u8a"), rapid.Uint8().Draw(t, "u8b"), rapid.Uint8().Draw(t, "u8c")
	in.U16a, in.U16b = rapid.Uint16().Draw(t, "u16a"), rapid.Uint16().Draw(t, "u16b")
	in.U32a, in.U32b = rapid.Uint32().Draw(t, "u32a"), rapid.Uint32().Draw(t, "u32b")
	in.U64a, in.U64b = rapid.Uint64().Draw(t, "u64a"), rapid.Uint64().Draw(t, "u64b")
	in.Bool1, in.Bool2 = rapid.Bool().Draw(t, "bool1"), rapid.Bool().Draw(t, "bool2")
	for i := range in.IP {
		in.IP[i] = rapid.Uint8().Draw(t, "ip")
	}
	if rapid.Bool().Draw(t, "ip.special") {
		copy(in.IP[:], gen.Addr(t, "ip.addr", 4)) // loopback, link-local, private, multicast, broadcast, ... addresses
	}
	switch in.Builder {
	case "Notification":
		in.B1 = c19Bytes(t, "spi", 255)
		in.B2 = c19Bytes(t, "data", 65527)
	case "Certificate", "Encrypted", "Nonce":
		in.B1 = c19Bytes(t, "data", 65530)
		if in.Builder == "Certificate" && rapid.IntRange(0, 4).Draw(t, "cert.pem") == 4 {
			in.B1 = model.Bytes("-----BEGIN CERTIFICATE-----\nMIIBszCCAVmgAwIBAgIUQ0FGRUJBQkU=\n-----END CERTIFICATE-----\n")
			in.U8a = rapid.SampledFrom([]uint8{4, 4, 1, 7, 12}).Draw(t, "cert.enc")
		}
	case "KeyExchange", "IDi", "IDr", "Authentication":
		in.B1 = c19Bytes(t, "data", 65527)
		if (in.Builder == "IDi" || in.Builder == "IDr") && rapid.IntRange(0, 3).Draw(t, "id.text") == 3 {
			in.B1 = model.Bytes(rapid.SampledFrom([]string{"Host.Example.ORG", "User@Example.ORG", "gw.example.org.", "UPPER"}).Draw(t, "id.textdata"))
			in.U8a = rapid.SampledFrom([]uint8{2, 3, 11, 1}).Draw(t, "id.type")
		}
	case "ConfigurationAttribute":
		in.B1 = c19Bytes(t, "data", 65527)
		in.U16a &= 0x7fff // the attribute type is a 15-bit field; larger numbers are outside the builder's domain
	case "Proposal":
		in.B1 = c19Bytes(t, "spi", 255)
	case "EapExpanded":
		in.B1 = c19Bytes(t, "vdata", 65519)
		in.U32a &= 0xffffff
	case "EAP5GNAS":
		n := rapid.IntRange(1, 300).Draw(t, "nas.n")
		if rapid.IntRange(0, 5).Draw(t, "nas.big") == 5 {
			n = rapid.SampledFrom([]int{65514, 65515, 65516, 65534, 65535, 65536, 70000}).Draw(t, "nas.n2")
		}
		in.B1 = gen.Fill(t, "nas", n)
		switch rapid.IntRange(0, 5).Draw(t, "nas.content") {
		case 4:
			in.B1[0] = rapid.SampledFrom([]byte{0x7e, 0x2e}).Draw(t, "nas.epd") // a real NAS message starts with its protocol discriminator
		case 5:
			// a PDU that itself looks like EAP-5G vendor data (message id 2, spare, a 16-bit length that fits, a NAS message):
			// the builder frames what it is given, whatever that looks like
			if n >= 5 && n <= 65535 {
				in.B1[0], in.B1[1], in.B1[2], in.B1[3] = 2, 0, byte((n-4)>>8), byte(n-4)
				in.B1[4] = rapid.SampledFrom([]byte{0x7e, 0x2e}).Draw(t, "nas.epd")
			}
		}
	case "Notify5G_QOS_INFO":
		n := rapid.IntRange(0, 20).Draw(t, "qfi.n")
		if rapid.IntRange(0, 3).Draw(t, "qfi.big") == 3 {
			n = rapid.SampledFrom([]int{249, 250, 251, 252, 253, 255, 256, 300}).Draw(t, "qfi.n2")
		}
		in.B1 = gen.Fill(t, "qfi", n)
	case "IndividualTrafficSelector":
		n := 4
		if in.Bool1 {
			n = 16
		}
		in.B1, in.B2 = gen.Addr(t, "saddr", n), gen.Addr(t, "eaddr", n)
	case "Delete":
		if in.Bool1 {
			for i := rapid.IntRange(0, 20).Draw(t, "nspi"); i > 0; i-- {
				in.U32s = append(in.U32s, rapid.Uint32().Draw(t, "spi"))
			}
		}
	case "Transform":
		in.Attr = rapid.SampledFrom([]string{"none", "tv", "tlv"}).Draw(t, "attr")
		in.U16a &= 0x7fff
		if rapid.Bool().Draw(t, "keylength-attr") {
			in.U16a = 14 // Key Length, with values that mean something as bits or as octets
			in.U16b = rapid.SampledFrom([]uint16{0, 8, 16, 24, 32, 64, 128, 192, 256, 512, 1024, 2048}).Draw(t, "keylength")
		}
		in.B1 = gen.BytesLen(t, "var", 1, 300, 1, 2)
		in.U8a = uint8(rapid.IntRange(1, 5).Draw(t, "ttype"))
	case "NotifyNAS_TCP_PORT":
		if in.U16a == 0 {
			in.U16a = 1
		}
	}
	return in
}

// encodes one library payload alone and parses it with the reference (nil, err on failure of either)
func c19Wire(p message.IKEPayload) (*model.Payload, error) {
	c := message.IKEPayloadContainer{p}
	var w []byte
	if err := probe.Try(func() error { var e error; w, e = c.Encode(); return e }); err != nil {
		return nil, err
	}
	ps, err := ref.ParseChain(uint8(p.Type()), w, ref.Parse{Strict: true})
	if err != nil {
		return nil, fmt.Errorf("REFPARSE: encoding is not well-formed: %v", err)
	}
	if len(ps) != 1 {
		return nil, fmt.Errorf("REFPARSE: %d payloads", len(ps))
	}
	return &ps[0], nil
}

// c19Oracle hands every octet-string argument to the builders as a view into a larger buffer (spare capacity, guard octets
// behind it - what an argument cut out of a received message looks like) in every other case, and demands that neither the
// argument nor the memory behind it was written to when the builder (and the encoding of what it built) is done.
// c19Built: model of the payload the last successful builder call appended (set by c19Oracle1)
var c19Built *model.Payload

func c19Oracle(in c19In) probe.Outcome {
	var unchanged []func() error
	c19Built = nil
	carve := (int(in.U8a)+len(in.B1))%2 == 1
	o := c19Oracle1(in, func(b model.Bytes) []byte {
		if !carve || len(b) == 0 {
			return append([]byte(nil), b...)
		}
		v, chk := probe.Carve(b)
		unchanged = append(unchanged, chk)
		return v[0]
	})
	// the same builder call once more on a container that now ENDS with the payload just built (a second notify with the same
	// values, the same vendor id twice, ...): again exactly one payload is appended, equal to the arguments
	if o.Err == nil && c19Built != nil && in.U8b%3 == 0 && c19Built.Kind != model.KRaw && len(model.JSON(*c19Built)) < 20000 {
		in2 := in
		in2.Prior = append(append([]model.Payload(nil), in.Prior...), *c19Built)
		c19Built = nil
		if o2 := c19Oracle1(in2, func(b model.Bytes) []byte { return append([]byte(nil), b...) }); o2.Err != nil {
			return probe.Fail("second call with the same arguments, the container already ending with an identical payload: %v", o2.Err)
		}
		o.Labels = append(o.Labels, "same-call-twice")
	}
	if o.Err == nil {
		for _, chk := range unchanged {
			if err := chk(); err != nil {
				return probe.Fail("%s: %v", in.Builder, err)
			}
		}
		if carve && len(unchanged) > 0 {
			o.Labels = append(o.Labels, "arguments-with-spare-capacity")
		}
	}
	return o
}

// c19Result: what one top-level builder call is expected to have done.
type c19Result struct {
	want     *model.Payload     // expected model of the appended payload
	berr     error              // error returned by the builder (those that return one)
	oversize bool               // an argument exceeds what a wire field can hold: an error is REQUIRED (builder or Encode)
	mayError bool               // not encodable on its own (no children yet / empty data): an error is allowed
	returned message.IKEPayload // the payload the builder returned (those that return one)
	labels   []string
}

// c19Apply makes the builder call described by in on the container c.
func c19Apply(c *message.IKEPayloadContainer, in c19In, cp func(b model.Bytes) []byte) (r c19Result, err error) {
	var want *model.Payload
	var berr error
	oversize, mayError := false, false
	var returned message.IKEPayload
	var labels []string
	ip := fmt.Sprintf("%d.%d.%d.%d", in.IP[0], in.IP[1], in.IP[2], in.IP[3])
	err = probe.Try(func() error {
		switch in.Builder {
		case "Notification":
			c.BuildNotification(in.U8a, in.U16a, cp(in.B1), cp(in.B2))
			want = &model.Payload{Kind: model.KNotify, Notify: &model.Notify{Protocol: in.U8a, Type: in.U16a, SPI: in.B1, Data: in.B2}}
			oversize = len(in.B1) > 255 || 8+len(in.B1)+len(in.B2) > 65535
		case "Certificate":
			c.BuildCertificate(in.U8a, cp(in.B1))
			want = &model.Payload{Kind: model.KCERT, Cert: &model.Cert{Encoding: in.U8a, Data: in.B1}}
			oversize, mayError = 5+len(in.B1) > 65535, len(in.B1) == 0
		case "Encrypted":
			returned = c.BuildEncrypted(message.IkePayloadType(in.U8a), cp(in.B1))
			want = &model.Payload{Kind: model.KRaw, Raw: &model.Raw{Type: 46, Body: in.B1}, Data: model.Bytes{in.U8a}}
		case "KeyExchange":
			// the builder's name carries a typo ("BUildKeyExchange"); look it up by name so that a rename to the obvious
			// spelling does not stop the harness from compiling
			mv := reflect.ValueOf(c).MethodByName("BUildKeyExchange")
			if !mv.IsValid() {
				mv = reflect.ValueOf(c).MethodByName("BuildKeyExchange")
			}
			if !mv.IsValid() {
				return fmt.Errorf("HARNESS: no key exchange builder found")
			}
			mv.Call([]reflect.Value{reflect.ValueOf(in.U16a), reflect.ValueOf(cp(in.B1))})
			want = &model.Payload{Kind: model.KKE, KE: &model.KE{Group: in.U16a, Data: in.B1}}
			oversize, mayError = 8+len(in.B1) > 65535, len(in.B1) == 0
		case "IDi":
			c.BuildIdentificationInitiator(in.U8a, cp(in.B1))
			want = &model.Payload{Kind: model.KIDi, ID: &model.ID{Type: in.U8a, Data: in.B1}}
			oversize, mayError = 8+len(in.B1) > 65535, len(in.B1) == 0
		case "IDr":
			c.BuildIdentificationResponder(in.U8a, cp(in.B1))
			want = &model.Payload{Kind: model.KIDr, ID: &model.ID{Type: in.U8a, Data: in.B1}}
			oversize, mayError = 8+len(in.B1) > 65535, len(in.B1) == 0
		case "Authentication":
			c.BuildAuthentication(in.U8a, cp(in.B1))
			want = &model.Payload{Kind: model.KAUTH, Auth: &model.Auth{Method: in.U8a, Data: in.B1}}
			oversize, mayError = 8+len(in.B1) > 65535, len(in.B1) == 0
		case "Configuration":
			returned = c.BuildConfiguration(in.U8a)
			want = &model.Payload{Kind: model.KCP, CP: &model.CP{Type: in.U8a}}
			mayError = true // no attributes yet: not encodable on its own
		case "Nonce":
			c.BuildNonce(cp(in.B1))
			want = &model.Payload{Kind: model.KNonce, Data: in.B1}
			oversize = 4+len(in.B1) > 65535
		case "TSi":
			returned = c.BuildTrafficSelectorInitiator()
			want = &model.Payload{Kind: model.KTSi, TS: &model.TS{}}
			mayError = true
		case "TSr":
			returned = c.BuildTrafficSelectorResponder()
			want = &model.Payload{Kind: model.KTSr, TS: &model.TS{}}
			mayError = true
		case "SecurityAssociation":
			returned = c.BuildSecurityAssociation()
			want = &model.Payload{Kind: model.KSA, SA: &model.SA{}}
		case "Delete":
			size := uint8(0)
			if in.Bool1 {
				size = 4
			}
			count := uint16(len(in.U32s))
			// the count argument is an argument of its own: when it disagrees with the list the payload still holds what it
			// was given (and cannot be encoded) - it is not cut or padded to fit
			if in.Bool1 && len(in.U32s) > 0 && in.U8c%4 >= 2 {
				if in.U8c%4 == 2 {
					count += 1 + uint16(in.U8b%3)
				} else {
					count -= 1 + uint16(in.U8b)%count
				}
				mayError = true
				labels = append(labels, "delete:count!=len(spis)")
			}
			if !in.Bool1 && in.U8c%4 == 3 {
				// SPI size 0 (as for the IKE SA itself) with a count that says otherwise: an argument like any other - the payload
				// holds what it was given (and cannot be encoded)
				count = 1 + uint16(in.U8b%3)
				mayError = true
				labels = append(labels, "delete:size0-count>0")
			}
			c.BuildDeletePayload(in.U8a, size, count, append([]uint32(nil), in.U32s...))
			want = &model.Payload{Kind: model.KDelete, Delete: &model.Delete{Protocol: in.U8a, SPISize: size, Count: count, SPIs: in.U32s}}
		case "EAP":
			returned = c.BuildEAP(eap.EapCode(in.U8a), in.U8b)
			want = &model.Payload{Kind: model.KEAP, EAP: &model.EAP{Code: in.U8a, Identifier: in.U8b, Kind: model.ENone}}
		case "EAPSuccess":
			c.BuildEAPSuccess(in.U8a)
			want = &model.Payload{Kind: model.KEAP, EAP: &model.EAP{Code: 3, Identifier: in.U8a, Kind: model.ENone}}
		case "EAPfailure":
			c.BuildEAPfailure(in.U8a)
			want = &model.Payload{Kind: model.KEAP, EAP: &model.EAP{Code: 4, Identifier: in.U8a, Kind: model.ENone}}
		case "EAP5GStart":
			c.BuildEAP5GStart(in.U8a)
			e := ref.EAP5GStart(in.U8a)
			want = &model.Payload{Kind: model.KEAP, EAP: &e}
		case "EAP5GNAS":
			berr = c.BuildEAP5GNAS(in.U8a, cp(in.B1))
			e := ref.EAP5GNAS(in.U8a, in.B1)
			want = &model.Payload{Kind: model.KEAP, EAP: &e}
			oversize = len(in.B1) > 65535 || 4+model.EAPSize(e) > 65535
		case "Notify5G_QOS_INFO":
			berr = c.BuildNotify5G_QOS_INFO(in.U8a, cp(in.B1), in.Bool1, in.Bool2, in.U8b)
			want = &model.Payload{Kind: model.KNotify, Notify: &model.Notify{Protocol: 0, Type: ref.Notify5GQoS, Data: ref.QoSInfo(in.U8a, in.B1, in.Bool1, in.Bool2, in.U8b)}}
			n := 4 + len(in.B1)
			if in.Bool2 {
				n++
			}
			oversize = len(in.B1) > 255 || n > 255
		case "NotifyNAS_IP4_ADDRESS":
			c.BuildNotifyNAS_IP4_ADDRESS(ip)
			want = &model.Payload{Kind: model.KNotify, Notify: &model.Notify{Type: ref.NotifyNASIP4, Data: in.IP[:]}}
		case "NotifyUP_IP4_ADDRESS":
			c.BuildNotifyUP_IP4_ADDRESS(ip)
			want = &model.Payload{Kind: model.KNotify, Notify: &model.Notify{Type: ref.NotifyUPIP4, Data: in.IP[:]}}
		case "NotifyNAS_TCP_PORT":
			c.BuildNotifyNAS_TCP_PORT(in.U16a)
			want = &model.Payload{Kind: model.KNotify, Notify: &model.Notify{Type: ref.NotifyNASPort, Data: model.Bytes{byte(in.U16a >> 8), byte(in.U16a)}}}
		default:
			return fmt.Errorf("HARNESS: builder %q", in.Builder)
		}
		return nil
	})
	return c19Result{want, berr, oversize, mayError, returned, labels}, err
}

func c19Oracle1(in c19In, cp func(b model.Bytes) []byte) probe.Outcome {
	labels := []string{"builder:" + in.Builder}
	if len(in.Prior) > 0 {
		labels = append(labels, "prior-contents")
	}

	switch in.Builder {
	case "NewHeader", "NewMessage":
		var h *message.IKEHeader
		var m *message.IKEMessage
		var prior message.IKEPayloadContainer
		if err := probe.Try(func() error {
			if in.Builder == "NewHeader" {
				h = message.NewHeader(in.U64a, in.U64b, in.U8a, in.Bool1, in.Bool2, in.U32a, in.U8b, cp(in.B1))
				return nil
			}
			var e error
			if prior, e = bridge.ToLibPayloads(in.Prior); e != nil {
				return e
			}
			m = message.NewMessage(in.U64a, in.U64b, in.U8a, in.Bool1, in.Bool2, in.U32a, prior)
			h = m.IKEHeader
			return nil
		}); err != nil {
			return probe.Fail("%s: %v", in.Builder, err)
		}
		wantFlags := uint8(0)
		if in.Bool1 {
			wantFlags |= 0x20
		}
		if in.Bool2 {
			wantFlags |= 0x08
		}
		if h.MajorVersion != 2 || h.MinorVersion != 0 {
			return probe.Fail("version %d.%d, want 2.0", h.MajorVersion, h.MinorVersion)
		}
		if h.InitiatorSPI != in.U64a || h.ResponderSPI != in.U64b || h.ExchangeType != in.U8a || h.MessageID != in.U32a {
			return probe.Fail("header fields differ from the arguments: %+v", *h)
		}
		if h.Flags != wantFlags {
			return probe.Fail("flags %#x, want exactly %#x (response=%v initiator=%v)", h.Flags, wantFlags, in.Bool1, in.Bool2)
		}
		if h.IsResponse() != in.Bool1 || h.IsInitiator() != in.Bool2 {
			return probe.Fail("flag accessors report response=%v initiator=%v, requested %v %v", h.IsResponse(), h.IsInitiator(), in.Bool1, in.Bool2)
		}
		if in.Builder == "NewHeader" && h.NextPayload != in.U8b {
			return probe.Fail("NextPayload %d, want %d", h.NextPayload, in.U8b)
		}
		if m != nil {
			got, err := bridge.FromLibPayloads(m.Payloads)
			if err != nil || model.DiffPayloads(in.Prior, got) != "" || len(m.Payloads) != len(prior) {
				return probe.Fail("NewMessage does not carry the given payloads")
			}
			// and its encoding carries the same header fields
			var w []byte
			if err := probe.Try(func() error { var e error; w, e = m.Encode(); return e }); err == nil {
				pm, perr := ref.ParseMessage(w, ref.Parse{Strict: true})
				if perr != nil {
					return probe.Fail("encoding of NewMessage is not well-formed: %v", perr)
				}
				if pm.Header != (model.Header{ISPI: in.U64a, RSPI: in.U64b, Major: 2, Minor: 0, Exchange: in.U8a, Flags: wantFlags, MsgID: in.U32a}) {
					return probe.Fail("encoded header differs: %+v", pm.Header)
				}
			}
		}
		return probe.Outcome{NonTrivial: true, Labels: labels}
	}

	// sub-element builders working on their own containers
	switch in.Builder {
	case "ConfigurationAttribute":
		var c message.ConfigurationAttributeContainer
		c.BuildConfigurationAttribute(1, []byte{9})
		first := c[0]
		if err := probe.Try(func() error { c.BuildConfigurationAttribute(in.U16a, cp(in.B1)); return nil }); err != nil {
			return probe.Fail("panic: %v", err)
		}
		if len(c) != 2 || c[0] != first || first.Type != 1 || !bytes.Equal(first.Value, []byte{9}) {
			return probe.Fail("BuildConfigurationAttribute did not append exactly one element / touched earlier ones")
		}
		if c[1].Type != in.U16a || !bytes.Equal(c[1].Value, in.B1) {
			return probe.Fail("configuration attribute fields differ from the arguments")
		}
		if len(in.B1) > 0xffff {
			labels = append(labels, "oversize")
			p := &message.Configuration{ConfigurationType: 1, ConfigurationAttribute: c}
			if mp, err := c19Wire(p); err == nil {
				if mp.CP.Attrs[1].Type != in.U16a || !bytes.Equal(mp.CP.Attrs[1].Value, in.B1) {
					return probe.Fail("oversize configuration attribute (type %#x, %d octets) encodes successfully to different fields", in.U16a, len(in.B1))
				}
			}
		}
		return probe.Outcome{NonTrivial: true, Labels: labels}
	case "IndividualTrafficSelector":
		var c message.IndividualTrafficSelectorContainer
		c.BuildIndividualTrafficSelector(7, 1, 2, 3, []byte{1, 1, 1, 1}, []byte{2, 2, 2, 2})
		first := c[0]
		ty := uint8(7)
		if in.Bool1 {
			ty = 8
		}
		if err := probe.Try(func() error {
			c.BuildIndividualTrafficSelector(ty, in.U8a, in.U16a, in.U16b, cp(in.B1), cp(in.B2))
			return nil
		}); err != nil {
			return probe.Fail("panic: %v", err)
		}
		if len(c) != 2 || c[0] != first || first.StartPort != 2 {
			return probe.Fail("BuildIndividualTrafficSelector did not append exactly one element")
		}
		s := c[1]
		if s.TSType != ty || s.IPProtocolID != in.U8a || s.StartPort != in.U16a || s.EndPort != in.U16b || !bytes.Equal(s.StartAddress, in.B1) || !bytes.Equal(s.EndAddress, in.B2) {
			return probe.Fail("traffic selector fields differ from the arguments: %+v", *s)
		}
		// one more selector that continues the range of the one just built (same type, protocol, ports; start = previous end + 1),
		// and the very same selector again: each call appends one element and leaves the earlier ones alone
		{
			next := append([]byte(nil), in.B2...)
			for i := len(next) - 1; i >= 0; i-- {
				next[i]++
				if next[i] != 0 {
					break
				}
			}
			end := append([]byte(nil), next...)
			end[len(end)-1] |= 0x0f
			if err := probe.Try(func() error {
				c.BuildIndividualTrafficSelector(ty, in.U8a, in.U16a, in.U16b, cp(next), cp(end))
				c.BuildIndividualTrafficSelector(ty, in.U8a, in.U16a, in.U16b, cp(next), cp(end))
				return nil
			}); err != nil {
				return probe.Fail("panic: %v", err)
			}
			if len(c) != 4 {
				return probe.Fail("two further BuildIndividualTrafficSelector calls (a range adjacent to the previous one, then the same again) appended %d elements, want 2", len(c)-2)
			}
			if !bytes.Equal(c[1].StartAddress, in.B1) || !bytes.Equal(c[1].EndAddress, in.B2) || !bytes.Equal(c[2].StartAddress, next) || !bytes.Equal(c[2].EndAddress, end) ||
				!bytes.Equal(c[3].StartAddress, next) || !bytes.Equal(c[3].EndAddress, end) {
				return probe.Fail("building a selector adjacent to the previous one changed an earlier selector or did not store its arguments")
			}
			c = c[:2]
		}
		mp, err := c19Wire(&message.TrafficSelectorInitiator{TrafficSelectors: c})
		if err != nil {
			return probe.Fail("encoding the built selectors: %v", err)
		}
		ws := mp.TS.Selectors[1]
		if ws.Type != ty || ws.Protocol != in.U8a || ws.StartPort != in.U16a || ws.EndPort != in.U16b || !ws.StartAddr.Equal(in.B1) || !ws.EndAddr.Equal(in.B2) {
			return probe.Fail("encoded traffic selector differs from the arguments")
		}
		return probe.Outcome{NonTrivial: true, Labels: labels}
	case "Proposal":
		var c message.ProposalContainer
		p0 := c.BuildProposal(1, 1, []byte{7})
		var p *message.Proposal
		if err := probe.Try(func() error { p = c.BuildProposal(in.U8a, in.U8b, cp(in.B1)); return nil }); err != nil {
			return probe.Fail("panic: %v", err)
		}
		if len(c) != 2 || c[0] != p0 || c[1] != p || p0.ProposalNumber != 1 || !bytes.Equal(p0.SPI, []byte{7}) {
			return probe.Fail("BuildProposal did not append exactly one element / returned a different one")
		}
		if p.ProposalNumber != in.U8a || p.ProtocolID != in.U8b || !bytes.Equal(p.SPI, in.B1) {
			return probe.Fail("proposal fields differ from the arguments")
		}
		p0.EncryptionAlgorithm.BuildTransform(1, 12, nil, nil, nil)
		p.EncryptionAlgorithm.BuildTransform(1, 12, nil, nil, nil)
		mp, err := c19Wire(&message.SecurityAssociation{Proposals: c})
		if len(in.B1) > 255 {
			labels = append(labels, "oversize")
			if err == nil && !mp.SA.Proposals[1].SPI.Equal(in.B1) {
				return probe.Fail("oversize SPI (%d octets) encodes successfully to a different SPI", len(in.B1))
			}
		} else {
			if err != nil {
				return probe.Fail("encoding the built proposal: %v", err)
			}
			wp := mp.SA.Proposals[1]
			if wp.Number != in.U8a || wp.Protocol != in.U8b || !wp.SPI.Equal(in.B1) {
				return probe.Fail("encoded proposal differs from the arguments")
			}
		}
		return probe.Outcome{NonTrivial: true, Labels: labels}
	case "Transform":
		var c message.TransformContainer
		c.BuildTransform(2, 5, nil, nil, nil)
		first := c[0]
		var at, av *uint16
		var vv []byte
		switch in.Attr {
		case "tv":
			at, av = &in.U16a, &in.U16b
		case "tlv":
			at, vv = &in.U16a, cp(in.B1)
		}
		if err := probe.Try(func() error { c.BuildTransform(in.U8a, in.U32a2id(), at, av, vv); return nil }); err != nil {
			return probe.Fail("panic: %v", err)
		}
		if len(c) != 2 || c[0] != first || first.TransformID != 5 {
			return probe.Fail("BuildTransform did not append exactly one element (len %d)", len(c))
		}
		tr := c[1]
		if tr.TransformType != in.U8a || tr.TransformID != in.U32a2id() {
			return probe.Fail("transform type/id differ from the arguments")
		}
		// the same builder call once more with another attribute value (e.g. AES-CBC offered with two key lengths):
		// exactly one more element, holding the new value
		{
			var av2 *uint16
			var vv2 []byte
			v2 := in.U16b + 64
			switch in.Attr {
			case "tv":
				av2 = &v2
			case "tlv":
				vv2 = append(append([]byte(nil), in.B1...), 0x01)
			}
			if err := probe.Try(func() error { c.BuildTransform(in.U8a, in.U32a2id(), at, av2, vv2); return nil }); err != nil {
				return probe.Fail("panic: %v", err)
			}
			if len(c) != 3 || c[0] != first || c[1] != tr {
				return probe.Fail("a second BuildTransform call with the same type/id and another attribute value did not append exactly one element (len %d)", len(c))
			}
			if in.Attr == "tv" && c[2].AttributeValue != v2 || in.Attr == "tlv" && !bytes.Equal(c[2].VariableLengthAttributeValue, vv2) || tr.AttributeValue != map[bool]uint16{true: in.U16b, false: 0}[in.Attr == "tv"] {
				return probe.Fail("second BuildTransform call: values of the two elements are not the ones given")
			}
			c = c[:2]
		}
		got := model.Transform{}
		tmp := message.Proposal{}
		switch in.U8a {
		case 1:
			tmp.EncryptionAlgorithm = message.TransformContainer{tr}
		case 2:
			tmp.PseudorandomFunction = message.TransformContainer{tr}
		case 3:
			tmp.IntegrityAlgorithm = message.TransformContainer{tr}
		case 4:
			tmp.DiffieHellmanGroup = message.TransformContainer{tr}
		default:
			tmp.ExtendedSequenceNumbers = message.TransformContainer{tr}
		}
		mp, err := c19Wire(&message.SecurityAssociation{Proposals: message.ProposalContainer{&tmp}})
		if err != nil {
			return probe.Fail("encoding the built transform: %v", err)
		}
		got = mp.SA.Proposals[0].Transforms[0]
		want := model.Transform{Type: in.U8a, ID: in.U32a2id()}
		switch in.Attr {
		case "tv":
			want.Attr = &model.Attr{TV: true, Type: in.U16a, Value: in.U16b}
		case "tlv":
			want.Attr = &model.Attr{TV: false, Type: in.U16a, Var: in.B1}
		}
		if !bytes.Equal(model.JSON(model.Payload{SA: &model.SA{Proposals: []model.Proposal{{Transforms: []model.Transform{got}}}}}.Normalize()),
			model.JSON(model.Payload{SA: &model.SA{Proposals: []model.Proposal{{Transforms: []model.Transform{want}}}}}.Normalize())) {
			return probe.Fail("encoded transform %s differs from the arguments %s", model.JSON(got), model.JSON(want))
		}
		return probe.Outcome{NonTrivial: true, Labels: append(labels, "attr:"+in.Attr)}
	case "EapExpanded":
		var x *eap.EapExpanded
		if err := probe.Try(func() error { x = message.BuildEapExpanded(in.U32a, in.U32b, cp(in.B1)); return nil }); err != nil {
			return probe.Fail("panic: %v", err)
		}
		if x.VendorID != in.U32a || x.VendorType != in.U32b || !bytes.Equal(x.VendorData, in.B1) {
			return probe.Fail("expanded type fields differ from the arguments")
		}
		return probe.Outcome{NonTrivial: len(in.B1) > 0, Labels: labels}
	}

	// builders appending one payload to a container with prior contents
	c, err := bridge.ToLibPayloads(in.Prior)
	if err != nil {
		return probe.Fail("building prior contents: %v", err)
	}
	held := append(message.IKEPayloadContainer(nil), c...)
	res, perr := c19Apply(&c, in, cp)
	want, berr, oversize, mayError, returned := res.want, res.berr, res.oversize, res.mayError, res.returned
	labels = append(labels, res.labels...)
	if perr != nil {
		return probe.Fail("%s: %v", in.Builder, perr)
	}
	if oversize {
		labels = append(labels, "oversize")
	}
	if mayError {
		labels = append(labels, "unencodable-alone")
	}
	// earlier payloads: still there, in place, unchanged - both the container's entries and the objects the caller holds
	if len(c) < len(held) {
		return probe.Fail("%s removed earlier payloads", in.Builder)
	}
	for _, view := range []message.IKEPayloadContainer{c[:len(held)], held} {
		priorAfter, err := bridge.FromLibPayloads(view)
		if err != nil || model.DiffPayloads(in.Prior, priorAfter) != "" {
			return probe.Fail("%s altered or replaced an earlier payload: %s", in.Builder, model.DiffPayloads(in.Prior, priorAfter))
		}
	}
	if berr != nil {
		if !oversize {
			return probe.Fail("%s returned an error for arguments within the limits: %v", in.Builder, berr)
		}
		if len(c) != len(held) {
			return probe.Fail("%s returned an error but still appended a payload", in.Builder)
		}
		return probe.Outcome{NonTrivial: true, Labels: append(labels, "builder-error")}
	}
	if len(c) != len(held)+1 {
		return probe.Fail("%s appended %d payloads, want exactly 1", in.Builder, len(c)-len(held))
	}
	newp := c[len(c)-1]
	if returned != nil && fmt.Sprintf("%p", returned) != fmt.Sprintf("%p", newp) {
		return probe.Fail("%s returned a payload that is not the one it appended", in.Builder)
	}
	gotModel, err := bridge.FromLibPayload(newp)
	if err != nil {
		return probe.Fail("HARNESS: %v", err)
	}
	if !bytes.Equal(model.JSON(gotModel.Normalize()), model.JSON(want.Normalize())) {
		return probe.Fail("%s: fields of the appended payload differ from the arguments:\n got  %s\n want %s", in.Builder, model.Clip(model.JSON(gotModel.Normalize())), model.Clip(model.JSON(want.Normalize())))
	}
	c19Built = &gotModel
	// the encoding, parsed independently, carries the arguments (3GPP layouts built by the reference)
	if in.Builder == "Encrypted" {
		return probe.Outcome{NonTrivial: true, Labels: labels} // its encoding is C06's business
	}
	wire, werr := c19Wire(newp)
	if werr == nil && oversize {
		return probe.Fail("%s: an oversize argument was accepted: neither the builder nor Encode reports an error (the field was truncated or wrapped)", in.Builder)
	}
	switch {
	case werr == nil:
		if !bytes.Equal(model.JSON(wire.Normalize()), model.JSON(want.Normalize())) {
			return probe.Fail("%s: the encoding of the appended payload parses to different fields than the arguments (oversize=%v):\n got  %s\n want %s",
				in.Builder, oversize, model.Clip(model.JSON(wire.Normalize())), model.Clip(model.JSON(want.Normalize())))
		}
	case len(werr.Error()) > 8 && werr.Error()[:8] == "REFPARSE":
		return probe.Fail("%s: %v", in.Builder, werr)
	case probe.IsPanic(werr):
		return probe.Fail("%s: encoding the appended payload panics: %v", in.Builder, werr)
	case !oversize && !mayError:
		return probe.Fail("%s: encoding the appended payload fails although the arguments are within the limits: %v", in.Builder, werr)
	default:
		labels = append(labels, "encode-error")
	}
	return probe.Outcome{NonTrivial: true, Labels: labels}
}

func (in c19In) U32a2id() uint16 { return uint16(in.U32a) }

var c19Build = probe.Define("C19", "builders", c19Gen, c19Oracle)

// A container variable is reused for the next message / proposal after its contents were handed on: whoever took the list
// over (a payload, a message, another variable) keeps exactly what was handed over when the variable is Reset() and refilled.
type c19ResetIn struct {
	Container string      `json:"container"` // payloads | attributes | selectors | proposals | transforms
	N         int         `json:"elements_before_reset"`
	B         model.Bytes `json:"data"`
	U         uint16      `json:"u16"`
}

var c19Containers = []string{"payloads", "attributes", "selectors", "proposals", "transforms"}

var c19Reset = probe.Define("C19", "reset-then-build", func(t *rapid.T) c19ResetIn {
	return c19ResetIn{Container: rapid.SampledFrom(c19Containers).Draw(t, "container"), N: rapid.IntRange(1, 5).Draw(t, "n"),
		B: gen.BytesLen(t, "data", 1, 40, 1, 4, 16), U: rapid.Uint16().Draw(t, "u16") & 0x7fff}
}, func(in c19ResetIn) probe.Outcome {
	addr4 := func(i int) []byte { return []byte{10, 0, byte(i), 1} }
	cp := func(b []byte) []byte { return append([]byte(nil), b...) }
	var fail string
	check := func(lenAfterReset, lenAfterBuild int, takenSame bool) {
		switch {
		case lenAfterReset != 0:
			fail = fmt.Sprintf("Reset() left %d elements in the container", lenAfterReset)
		case lenAfterBuild != 1:
			fail = fmt.Sprintf("the builder appended %d elements to the reset container, want exactly 1", lenAfterBuild)
		case !takenSame:
			fail = "building into a container variable after Reset() overwrote the list that had been handed on before the Reset()"
		}
	}
	err := probe.Try(func() error {
		switch in.Container {
		case "payloads":
			var c message.IKEPayloadContainer
			for i := 0; i < in.N; i++ {
				c.BuildNonce(append([]byte{byte(i)}, in.B...))
			}
			taken := c // e.g. message.NewMessage(..., c) or msg.Payloads = c
			first := append([]message.IKEPayload(nil), taken...)
			c.Reset()
			l0 := len(c)
			c.BuildNonce(cp(in.B))
			same := len(taken) == in.N
			for i := range first {
				n, ok := taken[i].(*message.Nonce)
				same = same && taken[i] == first[i] && ok && bytes.Equal(n.NonceData, append([]byte{byte(i)}, in.B...))
			}
			check(l0, len(c), same)
		case "attributes":
			var c message.ConfigurationAttributeContainer
			for i := 0; i < in.N; i++ {
				c.BuildConfigurationAttribute(uint16(i+1), cp(in.B))
			}
			taken := c
			first := append([]*message.IndividualConfigurationAttribute(nil), taken...)
			c.Reset()
			l0 := len(c)
			c.BuildConfigurationAttribute(in.U, cp(in.B))
			same := len(taken) == in.N
			for i := range first {
				same = same && taken[i] == first[i] && taken[i].Type == uint16(i+1) && bytes.Equal(taken[i].Value, in.B)
			}
			check(l0, len(c), same)
		case "selectors":
			var c message.IndividualTrafficSelectorContainer
			for i := 0; i < in.N; i++ {
				c.BuildIndividualTrafficSelector(7, 6, uint16(i), 99, addr4(i), addr4(i+100))
			}
			taken := c
			first := append([]*message.IndividualTrafficSelector(nil), taken...)
			c.Reset()
			l0 := len(c)
			c.BuildIndividualTrafficSelector(7, 17, in.U, in.U, addr4(200), addr4(201))
			same := len(taken) == in.N
			for i := range first {
				same = same && taken[i] == first[i] && taken[i].StartPort == uint16(i) && taken[i].IPProtocolID == 6 && bytes.Equal(taken[i].StartAddress, addr4(i))
			}
			check(l0, len(c), same)
		case "proposals":
			var c message.ProposalContainer
			for i := 0; i < in.N; i++ {
				c.BuildProposal(uint8(i+1), 1, cp(in.B))
			}
			taken := c
			first := append([]*message.Proposal(nil), taken...)
			c.Reset()
			l0 := len(c)
			c.BuildProposal(9, 3, cp(in.B))
			same := len(taken) == in.N
			for i := range first {
				same = same && taken[i] == first[i] && taken[i].ProposalNumber == uint8(i+1) && taken[i].ProtocolID == 1 && bytes.Equal(taken[i].SPI, in.B)
			}
			check(l0, len(c), same)
		default:
			var c message.TransformContainer
			for i := 0; i < in.N; i++ {
				c.BuildTransform(1, uint16(i+1), nil, nil, nil)
			}
			taken := c
			first := append([]*message.Transform(nil), taken...)
			c.Reset()
			l0 := len(c)
			c.BuildTransform(3, in.U, nil, nil, nil)
			same := len(taken) == in.N
			for i := range first {
				same = same && taken[i] == first[i] && taken[i].TransformType == 1 && taken[i].TransformID == uint16(i+1)
			}
			check(l0, len(c), same)
		}
		return nil
	})
	if err != nil {
		return probe.Fail("%s: %v", in.Container, err)
	}
	if fail != "" {
		return probe.Fail("%s container: %s", in.Container, fail)
	}
	return probe.OK(true, "reset:"+in.Container)
})

// A sequence of builder calls on one container (or on two containers alternately): after every call EVERY payload built so
// far - not only the newest - still holds the arguments of ITS call, and encodes to them at the end. Steps repeat earlier
// steps (A B A B: the NAS and the user-plane address of one UE, then of the next), and large arguments follow large arguments.
type c19SeqIn struct {
	Steps         []c19In `json:"steps"`
	TwoContainers bool    `json:"two_containers"`
}

var c19SeqBuilders = []string{"Notification", "Certificate", "KeyExchange", "IDi", "IDr", "Authentication", "Nonce", "Delete", "EAP", "EAPSuccess", "EAPfailure",
	"EAP5GStart", "EAP5GNAS", "Notify5G_QOS_INFO", "NotifyNAS_IP4_ADDRESS", "NotifyUP_IP4_ADDRESS", "NotifyNAS_TCP_PORT"}

var c19Sequence = probe.Define("C19", "sequence", func(t *rapid.T) c19SeqIn {
	var pool []c19In
	kind := rapid.IntRange(0, 3).Draw(t, "seq.kind")
	for i := rapid.IntRange(2, 4).Draw(t, "seq.pool"); i > 0; i-- {
		var x c19In
		switch kind {
		case 0:
			x = c19GenFor(t, rapid.SampledFrom([]string{"NotifyNAS_IP4_ADDRESS", "NotifyUP_IP4_ADDRESS"}).Draw(t, "seq.ipbuilder"))
		case 1:
			x = c19GenFor(t, "EAP5GNAS")
			x.B1 = gen.Fill(t, "nas", rapid.SampledFrom([]int{100, 4096, 32760, 32764, 32768, 40000, 65000, 65514}).Draw(t, "seq.nas.n"))
		default:
			x = c19GenFor(t, rapid.SampledFrom(c19SeqBuilders).Draw(t, "seq.builder"))
		}
		x.Prior = nil
		pool = append(pool, x)
	}
	in := c19SeqIn{TwoContainers: rapid.Bool().Draw(t, "seq.two")}
	n := rapid.IntRange(2, 10).Draw(t, "seq.n")
	alternate := rapid.Bool().Draw(t, "seq.alternate")
	for i := 0; i < n; i++ {
		k := i % len(pool)
		if !alternate {
			k = rapid.IntRange(0, len(pool)-1).Draw(t, "seq.pick")
		}
		in.Steps = append(in.Steps, pool[k])
	}
	return in
}, func(in c19SeqIn) probe.Outcome {
	cp := func(b model.Bytes) []byte { return append([]byte(nil), b...) }
	cs := make([]message.IKEPayloadContainer, 2)
	type built struct {
		c, at int
		res   c19Result
		step  int
	}
	var all []built
	verify := func(after int, wire bool) error {
		for _, b := range all {
			if b.at >= len(cs[b.c]) {
				return fmt.Errorf("after step %d the payload built by step %d is gone", after, b.step)
			}
			p := cs[b.c][b.at]
			got, err := bridge.FromLibPayload(p)
			if err != nil {
				return fmt.Errorf("HARNESS: %v", err)
			}
			if !bytes.Equal(model.JSON(got.Normalize()), model.JSON(b.res.want.Normalize())) {
				return fmt.Errorf("after step %d (%s) the payload built by step %d (%s) no longer holds the arguments of its call:\n got  %s\n want %s", after, in.Steps[after-1].Builder, b.step,
					in.Steps[b.step-1].Builder, model.Clip(model.JSON(got.Normalize())), model.Clip(model.JSON(b.res.want.Normalize())))
			}
			if wire && !b.res.oversize && !b.res.mayError {
				w, err := c19Wire(p)
				if err != nil {
					return fmt.Errorf("at the end the payload built by step %d (%s) does not encode: %v", b.step, in.Steps[b.step-1].Builder, err)
				}
				if !bytes.Equal(model.JSON(w.Normalize()), model.JSON(b.res.want.Normalize())) {
					return fmt.Errorf("at the end the payload built by step %d (%s) encodes to other fields than the arguments of its call", b.step, in.Steps[b.step-1].Builder)
				}
			}
		}
		return nil
	}
	labels := []string{fmt.Sprintf("steps:%d", len(in.Steps))}
	for i, st := range in.Steps {
		k := 0
		if in.TwoContainers {
			k = i % 2
		}
		before := len(cs[k])
		res, err := c19Apply(&cs[k], st, cp)
		if err != nil {
			return probe.Fail("step %d (%s): %v", i+1, st.Builder, err)
		}
		switch {
		case res.berr != nil:
			if !res.oversize {
				return probe.Fail("step %d (%s) returned an error for arguments within the limits: %v", i+1, st.Builder, res.berr)
			}
			if len(cs[k]) != before {
				return probe.Fail("step %d (%s) returned an error but still appended a payload", i+1, st.Builder)
			}
		case len(cs[k]) != before+1:
			return probe.Fail("step %d (%s) appended %d payloads, want exactly 1", i+1, st.Builder, len(cs[k])-before)
		default:
			all = append(all, built{k, before, res, i + 1})
		}
		if err := verify(i+1, i == len(in.Steps)-1); err != nil {
			return probe.Fail("%v", err)
		}
		labels = append(labels, "builder:"+st.Builder)
	}
	repeats := false
	for i := range in.Steps {
		for j := 0; j < i-1; j++ {
			if in.Steps[i].Builder == in.Steps[j].Builder && bytes.Equal(model.JSON(in.Steps[i]), model.JSON(in.Steps[j])) {
				repeats = true
			}
		}
	}
	if repeats {
		labels = append(labels, "a-step-repeated-after-another")
	}
	return probe.Outcome{NonTrivial: len(all) >= 2, Labels: labels}
})

// Limits: what does not fit a field of the wire format is refused by the builder or by the encoder - never cut, wrapped or
// sent with a count that is not the number of elements. Proposals with their transforms spread over the five lists (the
// count octet holds 255 in all), Delete payloads with more SPIs than a payload can carry.
type c19LimitIn struct {
	Transforms [5]int `json:"transforms_per_type,omitempty"`
	SPIs       int    `json:"delete_spis,omitempty"`
}

var c19Limits = probe.Define("C19", "limits", func(t *rapid.T) c19LimitIn { panic("enumerated") }, func(in c19LimitIn) probe.Outcome {
	if in.SPIs > 0 {
		var c message.IKEPayloadContainer
		spis := make([]uint32, in.SPIs)
		for i := range spis {
			spis[i] = uint32(i)*2654435761 + 1
		}
		if err := probe.Try(func() error { c.BuildDeletePayload(3, 4, uint16(in.SPIs), append([]uint32(nil), spis...)); return nil }); err != nil {
			return probe.Fail("BuildDeletePayload with %d SPIs: %v", in.SPIs, err)
		}
		if len(c) != 1 {
			return probe.Fail("BuildDeletePayload appended %d payloads", len(c))
		}
		w, err := c19Wire(c[0])
		fits := 8+4*in.SPIs <= 65535 && in.SPIs <= 65535
		switch {
		case err != nil && strings.HasPrefix(err.Error(), "REFPARSE"):
			return probe.Fail("a Delete payload with %d SPIs encodes without an error to something malformed: %v", in.SPIs, err)
		case probe.IsPanic(err):
			return probe.Fail("encoding a Delete payload with %d SPIs panics: %v", in.SPIs, err)
		case err == nil && !fits:
			return probe.Fail("a Delete payload with %d SPIs of 4 octets (%d octets, more than a payload holds) encodes without an error: the list was cut or the length wrapped", in.SPIs, 8+4*in.SPIs)
		case err != nil && fits:
			return probe.Fail("a Delete payload with %d SPIs (fits) does not encode: %v", in.SPIs, err)
		case err == nil:
			if w.Delete == nil || len(w.Delete.SPIs) != in.SPIs || int(w.Delete.Count) != in.SPIs || w.Delete.SPIs[in.SPIs-1] != spis[in.SPIs-1] {
				return probe.Fail("a Delete payload with %d SPIs encodes to other SPIs than it was given", in.SPIs)
			}
		}
		return probe.OK(true, "limits:delete", fmt.Sprintf("fits:%v", fits))
	}
	var pc message.ProposalContainer
	p := pc.BuildProposal(1, 3, []byte{1, 2, 3, 4})
	total := 0
	lists := []*message.TransformContainer{&p.EncryptionAlgorithm, &p.PseudorandomFunction, &p.IntegrityAlgorithm, &p.DiffieHellmanGroup, &p.ExtendedSequenceNumbers}
	for ty, n := range in.Transforms {
		for i := 0; i < n; i++ {
			lists[ty].BuildTransform(uint8(ty+1), uint16(i), nil, nil, nil)
		}
		total += n
	}
	w, err := c19Wire(&message.SecurityAssociation{Proposals: pc})
	fits := total >= 1 && total <= 255
	switch {
	case err != nil && strings.HasPrefix(err.Error(), "REFPARSE"):
		return probe.Fail("a proposal with %d transforms in all (%v per type) encodes without an error to something malformed: %v", total, in.Transforms, err)
	case probe.IsPanic(err):
		return probe.Fail("encoding a proposal with %v transforms panics: %v", in.Transforms, err)
	case err == nil && !fits:
		return probe.Fail("a proposal with %d transforms in all (%v per type; the count octet holds 255) encodes without an error", total, in.Transforms)
	case err != nil && fits:
		return probe.Fail("a proposal with %d transforms in all (%v per type) does not encode: %v", total, in.Transforms, err)
	case err == nil:
		if w.SA == nil || len(w.SA.Proposals) != 1 || len(w.SA.Proposals[0].Transforms) != total {
			return probe.Fail("a proposal with %d transforms (%v per type) encodes to another number of transforms", total, in.Transforms)
		}
	}
	return probe.OK(true, "limits:transforms", fmt.Sprintf("fits:%v", fits))
})

func TestC19(t *testing.T) {
	c := probe.NewCtx(t, "C19")
	for _, k := range c19Containers {
		for n := 1; n <= 4; n++ {
			c19Reset.Eval(c, c19ResetIn{Container: k, N: n, B: model.Bytes{1, 2, 3, 4}, U: 77})
		}
	}
	c19Reset.Run(c, t, c.N(300, 2000))
	c19Build.Run(c, t, c.N(5000, 40000))
	// the special-purpose IPv4 blocks through both address helpers
	for i, pre := range [][]byte{{169, 254, 1, 2}, {169, 254, 169, 254}, {192, 168, 0, 1}, {172, 16, 0, 1}, {100, 64, 0, 1}, {192, 0, 2, 1}, {198, 18, 0, 1}, {198, 51, 100, 1}, {203, 0, 113, 1},
		{192, 88, 99, 1}, {192, 0, 0, 1}, {224, 0, 0, 1}, {239, 255, 255, 250}, {240, 0, 0, 1}, {255, 255, 255, 255}, {0, 0, 0, 0}, {0, 0, 0, 1}, {127, 0, 0, 1}, {127, 255, 255, 255}, {10, 0, 0, 1}, {1, 1, 1, 1}} {
		for _, b := range []string{"NotifyNAS_IP4_ADDRESS", "NotifyUP_IP4_ADDRESS"} {
			in := c19In{Builder: b, U8a: uint8(i)}
			copy(in.IP[:], pre)
			c19Build.Eval(c, in)
		}
	}
	c19Sequence.Run(c, t, c.N(600, 6000))
	for _, tr := range [][5]int{{255}, {256}, {255, 1}, {200, 56}, {200, 55}, {100, 100, 55}, {100, 100, 56}, {51, 51, 51, 51, 51}, {52, 51, 51, 51, 51}, {0, 0, 0, 0, 255}, {1, 0, 0, 0, 255}, {300}, {255, 255}, {128, 128}} {
		c19Limits.Eval(c, c19LimitIn{Transforms: tr})
	}
	for _, n := range []int{1, 255, 256, 4096, 8192, 16381, 16382, 16383, 16384, 16385, 20000, 32768, 32769, 49152, 65535} {
		c19Limits.Eval(c, c19LimitIn{SPIs: n})
	}
	// configuration attributes of the registered types with the value sizes that mean something for one of them
	for ty := uint16(1); ty <= 25; ty++ {
		for _, n := range []int{0, 1, 4, 8, 16, 17, 32} {
			c19Build.Eval(c, c19In{Builder: "ConfigurationAttribute", U16a: ty, B1: pat(n, byte(ty)), U8a: uint8(n)})
		}
	}
}
