package props

import (
	"bytes"
	"fmt"
	"testing"

	"github.com/free5gc/ike/security"
	"pgregory.net/rapid"

	"verif/bridge"
	"verif/gen"
	"verif/model"
	"verif/probe"
	"verif/ref"
)

// C08 — Child SA keying material follows RFC 7296 section 2.17 (from a reused PRF object).

type c08Step struct {
	Encr  int         `json:"encr"`
	Integ int         `json:"integ"` // 3 = no integrity transform
	Nonce model.Bytes `json:"nonces"`
	// SPI of the Child SA object (bookkeeping of the caller; the keys do not depend on it)
	SPI uint32 `json:"spi,omitempty"`
}

type c08In struct {
	Prf int         `json:"prf"`
	SKd model.Bytes `json:"sk_d,omitempty"`
	// ViaIKE: SK_d comes from a full IKE SA derivation instead of being installed directly
	ViaIKE bool        `json:"via_ike_derivation"`
	Nonce  model.Bytes `json:"ike_nonces,omitempty"`
	Secret model.Bytes `json:"ike_secret,omitempty"`
	Steps  []c08Step   `json:"steps"`
	// ChildViaProposal: the Child SA descriptors come from NewChildSAKeyByProposal instead of StrToKType
	ChildViaProposal bool `json:"child_via_proposal"`
	// NegotiateFirst: the Child SA objects of all steps are created (negotiated) up front and keyed afterwards, in step
	// order - several Child SAs of one IKE SA are in flight at the same time
	NegotiateFirst bool `json:"negotiate_first"`
	// Carved: the nonces of all steps are views into one buffer (back to back), handed to the library without a private copy
	Carved bool `json:"nonces_share_one_buffer,omitempty"`
	// Template: (with NegotiateFirst) steps with the same transforms use by-value copies of ONE negotiated ChildSAKey
	Template bool `json:"children_copied_from_one_negotiated_template,omitempty"`
	// PreKeyed (with Template): the template Child SA was keyed under ANOTHER IKE SA before (the Child SA outlives a re-keyed
	// IKE SA: RFC 7296 2.18); the copies start with their key fields cleared
	PreKeyed bool `json:"template_keyed_under_another_ike_sa_before,omitempty"`
	// AskProposal: every Child SA object is asked for its proposal (ToProposal) before it is keyed, as an exchange does
	AskProposal bool `json:"proposal_asked_before_keying,omitempty"`
	// EmptyKeyFields: the Child SA objects start with empty, non-nil key fields instead of nil ones
	EmptyKeyFields bool `json:"key_fields_empty_not_nil,omitempty"`
	// OnlyPrfObject: the IKE SA is assembled with the keyed Prf_d object only, the SK_d octets are not kept on it (the
	// library's own tests build their SAs like that)
	OnlyPrfObject bool `json:"ike_sa_holds_prf_object_only,omitempty"`
}

func c08NewSA(in c08In) (*security.IKESAKey, []byte, error) {
	s := bridge.SuiteSel{Prf: in.Prf}
	sa := newInfoSA(s)
	if in.ViaIKE {
		if err := probe.Try(func() error {
			return sa.GenerateKeyForIKESA(append([]byte(nil), in.Nonce...), append([]byte(nil), in.Secret...), 1, 2)
		}); err != nil {
			return nil, nil, err
		}
		want := ref.DeriveIKE(ref.Prfs[in.Prf], ref.Integs[0], ref.Encrs[0], in.Nonce, in.Secret, 1, 2)
		return sa, want.D, nil
	}
	sa.SK_d = append([]byte(nil), in.SKd...)
	sa.Prf_d = sa.PrfInfo.Init(sa.SK_d)
	if in.OnlyPrfObject {
		// the caller keyed the PRF object from a scratch buffer, which it wipes afterwards (crypto/hmac keeps its own copy of the key)
		for i := range sa.SK_d {
			sa.SK_d[i] = 0
		}
		sa.SK_d = nil
	}
	return sa, in.SKd, nil
}

var c08History = probe.Define("C08", "history", func(t *rapid.T) c08In {
	in := c08In{Prf: rapid.IntRange(0, 2).Draw(t, "prf"), ViaIKE: rapid.IntRange(0, 2).Draw(t, "viaike") == 2}
	if in.ViaIKE {
		in.Nonce, in.Secret = gen.BytesLen(t, "ikenonce", 1, 80, 32), gen.BytesLen(t, "ikesecret", 1, 256, 128, 256)
	} else {
		in.SKd = gen.Fill(t, "skd", ref.Prfs[in.Prf].KeyLen)
	}
	in.OnlyPrfObject = !in.ViaIKE && rapid.IntRange(0, 3).Draw(t, "onlyprfobject") == 3
	in.ChildViaProposal = rapid.IntRange(0, 2).Draw(t, "childviaproposal") == 2
	in.NegotiateFirst = rapid.IntRange(0, 3).Draw(t, "negotiatefirst") == 3
	in.Template = in.NegotiateFirst && rapid.Bool().Draw(t, "template")
	in.PreKeyed = in.Template && rapid.Bool().Draw(t, "prekeyed")
	in.AskProposal = rapid.Bool().Draw(t, "askproposal")
	in.Carved = rapid.IntRange(0, 2).Draw(t, "carved") == 2
	in.EmptyKeyFields = rapid.IntRange(0, 3).Draw(t, "emptykeyfields") == 3
	n := gen.Len(t, "nsteps", 1, 200, 1, 2, 100, 200)
	for i := 0; i < n; i++ {
		st := c08Step{Encr: rapid.IntRange(0, 2).Draw(t, "encr"), Integ: rapid.IntRange(0, 3).Draw(t, "integ"),
			Nonce: gen.BytesLen(t, "nonces", 0, 600, 0, 1, 32, 64, 256, 257, 272, 273, 512, 600)}
		switch rapid.IntRange(0, 5).Draw(t, "spiclass") {
		case 3:
			st.SPI = rapid.Uint32().Draw(t, "spi")
		case 4:
			st.SPI = 0xc0ffee01 // several Child SAs of the history carry the same SPI (a re-keyed SA, inbound and outbound halves)
		case 5:
			st.SPI = uint32(rapid.IntRange(1, 3).Draw(t, "smallspi"))
		}
		// nonces RELATED to what the IKE SA has seen before: the nonces the IKE SA itself was keyed with (the first Child SA of an
		// IKE SA is keyed with the IKE_SA_INIT nonces - and an implementation may do so again), the previous exchange's nonces
		// once more, an extension of them, a prefix of them, nonces that carry their own payload header in front
		var prev model.Bytes
		if i > 0 {
			prev = in.Steps[i-1].Nonce
		}
		switch rapid.IntRange(0, 15).Draw(t, "nonce-relation") {
		case 10, 11:
			if in.ViaIKE {
				st.Nonce = append(model.Bytes(nil), in.Nonce...)
			}
		case 12:
			if i > 0 {
				st.Nonce = append(model.Bytes(nil), prev...)
			}
		case 13:
			if i > 0 {
				st.Nonce = append(append(model.Bytes(nil), prev...), gen.BytesLen(t, "nonce-extension", 1, 40, 1, 16)...)
			}
		case 14:
			if len(prev) > 1 {
				st.Nonce = append(model.Bytes(nil), prev[:rapid.IntRange(1, len(prev)-1).Draw(t, "nonce-prefix")]...)
			}
		case 15:
			body := gen.BytesLen(t, "nonce-body", 12, 60, 16, 32)
			n := len(body) + 4
			st.Nonce = append(model.Bytes{rapid.SampledFrom([]byte{0, 41, 44}).Draw(t, "nonce-next"), 0, byte(n >> 8), byte(n)}, body...)
		}
		if i > 0 && rapid.IntRange(0, 3).Draw(t, "same-suite-as-before") == 3 {
			st.Encr, st.Integ = in.Steps[i-1].Encr, in.Steps[i-1].Integ // same transforms, other nonces
		}
		in.Steps = append(in.Steps, st)
	}
	return in
}, func(in c08In) probe.Outcome {
	childViaProposal = in.ChildViaProposal
	defer func() { childViaProposal = false }()
	L, skd, err := c08NewSA(in)
	if err != nil {
		return probe.Fail("building the IKE SA: %v", err)
	}
	labels := []string{"prf:" + ref.Prfs[in.Prf].Name}
	var negotiated []*security.ChildSAKey
	if in.NegotiateFirst {
		templates := map[[2]int]*security.ChildSAKey{}
		for _, st := range in.Steps {
			c := childSA(st.Encr, st.Integ)
			if in.Template {
				// one negotiation, several Child SAs with the same transforms: each gets its own copy of the negotiated value
				k := [2]int{st.Encr, st.Integ}
				if templates[k] == nil {
					templates[k] = c
					if in.PreKeyed {
						other := newInfoSA(bridge.SuiteSel{Prf: (in.Prf + 1) % 3})
						other.SK_d = bytes.Repeat([]byte{0x77}, ref.Prfs[(in.Prf+1)%3].KeyLen)
						other.Prf_d = other.PrfInfo.Init(other.SK_d)
						if err := probe.Try(func() error { return c.GenerateKeyForChildSA(other, []byte("nonces of the earlier exchange")) }); err != nil {
							return probe.Fail("keying the template Child SA under another IKE SA: %v", err)
						}
					}
				}
				cc := *templates[k]
				if in.PreKeyed {
					// the template holds the keys of the earlier derivation: the copy starts without them (a copy of a template
					// that was never keyed is taken as it is - whatever its key fields are, they are the negotiated object's)
					cc.InitiatorToResponderEncryptionKey, cc.InitiatorToResponderIntegrityKey = nil, nil
					cc.ResponderToInitiatorEncryptionKey, cc.ResponderToInitiatorIntegrityKey = nil, nil
				}
				c = &cc
			}
			negotiated = append(negotiated, c)
		}
		labels = append(labels, "negotiated-first")
		if in.Template {
			labels = append(labels, "children-copied-from-template")
		}
	}
	nonces := make([][]byte, len(in.Steps))
	unchanged := func() error { return nil }
	if in.Carved {
		var parts [][]byte
		for _, st := range in.Steps {
			parts = append(parts, st.Nonce)
		}
		nonces, unchanged = probe.Carve(parts...)
		labels = append(labels, "nonces-share-one-buffer")
	} else {
		for i, st := range in.Steps {
			nonces[i] = append([]byte(nil), st.Nonce...)
		}
	}
	type heldKeys struct {
		got, want ref.ChildKeys
	}
	var held []heldKeys // keys handed out earlier: the Child SAs are in use while later ones are derived
	for i, st := range in.Steps {
		F, _, err := c08NewSA(in) // freshly constructed copy of the IKE SA
		if err != nil {
			return probe.Fail("building a fresh IKE SA: %v", err)
		}
		var kL ref.ChildKeys
		c := childSA(st.Encr, st.Integ)
		if in.NegotiateFirst {
			c = negotiated[i]
		}
		c.SPI = st.SPI
		if in.EmptyKeyFields {
			c.InitiatorToResponderEncryptionKey, c.InitiatorToResponderIntegrityKey = []byte{}, []byte{}
			c.ResponderToInitiatorEncryptionKey, c.ResponderToInitiatorIntegrityKey = []byte{}, []byte{}
		}
		if in.AskProposal {
			// asking an object what it offers does not change what it is
			if err := probe.Try(func() error { _, _ = c.ToProposal(); _ = fmt.Sprintf("%v", c); return nil }); err != nil {
				return probe.Fail("ToProposal of Child SA %d before it is keyed: %v", i+1, err)
			}
		}
		kL, err = deriveChildRaw(c, L, nonces[i])
		if err != nil {
			return probe.Fail("derivation %d on the long-lived SA: %v", i+1, err)
		}
		if err := unchanged(); err != nil {
			return probe.Fail("derivation %d (nonces of all exchanges held back to back in one buffer): %v", i+1, err)
		}
		kF, err := deriveChild(F, st.Encr, st.Integ, st.Nonce)
		if err != nil {
			return probe.Fail("derivation on a fresh SA: %v", err)
		}
		want := refChild(bridge.SuiteSel{Prf: in.Prf}, skd, st.Nonce, st.Encr, st.Integ)
		if !childEqual(kL, want) {
			return probe.Fail("derivation %d: keys differ from the slices of prf+(SK_d, Ni|Nr) (encr %d octets, integ index %d):\n got  %x|%x|%x|%x\n want %x|%x|%x|%x",
				i+1, ref.Encrs[st.Encr].KeyLen, st.Integ, kL.EncrI2R, kL.IntegI2R, kL.EncrR2I, kL.IntegR2I, want.EncrI2R, want.IntegI2R, want.EncrR2I, want.IntegR2I)
		}
		// the keys are the Child SA's own, each one of them: the caller extends one (key | salt for its ESP implementation) -
		// the others stay what they are
		for _, k := range [][]byte{kL.EncrI2R, kL.IntegI2R, kL.EncrR2I, kL.IntegR2I} {
			_ = append(k, 0xde, 0xad, 0xbe, 0xef, 0xde, 0xad, 0xbe, 0xef)
		}
		if !childEqual(kL, want) {
			return probe.Fail("derivation %d: appending to one of the four keys (key | salt) changed another one: the keys are windows of one array", i+1)
		}
		if !childEqual(kL, kF) {
			return probe.Fail("derivation %d on the long-lived SA differs from the derivation on a fresh copy", i+1)
		}
		held = append(held, heldKeys{kL, want})
		if len(held) > 16 {
			held = held[1:]
		}
		for j, h := range held[:len(held)-1] {
			if !childEqual(h.got, h.want) {
				return probe.Fail("the keys of an earlier Child SA (derivation %d) changed when derivation %d was performed: Child SAs of one IKE SA share key storage",
					i+1-(len(held)-1-j), i+1)
			}
		}
		il := 0
		if st.Integ < 3 {
			il = ref.Integs[st.Integ].KeyLen
		} else if i < 8 {
			labels = append(labels, "no-integrity")
		}
		if total := 2 * (ref.Encrs[st.Encr].KeyLen + il); i < 8 {
			hl := ref.Prfs[in.Prf].KeyLen
			if total > 3*hl {
				labels = append(labels, "keymat>3-prf-blocks")
			} else if total > hl {
				labels = append(labels, "keymat>1-prf-block")
			}
		}
		if len(st.Nonce) == 0 && i < 8 {
			labels = append(labels, "empty-nonce")
		}
	}
	if len(in.Steps) >= 100 {
		labels = append(labels, "100th-derivation")
	}
	if in.ViaIKE {
		labels = append(labels, "sk_d-from-ike-derivation")
	}
	if in.ChildViaProposal {
		labels = append(labels, "child-descriptors-via-proposal")
	}
	if in.EmptyKeyFields {
		labels = append(labels, "key-fields-empty-not-nil")
	}
	if in.OnlyPrfObject {
		labels = append(labels, "ike-sa-holds-prf-object-only")
	}
	labels = append(labels, fmt.Sprintf("steps>=2:%v", len(in.Steps) >= 2))
	return probe.Outcome{NonTrivial: len(in.Steps) >= 2, Labels: labels}
})

func TestC08(t *testing.T) {
	c := probe.NewCtx(t, "C08")
	idleStart(c, "child-keys")
	if c.Shard == 0 {
		endurance(c, "C08", "child-keys", 2300)
	}
	c08History.Run(c, t, c.N(500, 5000))
	idleFinish(c, "C08", "child-keys")
}
