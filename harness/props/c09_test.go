package props

import (
	"bytes"
	"fmt"
	"math/big"
	"testing"

	"github.com/free5gc/ike/message"
	"github.com/free5gc/ike/security"
	"github.com/free5gc/ike/security/dh"
	"pgregory.net/rapid"

	"verif/bridge"
	"verif/gen"
	"verif/model"
	"verif/probe"
	"verif/ref"
)

// C09 — MODP groups 2/14: RFC primes, agreement, fixed-length output, sound exponents.

type c09In struct {
	Group int         `json:"group"` // index into ref.DHs
	X     model.Bytes `json:"x"`     // exponent (big-endian)
	X2    model.Bytes `json:"x2"`    // second party's exponent
	Y     model.Bytes `json:"y"`     // arbitrary peer value
}

var primes = map[int]*big.Int{}

func refPrime(g int) *big.Int {
	if p, ok := primes[g]; ok {
		return p
	}
	p := ref.ModpPrime(ref.DHs[g].Bits)
	primes[g] = p
	return p
}

func libGroup(g int) (dh.DHType, error) {
	t := dh.StrToType(ref.DHs[g].Name)
	if t == nil {
		return nil, fmt.Errorf("dh.StrToType(%s) = nil", ref.DHs[g].Name)
	}
	return t, nil
}

func bi(b []byte) *big.Int { return new(big.Int).SetBytes(b) }

func c09Pub(g dh.DHType, x *big.Int) (out []byte, err error) {
	arg := new(big.Int).Set(x)
	err = probe.Try(func() error { out = g.GetPublicValue(arg); return nil })
	if err == nil && arg.Cmp(x) != 0 {
		err = fmt.Errorf("GetPublicValue modified its exponent argument")
	}
	return
}

func c09Shared(g dh.DHType, x, y *big.Int) (out []byte, err error) {
	ax, ay := new(big.Int).Set(x), new(big.Int).Set(y)
	err = probe.Try(func() error { out = g.GetSharedKey(ax, ay); return nil })
	if err == nil && (ax.Cmp(x) != 0 || ay.Cmp(y) != 0) {
		err = fmt.Errorf("GetSharedKey modified one of its arguments")
	}
	return
}

func c09Oracle(in c09In) probe.Outcome {
	g, err := libGroup(in.Group)
	if err != nil {
		return probe.Fail("%v", err)
	}
	P := refPrime(in.Group)
	n := ref.DHs[in.Group].Bits / 8
	x, x2, y := bi(in.X), bi(in.X2), bi(in.Y)
	labels := []string{"group:" + ref.DHs[in.Group].Name}
	nontrivial := false
	pub, err := c09Pub(g, x)
	if err != nil {
		return probe.Fail("GetPublicValue: %v", err)
	}
	if len(pub) != n {
		return probe.Fail("public value has %d octets, want exactly %d", len(pub), n)
	}
	want := ref.LeftPad(ref.ModExp(big.NewInt(2), x, P), n)
	if !bytes.Equal(pub, want) {
		return probe.Fail("GetPublicValue(x) != 2^x mod p (RFC prime), x has %d bits", x.BitLen())
	}
	if pub[0] == 0 {
		labels = append(labels, "leading-zero-octet")
		nontrivial = true
	}
	sh, err := c09Shared(g, x, y)
	if err != nil {
		return probe.Fail("GetSharedKey: %v", err)
	}
	if len(sh) != n {
		return probe.Fail("shared secret has %d octets, want exactly %d", len(sh), n)
	}
	if !bytes.Equal(sh, ref.LeftPad(ref.ModExp(y, x, P), n)) {
		return probe.Fail("GetSharedKey(x, y) != y^x mod p (RFC prime)")
	}
	if sh[0] == 0 {
		labels = append(labels, "leading-zero-octet")
		nontrivial = true
	}
	if y.Cmp(P) >= 0 {
		labels = append(labels, "peer>=p")
		nontrivial = true
	}
	if x.Cmp(P) >= 0 || x.BitLen() <= 1 {
		labels = append(labels, "exponent-special")
		nontrivial = true
	}
	// The caller keeps ONE number object for its exponent and gives it a new value (same size) for the next exchange; and it
	// computes the first party's public value once more afterwards: each call answers for the value the object holds then.
	{
		e := new(big.Int).Set(x)
		var p1, p2, p3 []byte
		x3 := new(big.Int).Xor(x, big.NewInt(1))
		if err := probe.Try(func() error {
			p1 = g.GetPublicValue(e)
			e.Xor(e, big.NewInt(1)) // in place
			p2 = g.GetPublicValue(e)
			e.Set(x)
			p3 = g.GetPublicValue(e)
			return nil
		}); err != nil {
			return probe.Fail("GetPublicValue: %v", err)
		}
		if !bytes.Equal(p1, want) || !bytes.Equal(p3, want) || !bytes.Equal(p2, ref.LeftPad(ref.ModExp(big.NewInt(2), x3, P), n)) {
			return probe.Fail("GetPublicValue called three times with one exponent object whose value was changed in between (x, x xor 1, x) does not give 2^value mod p each time")
		}
	}
	// agreement between two parties
	pub2, err := c09Pub(g, x2)
	if err != nil {
		return probe.Fail("GetPublicValue: %v", err)
	}
	s12, err1 := c09Shared(g, x, bi(pub2))
	s21, err2 := c09Shared(g, x2, bi(pub))
	if err1 != nil || err2 != nil {
		return probe.Fail("GetSharedKey: %v %v", err1, err2)
	}
	if !bytes.Equal(s12, s21) || len(s12) != n {
		return probe.Fail("the two parties compute different shared secrets")
	}
	return probe.Outcome{NonTrivial: nontrivial, Labels: labels}
}

func c09Exponent(t *rapid.T, label string, P *big.Int) model.Bytes {
	one := big.NewInt(1)
	switch gen.Pick(t, label+".class", 3, 3, 4, 3, 5, 3) {
	case 5:
		// the top of the exponent range and values around the OTHER group's prime (any 0 <= x < 2^2048 is a legal exponent for both groups)
		d := big.NewInt(int64(rapid.IntRange(-3, 3).Draw(t, label+".delta")))
		var base *big.Int
		switch rapid.IntRange(0, 3).Draw(t, label+".base") {
		case 0:
			base = new(big.Int).Sub(new(big.Int).Lsh(one, 2048), big.NewInt(4)) // 2^2048-4 +- 3
		case 1:
			base = refPrime(0)
		case 2:
			base = refPrime(1)
		default:
			base = new(big.Int).Rsh(refPrime(1), 1) // (p14-1)/2, the order of the subgroup
		}
		return new(big.Int).Add(base, d).Bytes()
	case 0:
		return big.NewInt(int64(rapid.IntRange(0, 2).Draw(t, label))).Bytes()
	case 1:
		return big.NewInt(int64(rapid.IntRange(3, 1100).Draw(t, label))).Bytes()
	case 2:
		d := int64(rapid.IntRange(-2, 1).Draw(t, label+".delta"))
		return new(big.Int).Add(P, big.NewInt(d)).Bytes()
	case 3:
		k := uint(rapid.IntRange(1, 2047).Draw(t, label+".k"))
		v := new(big.Int).Lsh(one, k)
		if rapid.Bool().Draw(t, label+".minus") {
			v.Sub(v, one)
		} else {
			v.Add(v, one)
		}
		return v.Bytes()
	default:
		return gen.Fill(t, label, rapid.IntRange(1, 256).Draw(t, label+".len"))
	}
}

var c09Values = probe.Define("C09", "values", func(t *rapid.T) c09In {
	in := c09In{Group: rapid.IntRange(0, 1).Draw(t, "group")}
	P := refPrime(in.Group)
	in.X, in.X2 = c09Exponent(t, "x", P), c09Exponent(t, "x2", P)
	switch gen.Pick(t, "y.class", 3, 3, 2, 4) {
	case 0:
		in.Y = big.NewInt(int64(rapid.IntRange(0, 2).Draw(t, "y"))).Bytes()
	case 1:
		d := int64(rapid.IntRange(-1, 1).Draw(t, "y.delta"))
		in.Y = new(big.Int).Add(P, big.NewInt(d)).Bytes()
	case 2:
		in.Y = new(big.Int).Lsh(P, 1).Bytes()
	default:
		in.Y = gen.Fill(t, "y", rapid.IntRange(1, 257).Draw(t, "y.len"))
	}
	return in
}, c09Oracle)

// --- prime identity through the API, random exponents, fault enumeration (deterministic) ---

type c09RandIn struct {
	Stream model.Bytes `json:"stream"`
	Mode   string      `json:"mode"` // range | skip-small | fault
	FailAt int         `json:"fail_at,omitempty"`
	Budget int         `json:"byte_budget,omitempty"` // fault mode: the source runs dry after this many octets (short read + error)
	Group  int         `json:"group"`
	// FailOnce: fault mode with FailAt: only that read fails (transient failure); MaxRead: the source hands out at most this
	// many octets per Read (short reads without error, allowed by the io.Reader contract)
	FailOnce bool `json:"fail_once,omitempty"`
	MaxRead  int  `json:"max_read,omitempty"`
	// ErrKind selects the error value the failing source returns (probe.InjectedErrors: plain, EAGAIN, EINTR, EOF, ...)
	ErrKind int `json:"error_kind,omitempty"`
	// Peer (reflection mode): the peer's value handed to CalculateDiffieHellmanMaterials (empty: this side's own public value)
	Peer model.Bytes `json:"peer_value,omitempty"`
}

// inject runs f with the failing random source the input describes (failure at a Read call, or after a byte budget).
func (in c09RandIn) inject(f func(en *probe.Entropy)) {
	probe.WithEntropyOpts(probe.EntropyOpts{Stream: in.Stream, FailAt: in.FailAt, FailOnce: in.FailOnce, Budget: in.Budget, MaxRead: in.MaxRead, ErrKind: in.ErrKind}, f)
}

var c09Random = probe.Define("C09", "exponents", func(t *rapid.T) c09RandIn {
	in := c09RandIn{Group: rapid.IntRange(0, 1).Draw(t, "group")}
	switch gen.Pick(t, "mode", 4, 2, 3, 1) {
	case 3:
		in.Mode = "reflection"
		in.Stream = gen.Fill(t, "stream", rapid.IntRange(8, 64).Draw(t, "len"))
		if rapid.IntRange(0, 2).Draw(t, "peer") != 0 {
			// any octet string is a peer value (it is a number); among them the strings a Key Exchange payload of this group
			// carries in one format or another (one octet in front, the four octets of the payload body's start in front, ...)
			id := []uint16{2, 14}[in.Group]
			var shapes []gen.KEShape
			for _, sh := range gen.KEShapes() {
				if sh.Group == id {
					shapes = append(shapes, sh)
				}
			}
			in.Peer = append(model.Bytes(nil), rapid.SampledFrom(shapes).Draw(t, "peershape").Data...)
			if len(in.Peer) > 8 {
				copy(in.Peer[4:], gen.Fill(t, "peerdata", len(in.Peer)-4))
			}
			if rapid.IntRange(0, 3).Draw(t, "peer.any") == 3 {
				in.Peer = gen.BytesLen(t, "peerany", 1, 600, 1, 127, 128, 129, 132, 255, 256, 257, 260)
			}
		}
	case 0:
		in.Mode = "range"
		in.Stream = gen.Fill(t, "stream", rapid.IntRange(0, 300).Draw(t, "len"))
		if rapid.IntRange(0, 3).Draw(t, "extreme") == 3 {
			// candidates at the upper end of the range: 200-256 octets of 0xff first
			k := rapid.SampledFrom([]int{200, 239, 240, 241, 255, 256}).Draw(t, "ones")
			in.Stream = append(bytes.Repeat([]byte{0xff}, k), in.Stream...)
		}
	case 1:
		in.Mode = "skip-small"
		// first candidate(s) <= 2^128: zero or tiny 256-octet chunks, then drawn octets
		k := rapid.SampledFrom([]int{1, 2, 3, 3, 9, 10, 11, 20, 40}).Draw(t, "nsmall")
		for i := 0; i < k; i++ {
			chunk := make([]byte, 256)
			tail := rapid.SliceOfN(rapid.Byte(), 0, 16).Draw(t, "small")
			copy(chunk[256-len(tail):], tail)
			in.Stream = append(in.Stream, chunk...)
		}
		in.Stream = append(in.Stream, gen.Fill(t, "rest", 64)...)
	default:
		in.Mode = "fault"
		// zero or more candidates that are too small (so that the failure hits a re-draw), then drawn octets
		for k := rapid.IntRange(0, 2).Draw(t, "nsmall"); k > 0; k-- {
			chunk := make([]byte, 256)
			tail := rapid.SliceOfN(rapid.Byte(), 0, 16).Draw(t, "small")
			copy(chunk[256-len(tail):], tail)
			in.Stream = append(in.Stream, chunk...)
		}
		in.Stream = append(in.Stream, gen.Fill(t, "stream", 32)...)
		in.FailAt = rapid.IntRange(1, 4).Draw(t, "failat")
		in.FailOnce = rapid.Bool().Draw(t, "failonce")
		in.ErrKind = rapid.IntRange(0, len(probe.InjectedErrors)-1).Draw(t, "errkind")
		if rapid.Bool().Draw(t, "bytebudget") {
			in.FailAt, in.FailOnce, in.Budget = 0, false, rapid.IntRange(1, 800).Draw(t, "budget")
		}
	}
	if rapid.IntRange(0, 3).Draw(t, "shortreads") == 3 {
		in.MaxRead = rapid.SampledFrom([]int{1, 7, 16, 100, 255, 256}).Draw(t, "maxread")
	}
	return in
}, func(in c09RandIn) probe.Outcome {
	min := new(big.Int).Lsh(big.NewInt(1), 128)
	max := new(big.Int).Lsh(big.NewInt(1), 2048)
	draw := func(stream []byte, failAt int) (*big.Int, error, *probe.Entropy) {
		var v *big.Int
		var err error
		var ent *probe.Entropy
		probe.WithEntropyOpts(probe.EntropyOpts{Stream: stream, FailAt: failAt, MaxRead: in.MaxRead}, func(e *probe.Entropy) {
			err = probe.Try(func() error { var x error; v, x = security.GenerateRandomNumber(); return x })
			ent = e
		})
		return v, err, ent
	}
	labels := []string{"mode:" + in.Mode}
	switch in.Mode {
	case "range", "skip-small":
		v1, err, e1 := draw(in.Stream, 0)
		if err != nil {
			return probe.Fail("GenerateRandomNumber failed with a working random source: %v", err)
		}
		if v1 == nil {
			return probe.Fail("GenerateRandomNumber returned neither a number nor an error")
		}
		if v1.Cmp(min) < 0 || v1.Cmp(max) >= 0 {
			return probe.Fail("exponent outside [2^128, 2^2048): %d bits", v1.BitLen())
		}
		consumed := 0
		for _, c := range e1.Chunks {
			consumed += len(c)
		}
		if consumed < 32 {
			return probe.Fail("only %d octets were drawn from the random source for an exponent of up to 2048 bits", consumed)
		}
		v2, err, _ := draw(in.Stream, 0)
		if err != nil || v2 == nil || v1.Cmp(v2) != 0 {
			return probe.Fail("the same random stream gives different exponents: not drawn from the random source alone")
		}
		other := make([]byte, len(in.Stream)+300)
		for i := range other {
			other[i] = 0x5a ^ byte(i*29)
			if i < len(in.Stream) {
				other[i] ^= in.Stream[i]
			}
		}
		v3, err, _ := draw(other, 0)
		if err != nil || v3 == nil {
			return probe.Fail("GenerateRandomNumber failed: %v", err)
		}
		if v3.Cmp(v1) == 0 {
			return probe.Fail("a different random stream gives the same exponent")
		}

	case "reflection":
		// the peer's value happens to equal the public value this side is about to compute (a peer echoing values, a loop-back
		// test, two ends seeded alike): an ordinary in-domain peer value - the shared secret is g^(x*x)
		x, err, _ := draw(in.Stream, 0)
		if err != nil || x == nil {
			return probe.Fail("GenerateRandomNumber: %v", err)
		}
		P := refPrime(in.Group)
		n := ref.DHs[in.Group].Bits / 8
		own := ref.LeftPad(ref.ModExp(bigTwo, x, P), n)
		peer, what := own, "equal to this side's own public value"
		if len(in.Peer) > 0 {
			peer, what = append([]byte(nil), in.Peer...), fmt.Sprintf("of %d octets", len(in.Peer))
			labels = append(labels, "peer-value-given")
		}
		sa := newInfoSA(bridge.SuiteSel{DH: in.Group})
		if len(in.Stream)%2 == 1 {
			// the SA object served a key exchange in the OTHER group before (a retried negotiation: INVALID_KE_PAYLOAD)
			sa.DhInfo = dh.StrToType(ref.DHs[1-in.Group].Name)
			if _, _, e := security.CalculateDiffieHellmanMaterials(sa, []byte{2}); e != nil {
				return probe.Fail("CalculateDiffieHellmanMaterials: %v", e)
			}
			sa.DhInfo = dh.StrToType(ref.DHs[in.Group].Name)
			labels = append(labels, "sa-object-used-with-the-other-group-before")
		}
		var pub, shared []byte
		probe.WithEntropyOpts(probe.EntropyOpts{Stream: in.Stream, MaxRead: in.MaxRead}, func(*probe.Entropy) {
			err = probe.Try(func() error {
				var e error
				pub, shared, e = security.CalculateDiffieHellmanMaterials(sa, probe.Exact(peer))
				return e
			})
		})
		if err != nil {
			return probe.Fail("CalculateDiffieHellmanMaterials with a peer value %s: %v", what, err)
		}
		if !bytes.Equal(pub, own) {
			return probe.Fail("the same random stream gives another exponent inside CalculateDiffieHellmanMaterials than through GenerateRandomNumber (harness assumption) - or the public value is wrong")
		}
		if want := ref.LeftPad(ref.ModExp(new(big.Int).SetBytes(peer), x, P), n); !bytes.Equal(shared, want) {
			return probe.Fail("shared secret for a peer value %s is not y^x mod p (y = the peer's octets read as a number), %d octets", what, len(shared))
		}
	case "fault":
		// the fault-free run tells how many reads there are; a failure at read k <= that many must surface
		_, _, e0 := draw(in.Stream, 0)
		var err error
		var v *big.Int
		var e *probe.Entropy
		in.inject(func(en *probe.Entropy) {
			err = probe.Try(func() error { var x error; v, x = security.GenerateRandomNumber(); return x })
			e = en
		})
		if probe.IsPanic(err) {
			return probe.Fail("GenerateRandomNumber panics when the random source fails: %v", err)
		}
		if e.Failed && (err == nil || v != nil) {
			return probe.Fail("random source failed (read %d / after %d octets) but GenerateRandomNumber returned a number / no error", in.FailAt, in.Budget)
		}
		_ = e0
		// the same through CalculateDiffieHellmanMaterials and NewIKESAKey
		s := bridge.SuiteSel{DH: in.Group}
		sa := newInfoSA(s)
		peer := ref.LeftPad(big.NewInt(4), ref.DHs[in.Group].Bits/8)
		var pub, shared []byte
		var failed bool
		in.inject(func(en *probe.Entropy) {
			err = probe.Try(func() error {
				var x error
				pub, shared, x = security.CalculateDiffieHellmanMaterials(sa, peer)
				return x
			})
			failed = en.Failed
		})
		if probe.IsPanic(err) {
			return probe.Fail("CalculateDiffieHellmanMaterials panics when the random source fails: %v", err)
		}
		if failed && (err == nil || pub != nil || shared != nil) {
			return probe.Fail("random source failed but CalculateDiffieHellmanMaterials returned key material / no error")
		}
		var prop *message.Proposal
		prop, err = newInfoSA(s).ToProposal()
		if err != nil {
			return probe.Fail("ToProposal: %v", err)
		}
		var nsa *security.IKESAKey
		in.inject(func(en *probe.Entropy) {
			err = probe.Try(func() error {
				var x error
				nsa, pub, x = security.NewIKESAKey(prop, peer, []byte("nonces"), 1, 2)
				return x
			})
			failed = en.Failed
		})
		if probe.IsPanic(err) {
			return probe.Fail("NewIKESAKey panics when the random source fails: %v", err)
		}
		if failed && (err == nil || nsa != nil || pub != nil) {
			return probe.Fail("random source failed but NewIKESAKey returned an SA / public value / no error")
		}
		if failed {
			labels = append(labels, fmt.Sprintf("fault-at-read:%d", in.FailAt))
		}
	}
	return probe.Outcome{NonTrivial: true, Labels: labels}
})

var c09Table = probe.Define("C09", "prime-identity", func(t *rapid.T) c09In { panic("enumerated") }, func(in c09In) probe.Outcome {
	g, err := libGroup(in.Group)
	if err != nil {
		return probe.Fail("%v", err)
	}
	P := refPrime(in.Group)
	n := ref.DHs[in.Group].Bits / 8
	one := big.NewInt(1)
	for _, c := range []struct {
		y, want *big.Int
		what    string
	}{{new(big.Int).Sub(P, one), new(big.Int).Sub(P, one), "p-1"}, {P, big.NewInt(0), "p"}, {new(big.Int).Add(P, one), one, "p+1"}} {
		got, err := c09Shared(g, one, c.y)
		if err != nil {
			return probe.Fail("GetSharedKey: %v", err)
		}
		if !bytes.Equal(got, ref.LeftPad(c.want, n)) {
			return probe.Fail("GetSharedKey(1, %s) is not %s mod p for the RFC prime: the group's modulus differs from RFC 2409 / RFC 3526", c.what, c.what)
		}
	}
	// two calls with the system random source differ
	a, err1 := security.GenerateRandomNumber()
	b, err2 := security.GenerateRandomNumber()
	if err1 != nil || err2 != nil || a == nil || b == nil {
		return probe.Fail("GenerateRandomNumber with the system source: %v %v", err1, err2)
	}
	if a.Cmp(b) == 0 {
		return probe.Fail("two locally generated exponents are equal")
	}
	return c09Oracle(in)
})

func TestC09(t *testing.T) {
	c := probe.NewCtx(t, "C09")
	if c.Shard == 1 || !c.Thorough() {
		endurance(c, "C09", "exponents", 70000)
	}
	if c.Shard == 0 {
		for g := 0; g < 2; g++ {
			P := refPrime(g)
			top := new(big.Int).Sub(new(big.Int).Lsh(big.NewInt(1), 2048), big.NewInt(1))
			other := refPrime(1 - g)
			for _, x := range []*big.Int{big.NewInt(0), big.NewInt(1), big.NewInt(2), new(big.Int).Sub(P, big.NewInt(2)), new(big.Int).Sub(P, big.NewInt(1)), P, new(big.Int).Add(P, big.NewInt(1)),
				top, new(big.Int).Sub(top, big.NewInt(1)), other, new(big.Int).Sub(other, big.NewInt(1)), new(big.Int).Add(other, big.NewInt(1))} {
				c09Table.Eval(c, c09In{Group: g, X: x.Bytes(), X2: big.NewInt(77).Bytes(), Y: new(big.Int).Add(P, big.NewInt(5)).Bytes()})
			}
			// small exponents around the sizes of the two moduli (2^x is just below / above p), and peer values and exponents
			// whose low 64 or 32 bits are a small number (0, 1, 2) while the number itself is large
			for _, xv := range []int64{1022, 1023, 1024, 1025, 1535, 2045, 2046, 2047, 2048, 2049, 4096} {
				c09Table.Eval(c, c09In{Group: g, X: big.NewInt(xv).Bytes(), X2: big.NewInt(xv + 1).Bytes(), Y: big.NewInt(3).Bytes()})
			}
			for _, sh := range []uint{32, 64, 128, 1000, 1023, 2047} {
				for _, low := range []int64{0, 1, 2, 3} {
					v := new(big.Int).Lsh(big.NewInt(1), sh)
					v.Add(v, big.NewInt(low))
					c09Table.Eval(c, c09In{Group: g, X: big.NewInt(77).Bytes(), X2: v.Bytes(), Y: v.Bytes()})
					c09Table.Eval(c, c09In{Group: g, X: v.Bytes(), X2: big.NewInt(5).Bytes(), Y: new(big.Int).Add(P, v).Bytes()})
				}
			}
			// exponents that are multiples of the group order p-1 (longer than the modulus for group 2) against peer values that
			// are multiples of p (0, p, 2p, 3p: the only values for which reducing the exponent modulo p-1 changes the result)
			pm1 := new(big.Int).Sub(P, big.NewInt(1))
			for _, k := range []int64{1, 2, 3, 7} {
				x := new(big.Int).Mul(pm1, big.NewInt(k))
				if x.BitLen() > 2048 {
					continue
				}
				for _, m := range []int64{0, 1, 2, 3} {
					c09Table.Eval(c, c09In{Group: g, X: x.Bytes(), X2: new(big.Int).Add(x, big.NewInt(1)).Bytes(), Y: new(big.Int).Mul(P, big.NewInt(m)).Bytes()})
				}
			}
			if g == 0 {
				// group 2: the largest multiple of p-1 below 2^2048
				x := new(big.Int).Lsh(big.NewInt(1), 2048)
				x.Sub(x, big.NewInt(1))
				x.Sub(x, new(big.Int).Mod(x, pm1))
				c09Table.Eval(c, c09In{Group: g, X: x.Bytes(), X2: big.NewInt(2).Bytes(), Y: new(big.Int).Set(P).Bytes()})
				c09Table.Eval(c, c09In{Group: g, X: x.Bytes(), X2: big.NewInt(2).Bytes(), Y: []byte{0}})
			}
		}
		for _, k := range []int{239, 240, 241, 255, 256, 257, 512} {
			c09Random.Eval(c, c09RandIn{Group: 0, Mode: "range", Stream: append(bytes.Repeat([]byte{0xff}, k), 1, 2, 3, 4, 5, 6, 7, 8, 9, 10, 11, 12, 13, 14, 15, 16, 17, 18, 19, 20, 21, 22, 23, 24, 25, 26, 27, 28, 29, 30, 31, 32, 33, 34, 35, 36, 37, 38, 39, 40)})
		}
		// fault enumeration: every read of the fault-free run, both groups
		for g := 0; g < 2; g++ {
			for k := 1; k <= 3; k++ {
				c09Random.Eval(c, c09RandIn{Group: g, Mode: "fault", Stream: model.Bytes{1, 2, 3}, FailAt: k})
				// stream forcing two reads (first candidate too small), failure at the second read
				c09Random.Eval(c, c09RandIn{Group: g, Mode: "fault", Stream: make(model.Bytes, 256), FailAt: k})
				c09Random.Eval(c, c09RandIn{Group: g, Mode: "fault", Stream: make(model.Bytes, 256), FailAt: k, FailOnce: true})
				c09Random.Eval(c, c09RandIn{Group: g, Mode: "fault", Stream: make(model.Bytes, 512), FailAt: k, FailOnce: true, MaxRead: 100})
				for kind := 1; kind < len(probe.InjectedErrors); kind++ {
					c09Random.Eval(c, c09RandIn{Group: g, Mode: "fault", Stream: model.Bytes{1, 2, 3}, FailAt: k, FailOnce: kind%2 == 1, ErrKind: kind})
				}
			}
			for _, b := range []int{1, 2, 16, 128, 255} {
				c09Random.Eval(c, c09RandIn{Group: g, Mode: "fault", Stream: model.Bytes{9, 9}, Budget: b})
			}
		}
	}
	if c.Shard == 0 {
		for g, id := range []uint16{2, 14} {
			for _, sh := range gen.KEShapes() {
				if sh.Group == id {
					c09Random.Eval(c, c09RandIn{Group: g, Mode: "reflection", Stream: model.Bytes{7, 7, 7, 7, 7, 7, 7, 7, 7, 1}, Peer: sh.Data})
				}
			}
		}
	}
	c09Values.Run(c, t, c.N(120, 1200))
	c09Random.Run(c, t, c.N(300, 3000))
}
