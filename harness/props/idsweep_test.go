package props

import (
	"verif/gen"
	"verif/model"
	"verif/probe"
	"verif/ref"
)

// Identifier sweeps: every value of every 8- and 16-bit identifier field of the message model (notify type, configuration
// attribute type, DH group of a KE payload, transform identifier, protocol ids, ID type, certificate encoding, authentication
// method, exchange type ...) in a small message, with a few shapes of the data next to it. A decoder or encoder that treats ONE
// registered or private-use value specially (a validator for notify type 16431, a shim for configuration attribute 16390) is
// reached with certainty instead of with probability 2^-16. The same messages feed the round trip (C03), the reference codec in
// both directions (C05), the canonical fixed point (C12), ownership of decoded data (C20) and the protected path (C01).

func idSweepHeader() model.Header {
	return model.Header{ISPI: 0x0102030405060708, RSPI: 0x1112131415161718, Major: 2, Exchange: 36, Flags: 0x08, MsgID: 9}
}

func pat(n int, seed byte) model.Bytes {
	b := make(model.Bytes, n)
	for i := range b {
		b[i] = byte(i)*5 + seed
	}
	return b
}

// idSweep calls f for every message of the sweep until f returns false. full: all shapes (thorough tier).
func idSweep(full bool, f func(m model.Message) bool) {
	h := idSweepHeader()
	emit := func(i int, p model.Payload) bool {
		m := model.Message{Header: h, Payloads: []model.Payload{p}}
		switch i % 5 {
		case 3:
			// not the last payload of the chain
			m.Payloads = append(m.Payloads, model.Payload{Kind: model.KNonce, Data: model.Bytes{byte(i), 7}})
		case 1:
			// not the first payload either, in the first messages of an exchange (exchange types 34..37, message id 0 or 1,
			// request and response): what a rule about "the first payload of an IKE_SA_INIT request" would look at
			m.Payloads = []model.Payload{{Kind: model.KNonce, Data: model.Bytes{byte(i), 9}}, p, {Kind: model.KVendor, Data: model.Bytes{1}}}
			m.Header.Exchange = uint8(34 + (i/5)%4)
			m.Header.MsgID = uint32((i / 20) % 2)
			m.Header.Flags = []uint8{0x08, 0x20, 0x00, 0x28}[(i/40)%4]
			if (i/160)%2 == 1 {
				m.Header.RSPI = 0
			}
		}
		return f(m)
	}
	for v := 0; v < 65536; v++ {
		t := uint16(v)
		shapes := []model.Notify{{Protocol: 0, Type: t, Data: pat(16, byte(v))}, {Protocol: 1, Type: t, SPI: pat(4, 3), Data: pat(3, byte(v>>8))}}
		if full {
			shapes = append(shapes, model.Notify{Protocol: 3, Type: t}, model.Notify{Protocol: 0, Type: t, Data: pat(1, 9)}, model.Notify{Protocol: 0, Type: t, Data: pat(17, 1)},
				model.Notify{Protocol: 0, Type: t, Data: pat(4, 0xc0)}, model.Notify{Protocol: 0, Type: t, Data: pat(2, 0)})
		}
		for _, n := range shapes {
			n := n
			if !emit(v, model.Payload{Kind: model.KNotify, Notify: &n}) {
				return
			}
		}
		if !emit(v, model.Payload{Kind: model.KKE, KE: &model.KE{Group: t, Data: pat(1+v%3, byte(v))}}) {
			return
		}
		for ty := uint8(1); ty <= 5; ty++ {
			if !full && ty != uint8(1+v%5) {
				continue
			}
			tr := model.Transform{Type: ty, ID: t}
			if v%4 == 1 {
				tr.Attr = &model.Attr{TV: true, Type: 14, Value: 128}
			}
			sa := &model.SA{Proposals: []model.Proposal{{Number: 1, Protocol: 1, Transforms: []model.Transform{tr}}}}
			if !emit(v, model.Payload{Kind: model.KSA, SA: sa}) {
				return
			}
		}
		if v < 32768 {
			vals := []model.Bytes{pat(16, byte(v)), pat(4, 1)}
			if full {
				vals = append(vals, nil, pat(1, 2), pat(17, 3), pat(8, 4))
			}
			for _, val := range vals {
				if !emit(v, model.Payload{Kind: model.KCP, CP: &model.CP{Type: uint8(1 + v%4), Attrs: []model.CPAttr{{Type: t, Value: val}}}}) {
					return
				}
			}
		}
	}
	// the notify types of the IANA registry (error types 1..47, status types 16384..16450) and of TS 24.502, each in every
	// header context a rule about "the first messages of an exchange" could look at, at the front and further down the chain
	var known []uint16
	for v := 1; v <= 47; v++ {
		known = append(known, uint16(v))
	}
	for v := 16384; v <= 16450; v++ {
		known = append(known, uint16(v))
	}
	known = append(known, 0, 8191, 8192, 16383, 40959, 40960, 55500, 55501, 55502, 55503, 55504, 55505, 55506, 55507, 65535)
	for _, ty := range known {
		for ctx := 0; ctx < 64; ctx++ {
			m := model.Message{Header: h}
			m.Header.Exchange = uint8(34 + ctx%4)
			m.Header.MsgID = uint32((ctx / 4) % 2)
			m.Header.Flags = []uint8{0x08, 0x20, 0x00, 0x28}[(ctx/8)%4]
			if (ctx/32)%2 == 1 {
				m.Header.RSPI = 0
			}
			n := model.Notify{Type: ty, Data: pat(8+int(ty)%9, byte(ctx))}
			m.Payloads = []model.Payload{{Kind: model.KNonce, Data: model.Bytes{byte(ctx), 9}}, {Kind: model.KNotify, Notify: &n}, {Kind: model.KVendor, Data: model.Bytes{1}}}
			if !f(m) {
				return
			}
			if full || ctx%3 == 0 {
				m.Payloads = m.Payloads[1:]
				if !f(m) {
					return
				}
			}
		}
	}
	// 8-bit identifier fields
	if !idSweep8(f) {
		return
	}
	// key exchange values with the sizes and formats that go with the registered groups
	for i, sh := range gen.KEShapes() {
		if !emit(i, model.Payload{Kind: model.KKE, KE: &model.KE{Group: sh.Group, Data: sh.Data}}) {
			return
		}
	}
	// certificate data that begins like a DER SEQUENCE whose declared length is the rest, less than the rest, more than the rest
	for i, d := range derShapes() {
		for _, enc := range []uint8{4, 1, 7, 12} {
			if !emit(i, model.Payload{Kind: model.KCERT, Cert: &model.Cert{Encoding: enc, Data: d}}) {
				return
			}
		}
		if !emit(i, model.Payload{Kind: model.KCERTREQ, Cert: &model.Cert{Encoding: 4, Data: d}}) {
			return
		}
	}
	// messages longer than 64 KiB and longer than 1 MiB: many payloads of nearly the largest size (the length field of the
	// header has 32 bits; only each payload is limited to 65535 octets)
	for _, k := range []int{2, 17, 18, 21} {
		for _, size := range []int{60000, 65531} {
			m := model.Message{Header: h}
			for i := 0; i < k; i++ {
				switch i % 3 {
				case 0:
					m.Payloads = append(m.Payloads, model.Payload{Kind: model.KVendor, Data: pat(size, byte(i))})
				case 1:
					m.Payloads = append(m.Payloads, model.Payload{Kind: model.KNotify, Notify: &model.Notify{Protocol: 1, Type: 16384, SPI: pat(4, 1), Data: pat(size-8, byte(i))}})
				default:
					m.Payloads = append(m.Payloads, model.Payload{Kind: model.KKE, KE: &model.KE{Group: 14, Data: pat(size-4, byte(i))}})
				}
			}
			if !f(m) {
				return
			}
		}
	}
	// Security Associations at and beyond what an 8-bit counter holds (proposals have no count on the wire; transforms do), a
	// transform region of more than 32 KiB with a transform behind the big one, many transforms with attributes
	for _, np := range []int{255, 256, 257, 300} {
		sa := &model.SA{}
		for i := 0; i < np; i++ {
			sa.Proposals = append(sa.Proposals, model.Proposal{Number: uint8(i + 1), Protocol: 1, Transforms: []model.Transform{{Type: 1, ID: uint16(i)}}})
		}
		if !f(model.Message{Header: h, Payloads: []model.Payload{{Kind: model.KSA, SA: sa}, {Kind: model.KNonce, Data: model.Bytes{1}}}}) {
			return
		}
	}
	{
		bigAttr := &model.Attr{Type: 300, Var: pat(33000, 5)}
		sa := &model.SA{Proposals: []model.Proposal{{Number: 1, Protocol: 1, Transforms: []model.Transform{{Type: 3, ID: 12, Attr: bigAttr}, {Type: 1, ID: 12, Attr: &model.Attr{TV: true, Type: 14, Value: 256}}, {Type: 4, ID: 14}}},
			{Number: 2, Protocol: 1, Transforms: []model.Transform{{Type: 1, ID: 3}}}}}
		if !f(model.Message{Header: h, Payloads: []model.Payload{{Kind: model.KSA, SA: sa}}}) {
			return
		}
		var many []model.Transform
		for i := 0; i < 255; i++ {
			many = append(many, model.Transform{Type: uint8(1 + i%5), ID: uint16(i), Attr: &model.Attr{Type: uint16(200 + i), Var: pat(130, byte(i))}})
		}
		sa2 := &model.SA{Proposals: []model.Proposal{{Number: 1, Protocol: 3, SPI: pat(255, 1), Transforms: many}, {Number: 2, Protocol: 3, SPI: pat(4, 2), Transforms: many[:3]}}}
		if !f(model.Message{Header: h, Payloads: []model.Payload{{Kind: model.KSA, SA: sa2}}}) {
			return
		}
	}
	// configuration attributes of the registered types with the value sizes that mean something for one of them
	for ty := uint16(1); ty <= 25; ty++ {
		for _, n := range []int{0, 1, 4, 8, 16, 17, 32} {
			for _, ct := range []uint8{1, 2, 3, 4} {
				if !emit(int(ty)+n, model.Payload{Kind: model.KCP, CP: &model.CP{Type: ct, Attrs: []model.CPAttr{{Type: ty, Value: pat(n, byte(ty))}, {Type: ty, Value: pat(n, 3)}}}}) {
					return
				}
			}
		}
	}
	// Delete payloads with as many SPIs as fit (16381) and with a few thousand
	for _, n := range []int{4096, 8192, 16381} {
		d := &model.Delete{Protocol: 3, SPISize: 4, Count: uint16(n)}
		for i := 0; i < n; i++ {
			d.SPIs = append(d.SPIs, uint32(i)*2654435761)
		}
		if !f(model.Message{Header: h, Payloads: []model.Payload{{Kind: model.KDelete, Delete: d}, {Kind: model.KDelete, Delete: &model.Delete{Protocol: 1}}, {Kind: model.KDelete, Delete: &model.Delete{Protocol: 3, SPISize: 4}}}}) {
			return
		}
	}
	// every registered identifier of the five transform types with and without a Key Length attribute (some algorithms have a
	// fixed key size: the attribute travels all the same), and proposals numbered 0 in any position
	for ty := uint8(1); ty <= 5; ty++ {
		for id := uint16(0); id <= 40; id++ {
			for _, bits := range []uint16{0, 128, 192, 256} {
				tr := model.Transform{Type: ty, ID: id}
				if bits != 0 {
					tr.Attr = &model.Attr{TV: true, Type: 14, Value: bits}
				}
				sa := &model.SA{Proposals: []model.Proposal{{Number: 1, Protocol: 3, SPI: pat(4, 1), Transforms: []model.Transform{tr, {Type: 5, ID: 0}}},
					{Number: 0, Protocol: 3, SPI: pat(4, 2), Transforms: []model.Transform{{Type: 1, ID: 12, Attr: &model.Attr{TV: true, Type: 14, Value: 128}}, tr}},
					{Number: 0, Protocol: 3, SPI: pat(4, 3), Transforms: []model.Transform{tr}}}}
				if !emit(int(id), model.Payload{Kind: model.KSA, SA: sa}) {
					return
				}
			}
		}
	}
	// selectors whose port fields are at the ends of the range in every order (OPAQUE is start 65535, end 0)
	for _, k := range []string{model.KTSi, model.KTSr} {
		for _, ports := range [][2]uint16{{65535, 0}, {65535, 65535}, {0, 0}, {1, 0}, {0, 65535}, {65535, 1}} {
			for _, proto := range []uint8{0, 6, 17, 1, 58} {
				sels := []model.Selector{{Type: 7, Protocol: proto, StartPort: ports[0], EndPort: ports[1], StartAddr: pat(4, 1), EndAddr: pat(4, 9)},
					{Type: 8, Protocol: proto, StartPort: ports[0], EndPort: ports[1], StartAddr: pat(16, 1), EndAddr: pat(16, 9)}}
				if !emit(int(proto), model.Payload{Kind: k, TS: &model.TS{Selectors: sels}}) {
					return
				}
			}
		}
	}
	// certificate requests listing trust anchors (20-octet hashes), some of them more than once
	{
		a, b, c := pat(20, 0x11), pat(20, 0x22), pat(20, 0x33)
		for i, order := range [][]model.Bytes{{a, b, a, c}, {a, a}, {a, b, b}, {a, b, c, a}, {c, c, c, a}} {
			var data model.Bytes
			for _, h := range order {
				data = append(data, h...)
			}
			for _, enc := range []uint8{4, 12} {
				if !emit(i, model.Payload{Kind: model.KCERTREQ, Cert: &model.Cert{Encoding: enc, Data: data}}) {
					return
				}
			}
		}
	}
	// DH public values an RFC 6989-minded validator looks at: 0, 1, p-1, p, p+1 in the full width of the group
	for g, grp := range []uint16{2, 14} {
		P := ref.ModpPrime(ref.DHs[g].Bits)
		for d := -2; d <= 2; d++ {
			val := ref.LeftPad(P, ref.DHs[g].Bits/8)
			if d != 0 {
				x := new(bigInt).Set(P)
				x.Add(x, newInt(int64(d)))
				val = ref.LeftPad(x, ref.DHs[g].Bits/8)
			}
			if !f(model.Message{Header: h, Payloads: []model.Payload{{Kind: model.KKE, KE: &model.KE{Group: grp, Data: val}}}}) {
				return
			}
		}
		for _, small := range []int64{0, 1, 2} {
			if !f(model.Message{Header: h, Payloads: []model.Payload{{Kind: model.KKE, KE: &model.KE{Group: grp, Data: ref.LeftPad(newInt(small), ref.DHs[g].Bits/8)}}}}) {
				return
			}
		}
	}
}

// runIDSweep feeds the sweep to an oracle; the quick tier takes the reduced shapes, the thorough tier (shard 0) all of them.
func runIDSweep(c *probe.Ctx, eval func(m model.Message) bool) {
	if c.Shard != 0 {
		return
	}
	n := 0
	idSweep(c.Thorough(), func(m model.Message) bool {
		n++
		return eval(m) || c.Failures() <= 3
	})
	if c.Failures() == 0 {
		c.Exhaustive("id-sweep")
	}
	c.Note("identifier sweep: %d messages", n)
}

func derShapes() []model.Bytes {
	var out []model.Bytes
	for _, n := range []int{0, 1, 5, 127, 128, 200, 255, 256, 300, 700} {
		for _, delta := range []int{0, -1, -3, 1, 40, 4000} {
			decl := n + delta
			if decl < 0 {
				continue
			}
			body := pat(n, byte(n))
			out = append(out, append(model.Bytes{0x30, 0x82, byte(decl >> 8), byte(decl)}, body...))
			if decl < 256 {
				out = append(out, append(model.Bytes{0x30, 0x81, byte(decl)}, body...))
			}
			if decl < 128 {
				out = append(out, append(model.Bytes{0x30, byte(decl)}, body...))
			}
		}
	}
	return out
}

// idSweep8: every value of every 8-bit identifier field (ID type, certificate encoding, authentication method, protocol ids,
// configuration type, proposal number, selector protocol, EAP subtype, exchange type).
func idSweep8(f func(m model.Message) bool) bool {
	h := idSweepHeader()
	for v := 0; v < 256; v++ {
		b := uint8(v)
		ps := []model.Payload{
			{Kind: model.KIDi, ID: &model.ID{Type: b, Data: model.Bytes("Host.Example.ORG")}},
			{Kind: model.KIDr, ID: &model.ID{Type: b, Data: model.Bytes("user@Example.ORG")}},
			{Kind: model.KCERT, Cert: &model.Cert{Encoding: b, Data: model.Bytes("-----BEGIN CERTIFICATE-----\nTUlJ\n-----END CERTIFICATE-----\n")}},
			{Kind: model.KCERTREQ, Cert: &model.Cert{Encoding: b, Data: pat(20, 1)}},
			{Kind: model.KAUTH, Auth: &model.Auth{Method: b, Data: pat(20, 2)}},
			{Kind: model.KNotify, Notify: &model.Notify{Protocol: b, Type: 16384, Data: pat(2, 1)}},
			{Kind: model.KDelete, Delete: &model.Delete{Protocol: b, SPISize: 4, Count: 1, SPIs: []uint32{0xdeadbeef}}},
			{Kind: model.KDelete, Delete: &model.Delete{Protocol: b}},
			{Kind: model.KCP, CP: &model.CP{Type: b, Attrs: []model.CPAttr{{Type: 1, Value: pat(4, 1)}}}},
			{Kind: model.KSA, SA: &model.SA{Proposals: []model.Proposal{{Number: b, Protocol: uint8(255 - v), SPI: pat(v%9, 1), Transforms: []model.Transform{{Type: 1, ID: 12, Attr: &model.Attr{TV: true, Type: 14, Value: 256}}}}}}},
			{Kind: model.KTSi, TS: &model.TS{Selectors: []model.Selector{{Type: 7, Protocol: b, StartPort: 0, EndPort: 65535, StartAddr: pat(4, b), EndAddr: pat(4, b+1)},
				{Type: 7, Protocol: b, StartPort: 0x0304, EndPort: 0x0501, StartAddr: pat(4, b), EndAddr: pat(4, b)}, {Type: 8, Protocol: b, StartPort: 0x0800, EndPort: 0x0800, StartAddr: pat(16, b), EndAddr: pat(16, b)}}}},
			{Kind: model.KTSr, TS: &model.TS{Selectors: []model.Selector{{Type: 7, Protocol: b, StartPort: 0x8000, EndPort: 0x0001, StartAddr: pat(4, b), EndAddr: pat(4, b+1)}}}},
			{Kind: model.KEAP, EAP: &model.EAP{Code: 1 + b%2, Identifier: b, Kind: model.EAka, Sub: b, Attrs: []model.AkaAttr{{Type: model.AT_KDF, Value: model.Bytes{0, 1}}}}},
			{Kind: model.KEAP, EAP: &model.EAP{Code: 1, Identifier: b, Kind: model.EExpanded, VendorID: 10415, VendorType: uint32(v), Data: pat(3, b)}},
		}
		for i, p := range ps {
			m := model.Message{Header: h, Payloads: []model.Payload{p}}
			m.Header.Exchange, m.Header.Flags = b, uint8(v*7)
			if i%2 == 1 {
				m.Header = h
			}
			if !f(m) {
				return false
			}
		}
	}
	return true
}
