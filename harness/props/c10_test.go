package props

import (
	"bytes"
	"fmt"
	"reflect"
	"testing"

	"github.com/free5gc/ike/security/encr"
	"pgregory.net/rapid"

	"verif/gen"
	"verif/model"
	"verif/probe"
	"verif/ref"
)

// C10 — AES-CBC transform: inverse, size law, fresh IVs, bad keys and inputs refused.

type c10Op struct {
	Op      string      `json:"op"` // encrypt | decrypt-valid | decrypt-garbage | encrypt-fault
	Data    model.Bytes `json:"data"`
	Entropy model.Bytes `json:"entropy,omitempty"`
	FailAt  int         `json:"fail_at,omitempty"`
	Budget  int         `json:"byte_budget,omitempty"` // encrypt-fault: the source runs dry after this many octets (fails inside a read)
	// FailOnce: encrypt-fault with FailAt: only that read fails, the source works again afterwards (transient failure)
	FailOnce bool `json:"fail_once,omitempty"`
	// ErrKind selects the error value the failing source returns (probe.InjectedErrors)
	ErrKind int `json:"error_kind,omitempty"`
	// MaxRead: encrypt: the source hands out at most this many octets per Read (short reads without error)
	MaxRead int `json:"max_read,omitempty"`
	// ChainIV: decrypt-valid: the reference sender takes as IV the last ciphertext block of the previous ciphertext this object
	// has seen (the classic CBC chaining of older implementations): still a well-formed ciphertext
	ChainIV bool `json:"iv_is_last_block_of_previous_ciphertext,omitempty"`
	// Spare: encrypt: the plaintext slice has spare capacity behind it (as a sub-slice of a larger buffer has)
	Spare bool        `json:"plaintext_has_spare_capacity,omitempty"`
	IV    model.Bytes `json:"iv,omitempty"`  // decrypt-valid: reference-built ciphertext
	Pad   int         `json:"pad,omitempty"` // decrypt-valid: pad length used by the reference
}

type c10In struct {
	Encr int         `json:"encr"` // index into ref.Encrs
	Key  model.Bytes `json:"key"`
	Ops  []c10Op     `json:"ops"`
}

func c10New(encrIdx int, key []byte) (probe.Crypto, error) {
	ty := encr.StrToType(ref.Encrs[encrIdx].Name)
	if ty == nil {
		return nil, fmt.Errorf("StrToType(%s) = nil", ref.Encrs[encrIdx].Name)
	}
	var c probe.Crypto
	err := probe.Try(func() error {
		x, e := ty.NewCrypto(key)
		if e == nil {
			c = x
		}
		return e
	})
	return c, err
}

// checkCiphertext verifies the size law and the textbook-CBC structure of ct for plaintext p.
func c10CheckCiphertext(key, p, ct []byte, chunks [][]byte) error {
	n := len(p)
	if len(ct) < 32 || (len(ct)-16)%16 != 0 {
		return fmt.Errorf("ciphertext length %d is not 16 + 16k (k>=1)", len(ct))
	}
	k16 := len(ct) - 16
	if !(n < k16 && k16 <= n+256) {
		return fmt.Errorf("size law violated: n=%d, 16k=%d (need n < 16k <= n+256)", n, k16)
	}
	pt, err := ref.CBCDecrypt(key, ct[:16], ct[16:])
	if err != nil {
		return fmt.Errorf("HARNESS: %v", err)
	}
	if !bytes.Equal(pt[:n], p) {
		return fmt.Errorf("textbook AES-CBC decryption does not start with the plaintext")
	}
	if int(pt[len(pt)-1]) != k16-n-1 {
		return fmt.Errorf("pad-length octet is %d, want %d", pt[len(pt)-1], k16-n-1)
	}
	if chunks != nil {
		// the IV must be 16 consecutive octets of what the source handed out during this call
		found := bytes.Contains(bytes.Join(chunks, nil), ct[:16])
		if !found {
			return fmt.Errorf("IV %x was not drawn from the random source during this call (chunks handed out: %d)", ct[:16], len(chunks))
		}
	}
	return nil
}

func c10Oracle(in c10In) probe.Outcome {
	// The caller holds its key in one buffer; it builds an object, then the buffer receives the NEXT key (same size) and another
	// object is built from it: each object works with the key the buffer held when it was built.
	if len(in.Key) == ref.Encrs[in.Encr].KeyLen {
		buf := probe.Exact(in.Key)
		first, err := c10New(in.Encr, buf)
		if err != nil {
			return probe.Fail("NewCrypto: %v", err)
		}
		key2 := make([]byte, len(buf))
		for i := range buf {
			key2[i] = ^in.Key[i] ^ byte(i)
			buf[i] = key2[i]
		}
		second, err := c10New(in.Encr, buf)
		if err != nil {
			return probe.Fail("NewCrypto with the next key in the same buffer: %v", err)
		}
		p := []byte("two objects, one key buffer")
		for i, o := range []struct {
			c   probe.Crypto
			key []byte
		}{{second, key2}, {first, in.Key}} {
			var ct []byte
			if err := probe.Try(func() error { var e error; ct, e = o.c.Encrypt(probe.Exact(p)); return e }); err != nil {
				return probe.Fail("Encrypt: %v", err)
			}
			if err := c10CheckCiphertext(o.key, p, ct, nil); err != nil {
				return probe.Fail("two cipher objects built one after the other from ONE key buffer that held another key each time: object %d does not work with the key the buffer held when it was built: %v", 2-i, err)
			}
		}
	}
	key := probe.Exact(in.Key)
	want := ref.Encrs[in.Encr].KeyLen
	// the key as a caller holds it who cut it out of a longer stretch of keying material (prf+ output): more key octets follow
	// within the capacity of the slice
	keyInKeymat := probe.SpareWith(in.Key, bytes.Repeat([]byte{0x42, 0x17}, 40))
	long, err := c10New(in.Encr, keyInKeymat)
	if probe.IsPanic(err) {
		return probe.Fail("NewCrypto panics: %v", err)
	}
	if len(key) != want {
		if err == nil {
			return probe.Fail("NewCrypto accepted a %d-octet key (the first octets of a longer stretch of keying material) for %s", len(key), ref.Encrs[in.Encr].Name)
		}
		if _, err := c10New(in.Encr, key); err == nil {
			return probe.Fail("NewCrypto accepted a %d-octet key for %s", len(key), ref.Encrs[in.Encr].Name)
		} else if probe.IsPanic(err) {
			return probe.Fail("NewCrypto panics: %v", err)
		}
		return probe.OK(true, "wrong-key-size")
	}
	if !bytes.Equal(keyInKeymat[:cap(keyInKeymat)][len(in.Key):], bytes.Repeat([]byte{0x42, 0x17}, 40)) {
		return probe.Fail("NewCrypto wrote to the keying material behind the key it was given")
	}
	if err != nil {
		return probe.Fail("NewCrypto refused a key of the right size: %v", err)
	}
	labels := []string{"encr:" + ref.Encrs[in.Encr].Name}
	ivs := map[string]bool{}
	nontrivial := false
	type held struct{ p, ct, snapshot []byte }
	var kept []held // ciphertexts returned earlier, still held by the caller
	var lastBlock []byte
	for i, op := range in.Ops {
		fresh, err := c10New(in.Encr, key)
		if err != nil {
			return probe.Fail("NewCrypto (fresh): %v", err)
		}
		labels = append(labels, "op:"+op.Op)
		switch op.Op {
		case "encrypt":
			p := op.Data
			var ctL, ctF []byte
			var eL, eF error
			var chunks [][]byte
			arg := probe.Exact(p)
			if op.Spare {
				arg = probe.Spare(p, 0xA5)
				labels = append(labels, "plaintext-with-spare-capacity")
			}
			if op.MaxRead > 0 {
				labels = append(labels, "source-short-reads")
			}
			probe.WithEntropyOpts(probe.EntropyOpts{Stream: op.Entropy, MaxRead: op.MaxRead}, func(e *probe.Entropy) {
				eL = probe.Try(func() error { var x error; ctL, x = long.Encrypt(arg); return x })
				chunks = e.Chunks
			})
			probe.WithEntropyOpts(probe.EntropyOpts{Stream: op.Entropy, MaxRead: op.MaxRead}, func(e *probe.Entropy) {
				eF = probe.Try(func() error { var x error; ctF, x = fresh.Encrypt(probe.Exact(p)); return x })
			})
			if eL != nil {
				return probe.Fail("step %d: Encrypt of %d octets failed: %v", i, len(p), eL)
			}
			if eF != nil || !bytes.Equal(ctL, ctF) {
				return probe.Fail("step %d: long-lived cipher object and a fresh one give different ciphertexts under the same random stream (per-call state?)", i)
			}
			if !bytes.Equal(arg, p) {
				return probe.Fail("step %d: Encrypt modified its plaintext argument", i)
			}
			if err := c10CheckCiphertext(key, p, ctL, chunks); err != nil {
				return probe.Fail("step %d: %v", i, err)
			}
			var back []byte
			if err := probe.Try(func() error { var x error; back, x = long.Decrypt(probe.Exact(ctL)); return x }); err != nil {
				return probe.Fail("step %d: Decrypt(Encrypt(p)) failed: %v", i, err)
			}
			if !bytes.Equal(back, p) {
				return probe.Fail("step %d: Decrypt(Encrypt(p)) != p", i)
			}
			lastBlock = append([]byte(nil), ctL[len(ctL)-16:]...)
			// a second encryption with the real random source: IV must be new
			var ct2 []byte
			if err := probe.Try(func() error { var x error; ct2, x = long.Encrypt(probe.Exact(p)); return x }); err != nil {
				return probe.Fail("step %d: Encrypt with the system random source failed: %v", i, err)
			}
			if err := c10CheckCiphertext(key, p, ct2, nil); err != nil {
				return probe.Fail("step %d (system random source): %v", i, err)
			}
			if ivs[string(ct2[:16])] {
				return probe.Fail("step %d: IV repeated across calls", i)
			}
			ivs[string(ct2[:16])] = true
			// ... nor across objects: a second object with the same key, system random source
			var ct3 []byte
			if err := probe.Try(func() error { var x error; ct3, x = fresh.Encrypt(probe.Exact(p)); return x }); err != nil {
				return probe.Fail("step %d: Encrypt on a second object: %v", i, err)
			}
			if len(ct3) < 16 || ivs[string(ct3[:16])] {
				return probe.Fail("step %d: IV repeated across cipher objects", i)
			}
			ivs[string(ct3[:16])] = true
			kept = append(kept, held{p, ctL, append([]byte(nil), ctL...)}, held{p, ct2, append([]byte(nil), ct2...)})
			if len(p) > 16 || len(p)%16 == 15 || len(p)%16 == 0 {
				nontrivial = true
			}
		case "encrypt-fault":
			var ct []byte
			var eL error
			var failed bool
			run := func(e *probe.Entropy) {
				eL = probe.Try(func() error { var x error; ct, x = long.Encrypt(probe.Exact(op.Data)); return x })
				failed = e.Failed
			}
			if op.Budget > 0 {
				probe.WithEntropyBudget(op.Entropy, op.Budget, run)
			} else {
				probe.WithEntropyOpts(probe.EntropyOpts{Stream: op.Entropy, FailAt: op.FailAt, FailOnce: op.FailOnce, ErrKind: op.ErrKind}, run)
			}
			if probe.IsPanic(eL) {
				return probe.Fail("step %d: Encrypt panics when the random source fails: %v", i, eL)
			}
			if failed && (eL == nil || ct != nil) {
				return probe.Fail("step %d: random source failed (read %d / after %d octets) but Encrypt returned a ciphertext / no error", i, op.FailAt, op.Budget)
			}
			if !failed && eL != nil {
				return probe.Fail("step %d: Encrypt failed although the random source did not: %v", i, eL)
			}
			if failed {
				labels = append(labels, fmt.Sprintf("fault-at-read:%d", op.FailAt))
				if op.FailOnce {
					labels = append(labels, "fault:transient")
				}
				nontrivial = true
			}
		case "decrypt-valid":
			// reference-built ciphertext with an arbitrary legal pad length
			pt := append(append([]byte(nil), op.Data...), make([]byte, op.Pad)...)
			for j := range pt[len(op.Data):] {
				pt[len(op.Data)+j] = byte(j*7 + 1)
			}
			pt = append(pt, byte(op.Pad))
			iv := op.IV
			if op.ChainIV && len(lastBlock) == 16 {
				iv = lastBlock
				labels = append(labels, "iv-chained-from-previous-ciphertext")
			}
			ct, err := ref.CBCEncrypt(key, iv, pt)
			if err != nil {
				return probe.Fail("HARNESS: %v", err)
			}
			full := append(append([]byte(nil), iv...), ct...)
			lastBlock = append([]byte(nil), full[len(full)-16:]...)
			var back []byte
			if err := probe.Try(func() error { var x error; back, x = long.Decrypt(probe.Exact(full)); return x }); err != nil {
				return probe.Fail("step %d: Decrypt of a reference ciphertext (pad length %d) failed: %v", i, op.Pad, err)
			}
			if !bytes.Equal(back, op.Data) {
				return probe.Fail("step %d: Decrypt of a reference ciphertext (pad length %d) gives a different plaintext", i, op.Pad)
			}
			if op.Pad >= 16 {
				labels = append(labels, "pad>=16")
			}
		case "decrypt-garbage":
			var vL, vF []byte
			eL := probe.Try(func() error { var x error; vL, x = long.Decrypt(probe.Exact(op.Data)); return x })
			eF := probe.Try(func() error { var x error; vF, x = fresh.Decrypt(probe.Exact(op.Data)); return x })
			if probe.IsPanic(eL) {
				return probe.Fail("step %d: Decrypt panics on %d octets: %v", i, len(op.Data), eL)
			}
			vR, eR := ref.TransformDecrypt(key, op.Data)
			if (eL == nil) != (eR == nil) {
				return probe.Fail("step %d: Decrypt of %d octets: library (%v) and reference (%v) disagree on acceptance", i, len(op.Data), eL, eR)
			}
			if (eL == nil) != (eF == nil) || !bytes.Equal(vL, vF) {
				return probe.Fail("step %d: long-lived cipher object and a fresh one disagree on Decrypt", i)
			}
			if eL == nil && !bytes.Equal(vL, vR) {
				return probe.Fail("step %d: Decrypt differs from the reference", i)
			}
		}
		// the object's test-only hooks (if the implementation has them) must not have been set by an operation
		if rv := reflect.Indirect(reflect.ValueOf(long)); rv.Kind() == reflect.Struct {
			for _, name := range []string{"Iv", "Padding"} {
				if f := rv.FieldByName(name); f.IsValid() && f.Kind() == reflect.Slice && !f.IsNil() {
					return probe.Fail("step %d: the cipher object acquired per-call state (field %s set by an operation)", i, name)
				}
			}
		}
	}
	// ciphertexts handed out earlier are the caller's: later operations on the object must not have touched them
	for j, h := range kept {
		if !bytes.Equal(h.ct, h.snapshot) {
			return probe.Fail("ciphertext #%d returned earlier was overwritten by a later operation on the same cipher object", j)
		}
	}
	if len(in.Ops) >= 2 {
		labels = append(labels, "sequence>=2")
	}
	return probe.Outcome{NonTrivial: nontrivial || len(in.Ops) >= 2, Labels: labels}
}

func c10GenOp(t *rapid.T) c10Op {
	switch gen.Pick(t, "op", 5, 2, 2, 2) {
	case 0:
		n := gen.Len(t, "ptlen", 0, 4096, 0, 1, 15, 16, 17, 31, 32, 33, 47, 48, 255, 256, 4095, 4096)
		op := c10Op{Op: "encrypt", Data: gen.Fill(t, "pt", n), Entropy: c10Entropy(t), Spare: rapid.IntRange(0, 2).Draw(t, "spare") == 2}
		if rapid.IntRange(0, 3).Draw(t, "shortreads") == 3 {
			op.MaxRead = rapid.SampledFrom([]int{1, 2, 3, 7, 8, 15, 16, 17}).Draw(t, "maxread")
		}
		return op
	case 1:
		n := gen.Len(t, "ptlen", 0, 300, 0, 15, 16)
		base := 15 - n%16
		pad := base + 16*rapid.IntRange(0, (255-base)/16).Draw(t, "padblocks")
		return c10Op{Op: "decrypt-valid", Data: gen.Fill(t, "pt", n), IV: gen.Fill(t, "iv", 16), Pad: pad, ChainIV: rapid.IntRange(0, 2).Draw(t, "chainiv") == 2}
	case 2:
		n := gen.Len(t, "ctlen", 0, 200, 0, 15, 16, 17, 31, 32, 33, 48)
		return c10Op{Op: "decrypt-garbage", Data: gen.Fill(t, "ct", n)}
	default:
		n := gen.Len(t, "ptlen", 0, 100, 0, 15, 16)
		if rapid.Bool().Draw(t, "bytebudget") {
			return c10Op{Op: "encrypt-fault", Data: gen.Fill(t, "pt", n), Entropy: c10Entropy(t), Budget: rapid.IntRange(1, 40).Draw(t, "budget")}
		}
		return c10Op{Op: "encrypt-fault", Data: gen.Fill(t, "pt", n), Entropy: c10Entropy(t), FailAt: rapid.IntRange(1, 3).Draw(t, "failat"), FailOnce: rapid.Bool().Draw(t, "failonce"),
			ErrKind: rapid.IntRange(0, len(probe.InjectedErrors)-1).Draw(t, "errkind")}
	}
}

func c10Entropy(t *rapid.T) model.Bytes {
	switch rapid.IntRange(0, 3).Draw(t, "entclass") {
	case 0:
		return bytes.Repeat([]byte{0}, 64)
	case 1:
		return bytes.Repeat([]byte{0xff}, 64)
	default:
		return gen.Fill(t, "entropy", rapid.IntRange(0, 48).Draw(t, "entlen"))
	}
}

var c10Seq = probe.Define("C10", "history", func(t *rapid.T) c10In {
	in := c10In{Encr: rapid.IntRange(0, 2).Draw(t, "encr")}
	in.Key = gen.Fill(t, "key", ref.Encrs[in.Encr].KeyLen)
	n := rapid.IntRange(1, 8).Draw(t, "nops")
	for i := 0; i < n; i++ {
		in.Ops = append(in.Ops, c10GenOp(t))
	}
	return in
}, c10Oracle)

var c10Table = probe.Define("C10", "table", func(t *rapid.T) c10In { panic("enumerated") }, c10Oracle)

// c10TableLengths: every ciphertext length 0..96, and the block-aligned ones up to 18 blocks of body (a decoder may treat long
// bodies on another path than short ones)
func c10TableLengths() []int {
	var out []int
	for l := 0; l <= 96; l++ {
		out = append(out, l)
	}
	for l := 112; l <= 16+18*16; l += 16 {
		out = append(out, l, l+1)
	}
	return out
}

func TestC10(t *testing.T) {
	c := probe.NewCtx(t, "C10")
	idleStart(c, "cipher")
	if c.Shard == 1 || !c.Thorough() {
		endurance(c, "C10", "encrypt", 70000)
	}
	if c.Shard == 0 {
		// wrong-size keys 0..64 for the three variants (exhaustive)
		for e := 0; e < 3; e++ {
			for n := 0; n <= 64; n++ {
				c10Table.Eval(c, c10In{Encr: e, Key: bytes.Repeat([]byte{0x42}, n), Ops: []c10Op{{Op: "encrypt", Data: model.Bytes("abc")}}})
			}
		}
		// ciphertext strings: every length 0..96 x every value of the recovered pad-length octet
		for e := 0; e < 3; e++ {
			key := bytes.Repeat([]byte{byte(0x10 + e)}, ref.Encrs[e].KeyLen)
			iv := bytes.Repeat([]byte{0x77}, 16)
			for _, l := range c10TableLengths() {
				var ops []c10Op
				for v := 0; v < 256; v++ {
					var ct []byte
					if l >= 32 && l%16 == 0 {
						pt := bytes.Repeat([]byte{0x5a}, l-16)
						pt[len(pt)-1] = byte(v)
						x, _ := ref.CBCEncrypt(key, iv, pt)
						ct = append(append([]byte(nil), iv...), x...)
					} else {
						ct = bytes.Repeat([]byte{byte(v)}, l)
						if v > 3 {
							continue // content is irrelevant for a length that must be refused
						}
					}
					ops = append(ops, c10Op{Op: "decrypt-garbage", Data: ct})
				}
				if !c10Table.Eval(c, c10In{Encr: e, Key: key, Ops: ops}) && c.Failures() > 5 {
					return
				}
			}
		}
		// random-source failure at every read of a fault-free encryption (enumerated)
		for e := 0; e < 3; e++ {
			key := bytes.Repeat([]byte{9}, ref.Encrs[e].KeyLen)
			for _, n := range []int{0, 1, 15, 16, 17, 100} {
				reads := 0
				x, _ := c10New(e, key)
				probe.WithEntropy(nil, 0, func(en *probe.Entropy) { _, _ = x.Encrypt(make([]byte, n)); reads = en.Reads })
				for k := 1; k <= reads+1; k++ {
					c10Table.Eval(c, c10In{Encr: e, Key: key, Ops: []c10Op{{Op: "encrypt-fault", Data: make([]byte, n), FailAt: k}}})
					c10Table.Eval(c, c10In{Encr: e, Key: key, Ops: []c10Op{{Op: "encrypt-fault", Data: make([]byte, n), FailAt: k, FailOnce: true}}})
					for kind := 1; kind < len(probe.InjectedErrors) && n <= 16; kind++ {
						c10Table.Eval(c, c10In{Encr: e, Key: key, Ops: []c10Op{{Op: "encrypt-fault", Data: make([]byte, n), FailAt: k, FailOnce: kind%2 == 0, ErrKind: kind}}})
					}
				}
				// ... and at every octet: the source runs dry after b octets, for every b below what the fault-free run consumed
				consumed := 0
				probe.WithEntropy(nil, 0, func(en *probe.Entropy) {
					_, _ = x.Encrypt(make([]byte, n))
					for _, ch := range en.Chunks {
						consumed += len(ch)
					}
				})
				for b := 1; b < consumed && c.Failures() <= 5; b++ {
					c10Table.Eval(c, c10In{Encr: e, Key: key, Ops: []c10Op{{Op: "encrypt-fault", Data: make([]byte, n), Budget: b}}})
				}
			}
		}
		if c.Failures() == 0 {
			c.Exhaustive("table")
		}
	}
	c10Seq.Run(c, t, c.N(2500, 25000))
	idleFinish(c, "C10", "cipher")
}
