package props

import (
	"bytes"
	"errors"
	"fmt"
	"runtime"
	"testing"

	"github.com/free5gc/ike/security"
	"github.com/free5gc/ike/security/dh"
	"github.com/free5gc/ike/security/encr"
	"github.com/free5gc/ike/security/esn"
	"github.com/free5gc/ike/security/integ"
	"pgregory.net/rapid"

	"verif/bridge"
	"verif/gen"
	"verif/model"
	"verif/probe"
	"verif/ref"
)

// C17 — SA key objects are reusable: each operation behaves as on a fresh SA.

type c17Op struct {
	Op       string        `json:"op"`           // protect | unprotect-genuine | unprotect-tampered | unprotect-truncated | unprotect-garbage | derive-child
	AsI      bool          `json:"as_initiator"` // the role L acts in
	Msg      model.Message `json:"msg,omitempty"`
	Producer string        `json:"producer,omitempty"` // fresh-lib | ref
	IV       model.Bytes   `json:"iv,omitempty"`
	Pos      int           `json:"pos,omitempty"`
	Bit      int           `json:"bit,omitempty"`
	Garbage  model.Bytes   `json:"garbage,omitempty"`
	WithHdr  bool          `json:"with_header,omitempty"`
	ChildE   int           `json:"child_encr,omitempty"`
	ChildI   int           `json:"child_integ,omitempty"` // 0..2, 3 = none
	Nonce    model.Bytes   `json:"nonce,omitempty"`
	// Bulk > 0 (protect / unprotect-genuine): the message is a synthetic one carrying one Vendor ID payload of this many
	// octets (content a function of the step number), so that an SA moves megabytes within one history
	Bulk int `json:"bulk_octets,omitempty"`
}

type c17In struct {
	Suite bridge.SuiteSel `json:"suite"`
	Keys  bridge.KeySet   `json:"keys"`
	Ops   []c17Op         `json:"ops"`
}

// childViaProposal makes childSA obtain the Child SA descriptors from a proposal (NewChildSAKeyByProposal) instead of by
// name, where the library supports that (it demands an integrity transform in the proposal).
var childViaProposal = false

func childSA(e, i int) *security.ChildSAKey {
	c := &security.ChildSAKey{EncrKInfo: encr.StrToKType(ref.Encrs[e].Name)}
	if i < 3 {
		c.IntegKInfo = integ.StrToKType(ref.Integs[i].Name)
	}
	if childViaProposal && i < 3 {
		c.EsnInfo, _ = esn.StrToType("ESN_DISABLE")
		if p, err := c.ToProposal(); err == nil {
			if c2, err := security.NewChildSAKeyByProposal(p); err == nil {
				return c2
			}
		}
	}
	return c
}

// deriveChild runs GenerateKeyForChildSA and returns the four keys.
func deriveChild(sa *security.IKESAKey, e, i int, nonce []byte) (ref.ChildKeys, error) {
	c := childSA(e, i)
	if len(nonce)%2 == 1 {
		// the Child SA was negotiated with a Diffie-Hellman transform (PFS): a descriptor on the object, nothing the keys of
		// RFC 7296 2.17 depend on in this library (the caller mixes g^ir into the nonce argument itself)
		c.DhInfo = dh.StrToType(ref.DHs[(len(nonce)/2)%2].Name)
	}
	return deriveChildOn(c, sa, nonce)
}

// deriveChildOn keys an existing Child SA object.
func deriveChildOn(c *security.ChildSAKey, sa *security.IKESAKey, nonce []byte) (ref.ChildKeys, error) {
	return deriveChildRaw(c, sa, append([]byte(nil), nonce...))
}

// deriveChildRaw hands the nonce slice to the library as it is (no private copy).
func deriveChildRaw(c *security.ChildSAKey, sa *security.IKESAKey, nonce []byte) (ref.ChildKeys, error) {
	var out ref.ChildKeys
	err := probe.Try(func() error { return c.GenerateKeyForChildSA(sa, nonce) })
	if err != nil {
		return out, err
	}
	out = ref.ChildKeys{EncrI2R: c.InitiatorToResponderEncryptionKey, IntegI2R: c.InitiatorToResponderIntegrityKey,
		EncrR2I: c.ResponderToInitiatorEncryptionKey, IntegR2I: c.ResponderToInitiatorIntegrityKey}
	return out, nil
}

func childEqual(a, b ref.ChildKeys) bool {
	return bytes.Equal(a.EncrI2R, b.EncrI2R) && bytes.Equal(a.IntegI2R, b.IntegI2R) && bytes.Equal(a.EncrR2I, b.EncrR2I) && bytes.Equal(a.IntegR2I, b.IntegR2I)
}

func refChild(s bridge.SuiteSel, skd, nonce []byte, e, i int) ref.ChildKeys {
	il := 0
	if i < 3 {
		il = ref.Integs[i].KeyLen
	}
	return ref.DeriveChild(ref.Prfs[s.Prf], skd, nonce, ref.Encrs[e].KeyLen, il)
}

func c17Oracle(in c17In) probe.Outcome {
	L, err := bridge.NewSA(in.Suite, in.Keys)
	if err != nil {
		return probe.Fail("%v", err)
	}
	labels := []string{"suite:" + in.Suite.String()}
	rejectedThenGenuine, protectTwice, prevRejected, prevProtect := false, false, false, false
	for i, op := range in.Ops {
		F, err := bridge.NewSA(in.Suite, in.Keys) // fresh object with the same keys
		if err != nil {
			return probe.Fail("%v", err)
		}
		labels = append(labels, "op:"+op.Op)
		step := fmt.Sprintf("step %d (%s)", i, op.Op)
		if op.Bulk > 0 {
			// bulk histories also walk through the processor counts (their bodies are large enough for code that splits work)
			defer runtime.GOMAXPROCS(runtime.GOMAXPROCS(probe.ProcsFor(i)))
			data := make(model.Bytes, op.Bulk)
			for j := range data {
				data[j] = byte(j*7+i*13) ^ byte(j>>8)
			}
			op.Msg = model.Message{Header: model.Header{ISPI: 0x1111, RSPI: 0x2222, Major: 2, Exchange: 37, Flags: 0x08, MsgID: uint32(i)},
				Payloads: []model.Payload{{Kind: model.KVendor, Data: data}}}
			if i < 3 {
				labels = append(labels, "bulk")
			}
		}
		rejected := false
		switch op.Op {
		case "protect":
			w, _, _, err := libProtect(op.Msg, L, op.AsI, nil)
			if err != nil {
				return probe.Fail("%s: the long-lived SA fails to protect: %v", step, err)
			}
			got, err := libUnprotect(w, F, !op.AsI, op.WithHdr)
			if err != nil {
				return probe.Fail("%s: message protected by the long-lived SA is refused by a fresh peer: %v", step, err)
			}
			if d := model.Diff(op.Msg, got); d != "" {
				return probe.Fail("%s: fresh peer recovers a different message: %s", step, d)
			}
			if _, err := ref.Open(in.Suite.Ref(), in.Keys.Dir(op.AsI), w); err != nil {
				return probe.Fail("%s: independent receiver cannot open it: %v", step, err)
			}
			if prevProtect {
				protectTwice = true
			}
		case "unprotect-genuine", "unprotect-tampered", "unprotect-truncated":
			var w []byte
			if op.Producer == "ref" {
				w, err = refProtect(op.Msg, in.Suite, in.Keys, !op.AsI, op.IV, -1, nil)
			} else {
				w, _, _, err = libProtect(op.Msg, F, !op.AsI, nil)
			}
			if err != nil {
				return probe.Fail("%s: producing the peer's message: %v", step, err)
			}
			switch op.Op {
			case "unprotect-genuine":
				got, err := libUnprotect(w, L, op.AsI, op.WithHdr)
				if err != nil {
					return probe.Fail("%s: genuine message from a fresh peer refused by the long-lived SA: %v", step, err)
				}
				if d := model.Diff(op.Msg, got); d != "" {
					return probe.Fail("%s: long-lived SA recovers a different message: %s", step, d)
				}
				if prevRejected {
					rejectedThenGenuine = true
				}
			case "unprotect-tampered":
				if op.Pos%3 == 0 {
					// an altered copy of a message the long-lived SA has just accepted
					if _, err := libUnprotect(w, L, op.AsI, op.WithHdr); err != nil {
						return probe.Fail("%s: genuine message refused by the long-lived SA: %v", step, err)
					}
				}
				x := append([]byte(nil), w...)
				pos := 17 + op.Pos%(len(x)-17) // never the first-payload octet (carve-out of C02)
				x[pos] ^= 1 << uint(op.Bit%8)
				_, err := libUnprotect(x, L, op.AsI, op.WithHdr)
				if probe.IsPanic(err) || errors.Is(err, errNeitherNor) {
					return probe.Fail("%s: %v", step, err)
				}
				if err == nil {
					return probe.Fail("%s: forged message (bit %d of octet %d flipped) accepted by the long-lived SA", step, op.Bit%8, pos)
				}
				rejected = true
			default:
				l := 29 + op.Pos%(len(w)-29)
				_, err := libUnprotect(w[:l], L, op.AsI, op.WithHdr)
				if probe.IsPanic(err) || errors.Is(err, errNeitherNor) {
					return probe.Fail("%s: %v", step, err)
				}
				if err == nil {
					return probe.Fail("%s: message truncated to %d of %d octets accepted by the long-lived SA", step, l, len(w))
				}
				rejected = true
			}
		case "unprotect-garbage":
			withHdr := op.WithHdr && len(op.Garbage) >= 28
			gL, eL := libUnprotect(op.Garbage, L, op.AsI, withHdr)
			gF, eF := libUnprotect(op.Garbage, F, op.AsI, withHdr)
			if probe.IsPanic(eL) || errors.Is(eL, errNeitherNor) {
				return probe.Fail("%s: %v", step, eL)
			}
			if (eL == nil) != (eF == nil) {
				return probe.Fail("%s: long-lived SA (%v) and fresh SA (%v) disagree on %d garbage octets", step, eL, eF, len(op.Garbage))
			}
			if eL == nil && model.Diff(gL, gF) != "" {
				return probe.Fail("%s: long-lived and fresh SA decode garbage differently", step)
			}
			rejected = eL != nil
		case "unprotect-authentic-malformed":
			// a datagram whose checksum is RIGHT (a peer holding the keys, or a buggy one) but whose protected part is not: an
			// SK body of arbitrary octets (too short, not a multiple of the block size), or a well-sized ciphertext that decrypts
			// to an impossible pad length / to octets that are no payload chain. It gets past the checksum and fails later.
			hdr := ref.Header28(5, 6, 2, 0, 37, 0x08, uint32(i))
			var w []byte
			if op.Pos%3 == 0 {
				w, err = ref.ProtectBody(in.Suite.Ref(), in.Keys.Dir(!op.AsI), hdr, 33, op.Garbage, 0)
			} else {
				pt := append([]byte(nil), op.Garbage...)
				for len(pt)%16 != 15 {
					pt = append(pt, byte(len(pt)))
				}
				padOctet := byte(0xff) // impossible: longer than the plaintext
				if op.Pos%3 == 2 {
					padOctet = 0 // fine; the octets in front of it are no payload chain
				}
				pt = append(pt, padOctet)
				w, err = ref.ProtectPlain(in.Suite.Ref(), in.Keys.Dir(!op.AsI), hdr, 33, pt, op.IV, 0)
			}
			if err != nil {
				return probe.Fail("HARNESS: %v", err)
			}
			gL, eL := libUnprotect(w, L, op.AsI, op.WithHdr)
			gF, eF := libUnprotect(w, F, op.AsI, op.WithHdr)
			if probe.IsPanic(eL) || errors.Is(eL, errNeitherNor) {
				return probe.Fail("%s: %v", step, eL)
			}
			if (eL == nil) != (eF == nil) {
				return probe.Fail("%s: long-lived SA (%v) and fresh SA (%v) disagree on an authentic but malformed message", step, eL, eF)
			}
			if eL == nil && model.Diff(gL, gF) != "" {
				return probe.Fail("%s: long-lived and fresh SA decode an authentic but malformed message differently", step)
			}
			rejected = eL != nil
		case "print":
			// logging the long-lived SA (String(), %v) between two operations changes nothing
			if err := probe.Try(func() error { _ = L.String(); _ = fmt.Sprintf("%v", L); return nil }); err != nil {
				return probe.Fail("%s: printing the SA: %v", step, err)
			}
		case "derive-child":
			kL, err := deriveChild(L, op.ChildE, op.ChildI, op.Nonce)
			if err != nil {
				return probe.Fail("%s: long-lived SA: %v", step, err)
			}
			kF, err := deriveChild(F, op.ChildE, op.ChildI, op.Nonce)
			if err != nil {
				return probe.Fail("%s: fresh SA: %v", step, err)
			}
			want := refChild(in.Suite, in.Keys.D, op.Nonce, op.ChildE, op.ChildI)
			if !childEqual(kL, kF) {
				return probe.Fail("%s: Child SA keys from the long-lived SA differ from those of a fresh SA", step)
			}
			if !childEqual(kL, want) {
				return probe.Fail("%s: Child SA keys differ from prf+(SK_d, Ni|Nr)", step)
			}
		}
		prevRejected, prevProtect = rejected, op.Op == "protect"
	}
	if rejectedThenGenuine {
		labels = append(labels, "rejected-then-genuine")
	}
	if protectTwice {
		labels = append(labels, "protect-twice-in-a-row")
	}
	return probe.Outcome{NonTrivial: len(in.Ops) >= 3 && (rejectedThenGenuine || protectTwice), Labels: labels}
}

func c17GenOp(t *rapid.T, small gen.Opts) c17Op {
	op := c17Op{AsI: rapid.Bool().Draw(t, "asI"), WithHdr: rapid.Bool().Draw(t, "withhdr")}
	switch gen.Pick(t, "op", 6, 6, 4, 4, 4, 4, 4, 1) {
	case 0:
		op.Op, op.Msg = "protect", gen.Message(t, small)
	case 1:
		op.Op, op.Msg = "unprotect-genuine", gen.Message(t, small)
	case 2:
		op.Op, op.Msg = "unprotect-tampered", gen.Message(t, small)
		op.Pos, op.Bit = rapid.IntRange(0, 5000).Draw(t, "pos"), rapid.IntRange(0, 7).Draw(t, "bit")
	case 3:
		op.Op, op.Msg = "unprotect-truncated", gen.Message(t, small)
		op.Pos = rapid.IntRange(0, 5000).Draw(t, "pos")
	case 4:
		op.Op = "unprotect-garbage"
		if rapid.Bool().Draw(t, "skshaped") {
			// header + SK generic header + random body: reaches the checksum comparison
			b := gen.Fill(t, "garbage", rapid.IntRange(0, 120).Draw(t, "glen"))
			g := append(ref.Header28(1, 2, 2, 0, 35, 8, 3), 33, 0, byte((4+len(b))>>8), byte(4+len(b)))
			g = append(g, b...)
			g[16] = 46
			gen.FixHeaderLength(g)
			op.Garbage = g
		} else {
			op.Garbage = gen.RawBytes(t, "garbage", 300)
		}
	case 7:
		op.Op = "print"
		return op
	case 6:
		op.Op = "unprotect-authentic-malformed"
		op.Garbage = gen.Fill(t, "body", gen.Len(t, "bodylen", 0, 120, 0, 1, 15, 16, 17, 31, 32, 33, 48))
		op.Pos = rapid.IntRange(0, 2).Draw(t, "class")
		op.IV = gen.Fill(t, "iv", 16)
		return op
	default:
		op.Op = "derive-child"
		op.ChildE, op.ChildI = rapid.IntRange(0, 2).Draw(t, "childencr"), rapid.IntRange(0, 3).Draw(t, "childinteg")
		op.Nonce = gen.BytesLen(t, "nonce", 0, 256, 0, 32, 64)
	}
	if (op.Op == "protect" || op.Op == "unprotect-genuine") && rapid.IntRange(0, 3).Draw(t, "semantic") == 3 {
		op.Msg = gen.Semantic(t) // a message that means something: what an SA carries is none of its business
	}
	if op.Msg.Payloads != nil || op.Op == "protect" || op.Op[:9] == "unprotect" && op.Op != "unprotect-garbage" {
		op.Producer = rapid.SampledFrom([]string{"fresh-lib", "ref"}).Draw(t, "producer")
		op.IV = gen.Fill(t, "iv", 16)
	}
	return op
}

var c17History = probe.Define("C17", "history", func(t *rapid.T) c17In {
	in := c17In{Suite: genSuite(t)}
	in.Keys = genKeys(t, in.Suite)
	in.Keys.D = gen.Fill(t, "sk_d", ref.Prfs[in.Suite.Prf].KeyLen)
	n := gen.Len(t, "nops", 1, 64, 3, 8, 64)
	small := gen.Opts{MaxPayloads: 3, NoBig: true, MaxChain: 2000}
	switch rapid.IntRange(0, 39).Draw(t, "historyclass") {
	case 0:
		// bulk: one SA moves several megabytes (mostly protecting in one role)
		role := rapid.Bool().Draw(t, "bulkrole")
		for i := 0; i < 64; i++ {
			op := c17Op{Op: "protect", AsI: role, Bulk: rapid.SampledFrom([]int{4100, 5000, 8300, 12000, 16000, 30000, 60000, 65000}).Draw(t, "bulk"), Producer: "fresh-lib", IV: make(model.Bytes, 16)}
			if i%9 == 8 {
				op.Op, op.AsI = "unprotect-genuine", !role
			}
			in.Ops = append(in.Ops, op)
		}
		return in
	case 1, 2:
		// a run of forgeries (15..40 in a row), then business as usual
		k := rapid.SampledFrom([]int{15, 16, 17, 24, 40}).Draw(t, "forgeries")
		role := rapid.Bool().Draw(t, "forgery-role")
		for i := 0; i < k && len(in.Ops) < 60; i++ {
			// altered copies of genuine messages: each one reaches the checksum comparison and fails it (position 1 mod 3: the
			// long-lived SA is not shown the genuine message first; mostly one role, so that the failures are consecutive for
			// whatever the SA counts per direction)
			asI := role
			if rapid.IntRange(0, 9).Draw(t, "other-role") == 9 {
				asI = !role
			}
			in.Ops = append(in.Ops, c17Op{Op: "unprotect-tampered", AsI: asI, WithHdr: rapid.Bool().Draw(t, "withhdr"), Msg: gen.Message(t, small),
				Pos: 1 + 3*rapid.IntRange(10, 900).Draw(t, "pos"), Bit: rapid.IntRange(0, 7).Draw(t, "bit"), Producer: "ref", IV: gen.Fill(t, "iv", 16)})
		}
		in.Ops = append(in.Ops, c17Op{Op: "unprotect-genuine", AsI: rapid.Bool().Draw(t, "asI"), Msg: gen.Message(t, small), Producer: "ref", IV: gen.Fill(t, "iv", 16)})
		n = 3
	}
	for i := 0; i < n && len(in.Ops) < 64; i++ {
		op := c17GenOp(t, small)
		// the same message once more (same message id, same content) - as the other role, or as the same one: a
		// retransmission, a liveness check answered with the request's id
		if prev := len(in.Ops) - 1; prev >= 0 && (op.Op == "protect" || op.Op == "unprotect-genuine") && in.Ops[prev].Bulk == 0 &&
			(in.Ops[prev].Op == "protect" || in.Ops[prev].Op == "unprotect-genuine") && rapid.IntRange(0, 3).Draw(t, "same-message-again") == 3 {
			op.Msg = in.Ops[prev].Msg
		} else if (op.Op == "protect" || op.Op == "unprotect-genuine") && len(in.Ops) >= 2 && rapid.IntRange(0, 4).Draw(t, "earlier-message-again") == 4 {
			// ... or the message of an EARLIER step, with other messages in between (A B A): the very same datagram arrives again
			// (producer, IV and role of that step are kept, so that the octets are the same)
			k := rapid.IntRange(0, len(in.Ops)-2).Draw(t, "earlier")
			if src := &in.Ops[k]; (src.Op == "protect" || src.Op == "unprotect-genuine") && src.Bulk == 0 {
				if src.Op == "unprotect-genuine" && len(src.IV) == 16 {
					src.Producer = "ref" // the reference sender with a given IV: the same octets both times
				}
				op.Msg, op.Producer, op.IV, op.AsI = src.Msg, src.Producer, src.IV, src.AsI
				if src.Op == "unprotect-genuine" || rapid.Bool().Draw(t, "earlier-as-received") {
					op.Op = "unprotect-genuine"
				}
			}
		}
		if op.Op == "derive-child" {
			// nonces related to those of an earlier derivation on this SA: the same, an extension, a prefix
			for j := len(in.Ops) - 1; j >= 0; j-- {
				if in.Ops[j].Op != "derive-child" {
					continue
				}
				prev := in.Ops[j].Nonce
				switch rapid.IntRange(0, 5).Draw(t, "nonce-relation") {
				case 3:
					op.Nonce = append(model.Bytes(nil), prev...)
				case 4:
					op.Nonce = append(append(model.Bytes(nil), prev...), gen.BytesLen(t, "nonce-extension", 1, 40, 1, 16)...)
				case 5:
					if len(prev) > 1 {
						op.Nonce = append(model.Bytes(nil), prev[:rapid.IntRange(1, len(prev)-1).Draw(t, "nonce-prefix")]...)
					}
				}
				break
			}
		}
		in.Ops = append(in.Ops, op)
	}
	return in
}, c17Oracle)

func TestC17(t *testing.T) {
	c := probe.NewCtx(t, "C17")
	if c.Shard == 0 {
		endurance(c, "C17", "sizes-multiple-of-4096", c.N(48, 400))
	}
	idleStart(c, "sa-pair")
	if c.Shard == 0 {
		endurance(c, "C17", "protect-unprotect", 70000)
	}
	c17History.Run(c, t, c.N(400, 4000))
	idleFinish(c, "C17", "sa-pair")
}
