package props

import (
	"testing"

	"pgregory.net/rapid"

	"verif/gen"
	"verif/model"
	"verif/probe"
	"verif/ref"
)

// C05 — wire format agrees with an independent RFC 7296 codec in both directions.

// forward: library encoder -> strict reference parser
var c05Forward = probe.Define("C05", "forward",
	func(t *rapid.T) c03In { return c03In{Msg: gen.Message(t, gen.Opts{})} },
	func(in c03In) probe.Outcome {
		w, _, err := libEncode(in.Msg)
		if err != nil {
			return probe.Fail("%v", err)
		}
		got, err := ref.ParseMessage(w, ref.Parse{Strict: true})
		if err != nil {
			return probe.Fail("encoded message is not a well-formed RFC 7296 datagram: %v", err)
		}
		if d := model.Diff(in.Msg, got); d != "" {
			return probe.Fail("independent parser recovers different fields: %s", d)
		}
		labels := in.Msg.Labels()
		if cw, err := ref.EncodeMessage(in.Msg.Normalize(), nil); err == nil && string(cw) == string(w) {
			labels = append(labels, "bytes-equal-canonical-reference")
		}
		return probe.Outcome{NonTrivial: len(in.Msg.Payloads) > 0, Labels: labels}
	})

type c05RevIn struct {
	Msg      model.Message `json:"msg"`
	Lib      model.Bytes   `json:"liberties"`
	Critical bool          `json:"critical_on_supported"`
}

// reverse: reference encoder (with sender liberties) -> library decoder
var c05Reverse = probe.Define("C05", "reverse",
	func(t *rapid.T) c05RevIn {
		in := c05RevIn{Msg: gen.Message(t, gen.Opts{})}
		switch gen.Pick(t, "libclass", 1, 3, 2) {
		case 0:
		case 1:
			in.Lib = rapid.SliceOfN(rapid.Byte(), 1, 40).Draw(t, "lib")
		default:
			n := rapid.IntRange(1, 200).Draw(t, "libn")
			in.Lib = gen.Fill(t, "lib", n)
		}
		in.Critical = rapid.Bool().Draw(t, "critical")
		return in
	},
	func(in c05RevIn) probe.Outcome {
		e := &ref.Enc{Lib: in.Lib, CriticalOnSupported: in.Critical, NoCPRBit: gen.Exclude["cp-rbit"]}
		w, err := ref.EncodeMessage(in.Msg, e)
		if err != nil {
			return probe.Fail("HARNESS: reference encoder refused a domain message: %v", err)
		}
		got, _, err := libDecode(w)
		if err != nil {
			return probe.Fail("well-formed datagram from the independent encoder rejected: %v", err)
		}
		if d := model.Diff(in.Msg, got); d != "" {
			return probe.Fail("datagram from the independent encoder decodes to different fields: %s", d)
		}
		labels := in.Msg.Labels()
		interleaved := false
		for _, p := range in.Msg.Payloads {
			if p.SA != nil {
				for _, pr := range p.SA.Proposals {
					for i := 1; i < len(pr.Transforms); i++ {
						if pr.Transforms[i].Type < pr.Transforms[i-1].Type {
							interleaved = true
						}
					}
				}
			}
		}
		if interleaved {
			labels = append(labels, "rev:interleaved-transforms")
		}
		if e.NonZero > 0 {
			labels = append(labels, "rev:nonzero-liberties")
		}
		return probe.Outcome{NonTrivial: len(in.Msg.Payloads) > 0 && (e.NonZero > 0 || interleaved), Labels: labels}
	})

func TestC05(t *testing.T) {
	c := probe.NewCtx(t, "C05")
	runIDSweep(c, func(m model.Message) bool {
		return c05Forward.Eval(c, c03In{Msg: m}) && c05Reverse.Eval(c, c05RevIn{Msg: m})
	})
	c05Forward.Run(c, t, c.N(3000, 30000))
	c05Reverse.Run(c, t, c.N(3000, 30000))
}
