package props

import (
	"bytes"
	"fmt"
	"testing"

	"github.com/free5gc/ike/eap"
	"pgregory.net/rapid"

	"verif/bridge"
	"verif/gen"
	"verif/model"
	"verif/probe"
	"verif/ref"
)

// C14 — EAP codec round trip and RFC 3748/4187/5448 framing incl. EAP-AKA' attributes.

type c14In struct {
	EAP model.EAP `json:"eap"`
	// Sets is the sequence of SetAttr calls for an AKA' packet (any order, overwrites included);
	// the packet's attribute set is the last value per type.
	Sets []model.AkaAttr `json:"sets,omitempty"`
	// Refused: SetAttr calls with a wrong size for a fixed-size attribute, attempted after the Sets call of the given index;
	// each must be refused and must leave the packet as it was
	Refused []c14Refused `json:"refused_sets,omitempty"`
}

type c14Refused struct {
	After int   `json:"after"`
	Type  uint8 `json:"type"`
	Size  int   `json:"size"`
}

func c14Final(sets []model.AkaAttr) []model.AkaAttr {
	last := map[uint8]model.Bytes{}
	for _, s := range sets {
		last[s.Type] = s.Value
	}
	var out []model.AkaAttr
	for t := 0; t < 256; t++ {
		if v, ok := last[uint8(t)]; ok {
			out = append(out, model.AkaAttr{Type: uint8(t), Value: v})
		}
	}
	return out
}

var c14Codec = probe.Define("C14", "codec", func(t *rapid.T) c14In {
	e := gen.EAP(t, false)
	if e.Kind != model.ENone && (e.Code == 3 || e.Code == 4) {
		e.Code = 1
	}
	in := c14In{EAP: e}
	if e.Kind == model.EAka {
		sets := append([]model.AkaAttr(nil), e.Attrs...)
		// overwrites: some attributes are first set to another value
		var pre []model.AkaAttr
		for _, a := range sets {
			if rapid.IntRange(0, 3).Draw(t, "overwrite") == 3 {
				pre = append(pre, model.AkaAttr{Type: a.Type, Value: gen.AkaValue(t, a.Type)})
			}
		}
		all := append(pre, rapid.Permutation(sets).Draw(t, "order")...)
		in.Sets = all
		in.EAP.Attrs = c14Final(all)
		for i := rapid.IntRange(0, 3).Draw(t, "nrefused"); i > 0 && len(all) > 0; i-- {
			ty := rapid.SampledFrom([]uint8{model.AT_RAND, model.AT_AUTN, model.AT_MAC, model.AT_KDF, model.AT_RES}).Draw(t, "refused.type")
			var size int
			switch ty {
			case model.AT_KDF:
				size = rapid.SampledFrom([]int{0, 1, 3, 4, 16}).Draw(t, "refused.size")
			case model.AT_RES:
				size = rapid.SampledFrom([]int{0, 1, 2, 3, 17, 18, 20, 32, 255, 300}).Draw(t, "refused.size")
			default:
				size = rapid.SampledFrom([]int{0, 1, 4, 15, 17, 20, 32}).Draw(t, "refused.size")
			}
			in.Refused = append(in.Refused, c14Refused{After: rapid.IntRange(0, len(all)-1).Draw(t, "refused.after"), Type: ty, Size: size})
		}
	}
	return in
}, func(in c14In) probe.Outcome {
	e := in.EAP
	var le *eap.EAP
	if e.Kind == model.EAka {
		// build through the API in the given call order
		ak := eap.NewEapAkaPrime(eap.EapAkaSubtype(e.Sub))
		if e.Sub == 0 && e.Identifier%2 == 1 {
			ak = new(eap.EapAkaPrime) // the zero value: a packet of subtype 0 without attributes, made usable by the setter
		}
		for si, s := range in.Sets {
			v := append([]byte{}, s.Value...)
			if len(v) == 0 && e.Identifier%2 == 0 {
				v = nil // a value of no octets, as nil and as an empty slice
			}
			if err := probe.Try(func() error { return ak.SetAttr(eap.EapAkaPrimeAttrType(s.Type), v) }); err != nil {
				return probe.Fail("SetAttr(%d, %d octets) refused a legal value: %v", s.Type, len(s.Value), err)
			}
			// freshly set: read back exactly the value that was set
			got, err := ak.GetAttr(eap.EapAkaPrimeAttrType(s.Type))
			if err != nil {
				return probe.Fail("GetAttr(%d) after SetAttr: %v", s.Type, err)
			}
			if !bytes.Equal(got.GetValue(), s.Value) {
				return probe.Fail("attribute %d: value read back after SetAttr is %x (%d octets), value set was %x (%d octets)", s.Type, got.GetValue(), len(got.GetValue()), []byte(s.Value), len(s.Value))
			}
			if uint8(got.GetAttrType()) != s.Type {
				return probe.Fail("GetAttr(%d) returned an attribute of type %d", s.Type, got.GetAttrType())
			}
			// the caller's buffer is the caller's: reusing it afterwards does not change the value that was set
			for i := range v {
				v[i] = ^v[i]
			}
			if got2, err := ak.GetAttr(eap.EapAkaPrimeAttrType(s.Type)); err != nil || !bytes.Equal(got2.GetValue(), s.Value) {
				return probe.Fail("attribute %d: the value read back changed when the caller reused the buffer it had passed to SetAttr (the packet keeps a reference to the caller's memory)", s.Type)
			}
			// encoding the packet while it is being put together must leave nothing behind
			var before []byte
			if err := probe.Try(func() error { var e error; before, e = ak.Marshal(); return e }); err != nil {
				return probe.Fail("intermediate Marshal: %v", err)
			}
			// refused SetAttr calls must change nothing
			for _, r := range in.Refused {
				if r.After != si {
					continue
				}
				bad := bytes.Repeat([]byte{0xee}, r.Size)
				err := probe.Try(func() error { return ak.SetAttr(eap.EapAkaPrimeAttrType(r.Type), bad) })
				if probe.IsPanic(err) {
					return probe.Fail("SetAttr(%d, %d octets) panics: %v", r.Type, r.Size, err)
				}
				if err == nil {
					return probe.Fail("SetAttr(%d) accepts the wrong size %d", r.Type, r.Size)
				}
				var after []byte
				if err := probe.Try(func() error { var e error; after, e = ak.Marshal(); return e }); err != nil || !bytes.Equal(before, after) {
					return probe.Fail("a refused SetAttr(%d, %d octets) changed the packet: encoding before %x, after %x (%v)", r.Type, r.Size, before, after, err)
				}
			}
		}
		// A value is shortened and restored using what the getter handed out: the argument of the setter lies in the packet's own
		// storage (v = GetAttr(t).GetValue(); SetAttr(t, v[:n])) - the packet then holds those n octets.
		for _, a := range e.Attrs {
			if (a.Type != model.AT_RES || len(a.Value) < 5) && (a.Type != model.AT_KDF_INPUT || len(a.Value) < 2) {
				continue
			}
			n := len(a.Value) - 1
			if a.Type == model.AT_RES && n < 4 {
				continue
			}
			got, err := ak.GetAttr(eap.EapAkaPrimeAttrType(a.Type))
			if err != nil || len(got.GetValue()) != len(a.Value) {
				return probe.Fail("GetAttr(%d): %v", a.Type, err)
			}
			if err := probe.Try(func() error { return ak.SetAttr(eap.EapAkaPrimeAttrType(a.Type), got.GetValue()[:n]) }); err != nil {
				return probe.Fail("SetAttr(%d) with the first %d octets of the value the getter handed out: %v", a.Type, n, err)
			}
			if g2, err := ak.GetAttr(eap.EapAkaPrimeAttrType(a.Type)); err != nil || !bytes.Equal(g2.GetValue(), a.Value[:n]) {
				return probe.Fail("attribute %d set to the first %d octets of its own value (a slice of what the getter handed out) reads back as %x, want %x", a.Type, n, g2.GetValue(), []byte(a.Value[:n]))
			}
			if err := probe.Try(func() error { return ak.SetAttr(eap.EapAkaPrimeAttrType(a.Type), append([]byte(nil), a.Value...)) }); err != nil {
				return probe.Fail("SetAttr(%d): %v", a.Type, err)
			}
		}
		le = &eap.EAP{Code: eap.EapCode(e.Code), Identifier: e.Identifier, EapTypeData: ak}
	} else {
		var err error
		if le, err = bridge.ToLibEAP(e); err != nil {
			return probe.Fail("building the EAP packet: %v", err)
		}
	}
	// the packet is logged (as a whole and part by part), and attributes it does not carry are asked for (errors, nothing
	// else): looking at a packet does not change it
	if err := probe.Try(func() error {
		probe.PrintAll(le)
		if ak, ok := le.EapTypeData.(*eap.EapAkaPrime); ok && ak != nil {
			have := map[uint8]bool{}
			for _, a := range e.Attrs {
				have[a.Type] = true
			}
			for _, ty := range []uint8{model.AT_RAND, model.AT_AUTN, model.AT_RES, model.AT_MAC, model.AT_KDF, model.AT_KDF_INPUT, model.AT_CHECKCODE, 200} {
				if _, gerr := ak.GetAttr(eap.EapAkaPrimeAttrType(ty)); gerr == nil && !have[ty] {
					return fmt.Errorf("GetAttr(%d) succeeds although the packet does not carry that attribute", ty)
				}
			}
		}
		return nil
	}); err != nil {
		return probe.Fail("looking at the packet: %v", err)
	}
	var w []byte
	if err := probe.Try(func() error { var x error; w, x = le.Marshal(); return x }); err != nil {
		return probe.Fail("Marshal: %v", err)
	}
	for i := 0; i < 8; i++ { // Go randomises map iteration per range statement
		var w2 []byte
		if err := probe.Try(func() error { var x error; w2, x = le.Marshal(); return x }); err != nil || !bytes.Equal(w, w2) {
			return probe.Fail("encoding the same unmodified packet again gives different bytes (%v)", err)
		}
	}
	// another packet is encoded in between: the octets Marshal returned earlier are the caller's and stay what they were
	{
		held := append([]byte(nil), w...)
		otherPkt := &eap.EAP{Code: 2, Identifier: e.Identifier + 1, EapTypeData: &eap.EapIdentity{IdentityData: []byte("somebody-else@example.org")}}
		if _, err := otherPkt.Marshal(); err != nil {
			return probe.Fail("HARNESS: %v", err)
		}
		if !bytes.Equal(w, held) {
			return probe.Fail("the octets Marshal returned for one packet changed when another packet was marshalled")
		}
	}
	pe, err := ref.ParseEAP(w, true)
	if err != nil {
		return probe.Fail("encoded packet is not well-formed: %v\n w=%x", err, w)
	}
	if !pe.Equal(e) {
		return probe.Fail("independent parser recovers a different packet: %s != %s", model.Clip(model.JSON(pe.Normalize())), model.Clip(model.JSON(e.Normalize())))
	}
	if len(w) != model.EAPSize(e) {
		return probe.Fail("encoded size %d, expected %d", len(w), model.EAPSize(e))
	}
	back := new(eap.EAP)
	rx := probe.Exact(w) // the receive buffer; overwritten below
	if err := probe.Try(func() error { return back.Unmarshal(rx) }); err != nil {
		return probe.Fail("Unmarshal of the encoding: %v", err)
	}
	got, err := bridge.FromLibEAP(back) // reads every attribute through GetAttr(t).GetValue()
	if err != nil {
		return probe.Fail("HARNESS: %v", err)
	}
	if !got.Equal(e) {
		return probe.Fail("decode(encode(e)) != e: %s != %s", model.Clip(model.JSON(got.Normalize())), model.Clip(model.JSON(e.Normalize())))
	}
	// a receive loop may decode packet after packet into one EAP value: the second decoding yields the second packet, nothing
	// of the first is left in it
	if err := probe.Try(func() error { return back.Unmarshal(rx) }); err != nil {
		return probe.Fail("Unmarshal of the encoding into an EAP value that has decoded a packet before: %v", err)
	}
	if again, err := bridge.FromLibEAP(back); err != nil || !again.Equal(e) {
		return probe.Fail("decoding a packet into an EAP value that has decoded a packet before gives a different result: %s != %s (%v)",
			model.Clip(model.JSON(again.Normalize())), model.Clip(model.JSON(e.Normalize())), err)
	}
	var w3 []byte
	if err := probe.Try(func() error { var x error; w3, x = back.Marshal(); return x }); err != nil || !bytes.Equal(w, w3) {
		return probe.Fail("re-encoding the decoded packet gives different bytes (%v)", err)
	}
	// the decoded packet is still the same unmodified packet after the receive buffer has been reused
	for i := range rx {
		rx[i] = ^rx[i]
	}
	var w4 []byte
	if err := probe.Try(func() error { var x error; w4, x = back.Marshal(); return x }); err != nil || !bytes.Equal(w, w4) {
		return probe.Fail("encoding the unmodified decoded packet again, after the receive buffer was overwritten, gives different bytes (%v)", err)
	}
	if got2, err := bridge.FromLibEAP(back); err != nil || !got2.Equal(e) {
		return probe.Fail("values read back from the decoded packet changed when the receive buffer was overwritten")
	}
	// a second, independently decoded copy of the same packet is a separate message: setting an attribute on one of them
	// (a receiver building its answer in place) must not show up in the other
	if e.Kind == model.EAka {
		other := new(eap.EAP)
		if err := probe.Try(func() error { return other.Unmarshal(probe.Exact(w)) }); err != nil {
			return probe.Fail("second Unmarshal of the encoding: %v", err)
		}
		ak := back.EapTypeData.(*eap.EapAkaPrime)
		for _, ty := range []eap.EapAkaPrimeAttrType{eap.AT_KDF, eap.AT_RES} {
			if err := probe.Try(func() error { return ak.SetAttr(ty, []byte{0xa5, 0x5a, 0xa5, 0x5a}[:2+2*int(ty&1)]) }); err != nil {
				return probe.Fail("SetAttr(%d) on a decoded packet: %v", ty, err)
			}
		}
		var w5 []byte
		if err := probe.Try(func() error { var x error; w5, x = other.Marshal(); return x }); err != nil || !bytes.Equal(w, w5) {
			return probe.Fail("setting attributes on one decoded packet changed another, separately decoded packet: its encoding is now %x, was %x (%v)", w5, w, err)
		}
		if got3, err := bridge.FromLibEAP(other); err != nil || !got3.Equal(e) {
			return probe.Fail("setting attributes on one decoded packet changed the values read from another, separately decoded packet")
		}
	}
	labels := []string{"eap:" + e.Kind}
	nontrivial := false
	if e.Kind == model.EAka {
		for _, a := range e.Attrs {
			labels = append(labels, fmt.Sprintf("attr:%d", a.Type))
			if (a.Type == model.AT_RES || a.Type == model.AT_KDF_INPUT) && len(a.Value)%4 != 0 {
				labels = append(labels, "aka:padded")
				nontrivial = true
			}
			if a.Type == model.AT_CHECKCODE {
				nontrivial = true
			}
		}
		if len(e.Attrs) >= 2 {
			nontrivial = true
		}
		if len(in.Sets) > len(e.Attrs) {
			labels = append(labels, "aka:overwrite")
		}
	}
	if e.Kind == model.EExpanded && len(e.Data) > 0 {
		nontrivial = true
	}
	return probe.Outcome{NonTrivial: nontrivial, Labels: labels}
})

type c14SetIn struct {
	Type uint8 `json:"type"`
	Size int   `json:"size"`
}

// the setter refuses wrong sizes for the fixed-size attributes (and only those)
var c14Setter = probe.Define("C14", "setter", func(t *rapid.T) c14SetIn { panic("enumerated") }, func(in c14SetIn) probe.Outcome {
	ak := eap.NewEapAkaPrime(1)
	v := bytes.Repeat([]byte{0xab}, in.Size)
	err := probe.Try(func() error { return ak.SetAttr(eap.EapAkaPrimeAttrType(in.Type), v) })
	if probe.IsPanic(err) {
		return probe.Fail("SetAttr(%d, %d octets) panics: %v", in.Type, in.Size, err)
	}
	allowed := false
	switch in.Type {
	case model.AT_RAND, model.AT_AUTN, model.AT_MAC:
		allowed = in.Size == 16
	case model.AT_KDF:
		allowed = in.Size == 2
	case model.AT_RES:
		allowed = in.Size >= 4 && in.Size <= 16
	}
	if allowed && err != nil {
		return probe.Fail("SetAttr(%d) refuses the legal size %d: %v", in.Type, in.Size, err)
	}
	if !allowed && err == nil {
		return probe.Fail("SetAttr(%d) accepts the wrong size %d", in.Type, in.Size)
	}
	if !allowed {
		if _, gerr := ak.GetAttr(eap.EapAkaPrimeAttrType(in.Type)); gerr == nil {
			return probe.Fail("SetAttr(%d, %d octets) failed but the attribute was stored", in.Type, in.Size)
		}
	}
	return probe.OK(true)
})

func TestC14(t *testing.T) {
	c := probe.NewCtx(t, "C14")
	idleStart(c, "eap-packet")
	if c.Shard == 0 {
		endurance(c, "C14", "aka-setattr-gaps", 140000)
		endurance(c, "C14", "eap-unmarshal", 1100000)
	}
	if c.Shard == 0 {
		for _, ty := range []uint8{model.AT_RAND, model.AT_AUTN, model.AT_MAC, model.AT_KDF, model.AT_RES} {
			for n := 0; n <= 300; n++ {
				c14Setter.Eval(c, c14SetIn{Type: ty, Size: n})
			}
		}
		if c.Failures() == 0 {
			c.Exhaustive("setter")
		}
	}
	c14Codec.Run(c, t, c.N(5000, 50000))
	idleFinish(c, "C14", "eap-packet")
}
