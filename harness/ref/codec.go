// Package ref holds reference implementations written from the RFC texts, independent of the
// library under test (it imports nothing from /repo).
//
// codec.go: RFC 7296 section 3 encoder (with a "liberty" stream for everything a sender is free
// to choose: reserved bits/octets, critical flags on understood payloads) and a strict parser.
package ref

import (
	"errors"
	"fmt"

	"verif/model"
)

// Field describes one field the encoder wrote; used by structure-aware mutators.
type Field = model.Field

// Field kinds
const (
	FHdrNext     = "hdr.next"
	FHdrLen      = "hdr.len"
	FHdrOther    = "hdr.other"
	FPayNext     = "pay.next"
	FPayFlags    = "pay.flags"
	FPayLen      = "pay.len"
	FPropLast    = "prop.last"
	FPropRes     = "prop.res"
	FPropLen     = "prop.len"
	FPropSPISize = "prop.spisize"
	FPropNTrans  = "prop.ntrans"
	FTrLast      = "tr.last"
	FTrRes       = "tr.res"
	FTrLen       = "tr.len"
	FTrType      = "tr.type"
	FAttrType    = "attr.type"
	FAttrLen     = "attr.len"
	FRes         = "res" // reserved octets in KE/ID/AUTH/TS/CP
	FNotSPISize  = "notify.spisize"
	FDelSPISize  = "del.spisize"
	FDelCount    = "del.count"
	FTSCount     = "ts.count"
	FTSType      = "ts.type"
	FTSLen       = "ts.len"
	FCPAttrType  = "cp.attrtype"
	FCPAttrLen   = "cp.attrlen"
	FEAPLen      = "eap.len"
	FEAPType     = "eap.type"
	FAkaAttrType = "aka.attrtype"
	FAkaAttrLen  = "aka.attrlen"
	FAkaBits     = "aka.bits"
	FAkaRes      = "aka.res"
	FData        = "data"
)

// Enc is the encoder state / options.
type Enc struct {
	// Lib is the liberty stream: each reserved site consumes octets from it (zero when exhausted).
	Lib []byte
	// CriticalOnSupported lets the liberty stream also set the critical bit of supported payloads.
	CriticalOnSupported bool
	// AkaOrder, when non-nil, is a permutation applied to the attribute list of every AKA' packet.
	AkaOrder []int
	// AkaGeneric: AKA' attributes of types outside the model are encoded as type | length | value instead of being refused
	AkaGeneric bool
	// NoCPRBit keeps the reserved bit of configuration attributes clear.
	NoCPRBit bool
	// EAPLib: separate liberty stream for EAP-level reserved fields (AKA' reserved octets).
	EAPLib []byte

	b       []byte
	libPos  int
	eapPos  int
	NonZero int // number of reserved sites that received a non-zero value
	Fields  []Field
	// PayloadOffsets[i] = offset of the generic header of top-level payload i (message encoding)
	PayloadOffsets []int
}

func (e *Enc) mark(off, w int, kind string) {
	e.Fields = append(e.Fields, Field{Off: off, Width: w, Kind: kind})
}

func (e *Enc) u8(v uint8, kind string) {
	e.mark(len(e.b), 1, kind)
	e.b = append(e.b, v)
}

func (e *Enc) u16(v uint16, kind string) {
	e.mark(len(e.b), 2, kind)
	e.b = append(e.b, byte(v>>8), byte(v))
}

func (e *Enc) u32(v uint32, kind string) {
	e.mark(len(e.b), 4, kind)
	e.b = append(e.b, byte(v>>24), byte(v>>16), byte(v>>8), byte(v))
}

func (e *Enc) u64(v uint64, kind string) {
	e.u32(uint32(v>>32), kind)
	e.u32(uint32(v), kind)
}

func (e *Enc) raw(p []byte) {
	if len(p) > 0 {
		e.mark(len(e.b), len(p), FData)
		e.b = append(e.b, p...)
	}
}

func (e *Enc) patch16(off int, v int) error {
	if v < 0 || v > 0xffff {
		return fmt.Errorf("ref: length %d does not fit 16 bits", v)
	}
	e.b[off] = byte(v >> 8)
	e.b[off+1] = byte(v)
	return nil
}

func (e *Enc) lib() byte {
	if e.libPos < len(e.Lib) {
		v := e.Lib[e.libPos]
		e.libPos++
		return v
	}
	return 0
}

func (e *Enc) eaplib() byte {
	if e.eapPos < len(e.EAPLib) {
		v := e.EAPLib[e.eapPos]
		e.eapPos++
		return v
	}
	return 0
}

// res writes n reserved octets taken from the liberty stream; mask applies to the first octet.
func (e *Enc) res(n int, kind string) {
	for i := 0; i < n; i++ {
		v := e.lib()
		if v != 0 {
			e.NonZero++
		}
		e.u8(v, kind)
	}
}

// EncodeMessage produces the datagram for m.
func EncodeMessage(m model.Message, e *Enc) ([]byte, error) {
	if e == nil {
		e = &Enc{}
	}
	e.b = e.b[:0]
	h := m.Header
	if h.Major > 15 || h.Minor > 15 {
		return nil, errors.New("ref: version nibble out of range")
	}
	e.u64(h.ISPI, FHdrOther)
	e.u64(h.RSPI, FHdrOther)
	first := uint8(0)
	if len(m.Payloads) > 0 {
		first = PayloadType(m.Payloads[0])
	}
	e.u8(first, FHdrNext)
	e.u8(h.Major<<4|h.Minor, FHdrOther)
	e.u8(h.Exchange, FHdrOther)
	e.u8(h.Flags, FHdrOther)
	e.u32(h.MsgID, FHdrOther)
	lenOff := len(e.b)
	e.u32(0, FHdrLen)
	if err := e.chain(m.Payloads, 0, true); err != nil {
		return nil, err
	}
	n := len(e.b)
	e.b[lenOff], e.b[lenOff+1], e.b[lenOff+2], e.b[lenOff+3] = byte(n>>24), byte(n>>16), byte(n>>8), byte(n)
	return append([]byte(nil), e.b...), nil
}

// EncodeChain encodes a payload list (as found inside an SK payload); returns the type of the
// first payload and the octets. lastNext is the next-payload value of the final payload (0).
func EncodeChain(ps []model.Payload, e *Enc) (uint8, []byte, error) {
	if e == nil {
		e = &Enc{}
	}
	e.b = e.b[:0]
	first := uint8(0)
	if len(ps) > 0 {
		first = PayloadType(ps[0])
	}
	if err := e.chain(ps, 0, true); err != nil {
		return 0, nil, err
	}
	return first, append([]byte(nil), e.b...), nil
}

func PayloadType(p model.Payload) uint8 {
	if p.Raw != nil {
		return p.Raw.Type
	}
	return model.TypeCode[p.Kind]
}

func (e *Enc) chain(ps []model.Payload, lastNext uint8, top bool) error {
	for i, p := range ps {
		next := lastNext
		if i+1 < len(ps) {
			next = PayloadType(ps[i+1])
		}
		start := len(e.b)
		if top {
			e.PayloadOffsets = append(e.PayloadOffsets, start)
		}
		e.u8(next, FPayNext)
		// critical bit + 7 reserved bits
		var fl byte
		if p.Raw != nil {
			fl = e.lib() & 0x7f
			if p.Raw.Critical {
				fl |= 0x80
			}
		} else {
			fl = e.lib()
			if !e.CriticalOnSupported {
				fl &= 0x7f
			}
		}
		if fl != 0 {
			e.NonZero++
		}
		e.u8(fl, FPayFlags)
		lenOff := len(e.b)
		e.u16(0, FPayLen)
		if err := e.body(p); err != nil {
			return err
		}
		if err := e.patch16(lenOff, len(e.b)-start); err != nil {
			return fmt.Errorf("payload %d (%s): %w", i, p.Kind, err)
		}
	}
	return nil
}

// EncodeBody encodes the body (without generic header) of one payload.
func EncodeBody(p model.Payload, e *Enc) ([]byte, error) {
	if e == nil {
		e = &Enc{}
	}
	e.b = e.b[:0]
	if err := e.body(p); err != nil {
		return nil, err
	}
	return append([]byte(nil), e.b...), nil
}

func (e *Enc) body(p model.Payload) error {
	switch {
	case p.Raw != nil:
		e.raw(p.Raw.Body)
	case p.SA != nil:
		return e.sa(p.SA)
	case p.KE != nil:
		e.u16(p.KE.Group, FData)
		e.res(2, FRes)
		e.raw(p.KE.Data)
	case p.ID != nil:
		e.u8(p.ID.Type, FData)
		e.res(3, FRes)
		e.raw(p.ID.Data)
	case p.Cert != nil:
		e.u8(p.Cert.Encoding, FData)
		e.raw(p.Cert.Data)
	case p.Auth != nil:
		e.u8(p.Auth.Method, FData)
		e.res(3, FRes)
		e.raw(p.Auth.Data)
	case p.Notify != nil:
		n := p.Notify
		if len(n.SPI) > 255 {
			return errors.New("ref: notify SPI too long")
		}
		e.u8(n.Protocol, FData)
		e.u8(uint8(len(n.SPI)), FNotSPISize)
		e.u16(n.Type, FData)
		e.raw(n.SPI)
		e.raw(n.Data)
	case p.Delete != nil:
		d := p.Delete
		e.u8(d.Protocol, FData)
		e.u8(d.SPISize, FDelSPISize)
		e.u16(d.Count, FDelCount)
		for _, s := range d.SPIs {
			// the model holds 32-bit SPIs: only SPI size 4 can carry them
			if d.SPISize != 4 {
				return errors.New("ref: delete with SPIs needs SPI size 4")
			}
			e.u32(s, FData)
		}
		if int(d.Count) != len(d.SPIs) {
			return errors.New("ref: delete count mismatch")
		}
	case p.TS != nil:
		if len(p.TS.Selectors) < 1 || len(p.TS.Selectors) > 255 {
			return errors.New("ref: TS needs 1..255 selectors")
		}
		e.u8(uint8(len(p.TS.Selectors)), FTSCount)
		e.res(3, FRes)
		for _, s := range p.TS.Selectors {
			al := 0
			switch s.Type {
			case 7:
				al = 4
			case 8:
				al = 16
			default:
				return errors.New("ref: selector type")
			}
			if len(s.StartAddr) != al || len(s.EndAddr) != al {
				return errors.New("ref: selector address length")
			}
			e.u8(s.Type, FTSType)
			e.u8(s.Protocol, FData)
			e.u16(uint16(8+2*al), FTSLen)
			e.u16(s.StartPort, FData)
			e.u16(s.EndPort, FData)
			e.raw(s.StartAddr)
			e.raw(s.EndAddr)
		}
	case p.CP != nil:
		e.u8(p.CP.Type, FData)
		e.res(3, FRes)
		for _, a := range p.CP.Attrs {
			if a.Type >= 0x8000 {
				return errors.New("ref: CP attribute type needs 15 bits")
			}
			if len(a.Value) > 0xffff {
				return errors.New("ref: CP attribute too long")
			}
			r := uint16(e.lib()&1) << 15
			if e.NoCPRBit {
				r = 0
			}
			if r != 0 {
				e.NonZero++
			}
			e.u16(r|a.Type, FCPAttrType)
			e.u16(uint16(len(a.Value)), FCPAttrLen)
			e.raw(a.Value)
		}
	case p.EAP != nil:
		return e.eap(*p.EAP)
	default: // Nonce, Vendor
		e.raw(p.Data)
	}
	return nil
}

func (e *Enc) sa(sa *model.SA) error {
	for i, pr := range sa.Proposals {
		start := len(e.b)
		last := uint8(2)
		if i+1 == len(sa.Proposals) {
			last = 0
		}
		e.u8(last, FPropLast)
		e.res(1, FPropRes)
		lenOff := len(e.b)
		e.u16(0, FPropLen)
		e.u8(pr.Number, FData)
		e.u8(pr.Protocol, FData)
		if len(pr.SPI) > 255 {
			return errors.New("ref: proposal SPI too long")
		}
		if len(pr.Transforms) > 255 {
			return errors.New("ref: too many transforms")
		}
		e.u8(uint8(len(pr.SPI)), FPropSPISize)
		e.u8(uint8(len(pr.Transforms)), FPropNTrans)
		e.raw(pr.SPI)
		for j, tr := range pr.Transforms {
			ts := len(e.b)
			tl := uint8(3)
			if j+1 == len(pr.Transforms) {
				tl = 0
			}
			e.u8(tl, FTrLast)
			e.res(1, FTrRes)
			tlenOff := len(e.b)
			e.u16(0, FTrLen)
			e.u8(tr.Type, FTrType)
			e.res(1, FTrRes)
			e.u16(tr.ID, FData)
			if a := tr.Attr; a != nil {
				if a.Type >= 0x8000 {
					return errors.New("ref: attribute type needs 15 bits")
				}
				if a.TV {
					e.u16(0x8000|a.Type, FAttrType)
					e.u16(a.Value, FData)
				} else {
					if len(a.Var) > 0xffff {
						return errors.New("ref: attribute value too long")
					}
					e.u16(a.Type, FAttrType)
					e.u16(uint16(len(a.Var)), FAttrLen)
					e.raw(a.Var)
				}
			}
			if err := e.patch16(tlenOff, len(e.b)-ts); err != nil {
				return err
			}
		}
		if err := e.patch16(lenOff, len(e.b)-start); err != nil {
			return err
		}
	}
	return nil
}

// ---------------------------------------------------------------------------------------------
// Parser

type rd struct {
	b []byte
	p int
}

var errShort = errors.New("ref: truncated")

func (r *rd) left() int { return len(r.b) - r.p }

func (r *rd) u8() (uint8, error) {
	if r.left() < 1 {
		return 0, errShort
	}
	v := r.b[r.p]
	r.p++
	return v, nil
}

func (r *rd) u16() (uint16, error) {
	if r.left() < 2 {
		return 0, errShort
	}
	v := uint16(r.b[r.p])<<8 | uint16(r.b[r.p+1])
	r.p += 2
	return v, nil
}

func (r *rd) u32() (uint32, error) {
	if r.left() < 4 {
		return 0, errShort
	}
	v := uint32(r.b[r.p])<<24 | uint32(r.b[r.p+1])<<16 | uint32(r.b[r.p+2])<<8 | uint32(r.b[r.p+3])
	r.p += 4
	return v, nil
}

func (r *rd) take(n int) ([]byte, error) {
	if n < 0 || r.left() < n {
		return nil, errShort
	}
	v := r.b[r.p : r.p+n]
	r.p += n
	return v, nil
}

func (r *rd) rest() []byte {
	v := r.b[r.p:]
	r.p = len(r.b)
	return v
}

// Parser options.
type Parse struct {
	// Strict: reserved fields and critical flags must be zero, last-substructure markers right,
	// only supported payload types, Delete SPI size in {0,4}, AKA' attributes each once.
	Strict bool
	// SkipUnknown: with Strict=false, unknown non-critical payloads are skipped (else returned as Raw).
	SkipUnknown bool
}

func (o Parse) resv(name string, vals ...byte) error {
	if !o.Strict {
		return nil
	}
	for _, v := range vals {
		if v != 0 {
			return fmt.Errorf("ref: reserved field %s is non-zero", name)
		}
	}
	return nil
}

// ParseMessage parses a whole datagram; the header length must equal len(b).
func ParseMessage(b []byte, o Parse) (model.Message, error) {
	var m model.Message
	if len(b) < 28 {
		return m, errors.New("ref: datagram shorter than an IKE header")
	}
	r := &rd{b: b}
	hi, _ := r.u32()
	lo, _ := r.u32()
	m.Header.ISPI = uint64(hi)<<32 | uint64(lo)
	hi, _ = r.u32()
	lo, _ = r.u32()
	m.Header.RSPI = uint64(hi)<<32 | uint64(lo)
	next, _ := r.u8()
	ver, _ := r.u8()
	m.Header.Major, m.Header.Minor = ver>>4, ver&15
	m.Header.Exchange, _ = r.u8()
	m.Header.Flags, _ = r.u8()
	m.Header.MsgID, _ = r.u32()
	l, _ := r.u32()
	if int64(l) != int64(len(b)) {
		return m, fmt.Errorf("ref: header length %d != datagram size %d", l, len(b))
	}
	ps, err := ParseChain(next, b[28:], o)
	if err != nil {
		return m, err
	}
	m.Payloads = ps
	return m, nil
}

// Split cuts a payload chain into (type, flags, body) triples without interpreting bodies.
type RawPayload struct {
	Type  uint8
	Flags uint8
	Body  []byte
}

func Split(first uint8, b []byte) ([]RawPayload, error) {
	var out []RawPayload
	next := first
	r := &rd{b: b}
	for r.left() > 0 {
		if next == 0 {
			return nil, errors.New("ref: octets after the payload marked last")
		}
		start := r.p
		nn, err := r.u8()
		if err != nil {
			return nil, err
		}
		fl, err := r.u8()
		if err != nil {
			return nil, err
		}
		l, err := r.u16()
		if err != nil {
			return nil, err
		}
		if l < 4 {
			return nil, errors.New("ref: payload length < 4")
		}
		body, err := r.take(int(l) - 4)
		if err != nil {
			return nil, err
		}
		_ = start
		out = append(out, RawPayload{Type: next, Flags: fl, Body: body})
		next = nn
	}
	if next != 0 {
		return nil, fmt.Errorf("ref: chain ends but next payload = %d", next)
	}
	return out, nil
}

func ParseChain(first uint8, b []byte, o Parse) ([]model.Payload, error) {
	raws, err := Split(first, b)
	if err != nil {
		return nil, err
	}
	var out []model.Payload
	for i, rp := range raws {
		kind, ok := model.KindOfCode[rp.Type]
		if !ok {
			if o.Strict {
				return nil, fmt.Errorf("ref: payload %d has unsupported type %d", i, rp.Type)
			}
			if rp.Flags&0x80 != 0 {
				return nil, fmt.Errorf("ref: critical unsupported payload type %d", rp.Type)
			}
			if o.SkipUnknown {
				continue
			}
			out = append(out, model.Payload{Kind: model.KRaw, Raw: &model.Raw{Type: rp.Type, Critical: false, Body: append(model.Bytes(nil), rp.Body...)}})
			continue
		}
		if err := o.resv("generic header flags", rp.Flags); err != nil {
			return nil, err
		}
		p, err := ParseBody(kind, rp.Body, o)
		if err != nil {
			return nil, fmt.Errorf("payload %d (%s): %w", i, kind, err)
		}
		out = append(out, p)
	}
	return out, nil
}

func cp(b []byte) model.Bytes {
	if len(b) == 0 {
		return nil
	}
	return append(model.Bytes(nil), b...)
}

// ParseBody parses the body of one supported payload.
func ParseBody(kind string, b []byte, o Parse) (model.Payload, error) {
	p := model.Payload{Kind: kind}
	r := &rd{b: b}
	switch kind {
	case model.KSA:
		sa, err := parseSA(b, o)
		if err != nil {
			return p, err
		}
		p.SA = sa
	case model.KKE:
		g, err := r.u16()
		if err != nil {
			return p, err
		}
		rs, err := r.take(2)
		if err != nil {
			return p, err
		}
		if err := o.resv("KE", rs...); err != nil {
			return p, err
		}
		p.KE = &model.KE{Group: g, Data: cp(r.rest())}
	case model.KIDi, model.KIDr:
		t, err := r.u8()
		if err != nil {
			return p, err
		}
		rs, err := r.take(3)
		if err != nil {
			return p, err
		}
		if err := o.resv("ID", rs...); err != nil {
			return p, err
		}
		p.ID = &model.ID{Type: t, Data: cp(r.rest())}
	case model.KCERT, model.KCERTREQ:
		t, err := r.u8()
		if err != nil {
			return p, err
		}
		p.Cert = &model.Cert{Encoding: t, Data: cp(r.rest())}
	case model.KAUTH:
		t, err := r.u8()
		if err != nil {
			return p, err
		}
		rs, err := r.take(3)
		if err != nil {
			return p, err
		}
		if err := o.resv("AUTH", rs...); err != nil {
			return p, err
		}
		p.Auth = &model.Auth{Method: t, Data: cp(r.rest())}
	case model.KNonce, model.KVendor:
		p.Data = cp(b)
	case model.KNotify:
		proto, err := r.u8()
		if err != nil {
			return p, err
		}
		ss, err := r.u8()
		if err != nil {
			return p, err
		}
		t, err := r.u16()
		if err != nil {
			return p, err
		}
		spi, err := r.take(int(ss))
		if err != nil {
			return p, err
		}
		p.Notify = &model.Notify{Protocol: proto, Type: t, SPI: cp(spi), Data: cp(r.rest())}
	case model.KDelete:
		proto, err := r.u8()
		if err != nil {
			return p, err
		}
		ss, err := r.u8()
		if err != nil {
			return p, err
		}
		n, err := r.u16()
		if err != nil {
			return p, err
		}
		d := &model.Delete{Protocol: proto, SPISize: ss, Count: n}
		if r.left() != int(ss)*int(n) {
			return p, fmt.Errorf("ref: delete SPI area %d != size %d x count %d", r.left(), ss, n)
		}
		switch {
		case int(ss)*int(n) == 0:
			if o.Strict && !(ss == 0 && n == 0) && !(ss == 4 && n == 0) {
				return p, errors.New("ref: delete outside the model (size/count)")
			}
		case ss == 4:
			for i := 0; i < int(n); i++ {
				v, _ := r.u32()
				d.SPIs = append(d.SPIs, v)
			}
		default:
			return p, errors.New("ref: delete SPI size outside the model")
		}
		p.Delete = d
	case model.KTSi, model.KTSr:
		n, err := r.u8()
		if err != nil {
			return p, err
		}
		rs, err := r.take(3)
		if err != nil {
			return p, err
		}
		if err := o.resv("TS", rs...); err != nil {
			return p, err
		}
		ts := &model.TS{}
		for i := 0; i < int(n); i++ {
			var s model.Selector
			if s.Type, err = r.u8(); err != nil {
				return p, err
			}
			if s.Protocol, err = r.u8(); err != nil {
				return p, err
			}
			l, err := r.u16()
			if err != nil {
				return p, err
			}
			al := 0
			switch s.Type {
			case 7:
				al = 4
			case 8:
				al = 16
			default:
				return p, fmt.Errorf("ref: selector type %d", s.Type)
			}
			if int(l) != 8+2*al {
				return p, fmt.Errorf("ref: selector length %d", l)
			}
			if s.StartPort, err = r.u16(); err != nil {
				return p, err
			}
			if s.EndPort, err = r.u16(); err != nil {
				return p, err
			}
			a, err := r.take(al)
			if err != nil {
				return p, err
			}
			s.StartAddr = cp(a)
			if a, err = r.take(al); err != nil {
				return p, err
			}
			s.EndAddr = cp(a)
			ts.Selectors = append(ts.Selectors, s)
		}
		if r.left() != 0 {
			return p, errors.New("ref: octets after the last traffic selector")
		}
		if n == 0 {
			return p, errors.New("ref: TS without selectors")
		}
		p.TS = ts
	case model.KCP:
		t, err := r.u8()
		if err != nil {
			return p, err
		}
		rs, err := r.take(3)
		if err != nil {
			return p, err
		}
		if err := o.resv("CP", rs...); err != nil {
			return p, err
		}
		c := &model.CP{Type: t}
		for r.left() > 0 {
			at, err := r.u16()
			if err != nil {
				return p, err
			}
			if at&0x8000 != 0 {
				if err := o.resv("CP attribute R bit", 1); err != nil {
					return p, err
				}
			}
			l, err := r.u16()
			if err != nil {
				return p, err
			}
			v, err := r.take(int(l))
			if err != nil {
				return p, err
			}
			c.Attrs = append(c.Attrs, model.CPAttr{Type: at & 0x7fff, Value: cp(v)})
		}
		p.CP = c
	case model.KEAP:
		e, err := ParseEAP(b, o.Strict)
		if err != nil {
			return p, err
		}
		p.EAP = &e
	default:
		return p, fmt.Errorf("ref: unknown kind %q", kind)
	}
	return p, nil
}

func parseSA(b []byte, o Parse) (*model.SA, error) {
	sa := &model.SA{}
	r := &rd{b: b}
	lastSeen := false
	for r.left() > 0 {
		if lastSeen && o.Strict {
			return nil, errors.New("ref: proposal after the one marked last")
		}
		start := r.p
		last, err := r.u8()
		if err != nil {
			return nil, err
		}
		rs, err := r.u8()
		if err != nil {
			return nil, err
		}
		if err := o.resv("proposal", rs); err != nil {
			return nil, err
		}
		l, err := r.u16()
		if err != nil {
			return nil, err
		}
		if l < 8 || start+int(l) > len(b) {
			return nil, fmt.Errorf("ref: proposal length %d", l)
		}
		pr := model.Proposal{}
		pr.Number, _ = r.u8()
		pr.Protocol, _ = r.u8()
		ss, _ := r.u8()
		nt, err := r.u8()
		if err != nil {
			return nil, err
		}
		end := start + int(l)
		if r.p+int(ss) > end {
			return nil, errors.New("ref: proposal SPI exceeds proposal")
		}
		spi, _ := r.take(int(ss))
		pr.SPI = cp(spi)
		tr := &rd{b: b[:end], p: r.p}
		tlast := false
		for tr.left() > 0 {
			if tlast && o.Strict {
				return nil, errors.New("ref: transform after the one marked last")
			}
			ts := tr.p
			tl, err := tr.u8()
			if err != nil {
				return nil, err
			}
			r1, err := tr.u8()
			if err != nil {
				return nil, err
			}
			tlen, err := tr.u16()
			if err != nil {
				return nil, err
			}
			if tlen < 8 || ts+int(tlen) > end {
				return nil, fmt.Errorf("ref: transform length %d", tlen)
			}
			var t model.Transform
			t.Type, _ = tr.u8()
			r2, _ := tr.u8()
			t.ID, err = tr.u16()
			if err != nil {
				return nil, err
			}
			if err := o.resv("transform", r1, r2); err != nil {
				return nil, err
			}
			tend := ts + int(tlen)
			if tr.p < tend {
				ar := &rd{b: b[:tend], p: tr.p}
				at, err := ar.u16()
				if err != nil {
					return nil, err
				}
				a := &model.Attr{Type: at & 0x7fff}
				if at&0x8000 != 0 {
					a.TV = true
					if a.Value, err = ar.u16(); err != nil {
						return nil, err
					}
				} else {
					al, err := ar.u16()
					if err != nil {
						return nil, err
					}
					v, err := ar.take(int(al))
					if err != nil {
						return nil, err
					}
					a.Var = cp(v)
				}
				if ar.left() != 0 {
					// the model (and the library) hold at most one attribute per transform
					return nil, errors.New("ref: more than one attribute in a transform")
				}
				t.Attr = a
			}
			tr.p = tend
			if o.Strict {
				want := uint8(3)
				if tr.left() == 0 {
					want = 0
				}
				if tl != want {
					return nil, fmt.Errorf("ref: transform last-substructure marker %d, want %d", tl, want)
				}
			}
			tlast = tl == 0
			pr.Transforms = append(pr.Transforms, t)
		}
		if o.Strict && int(nt) != len(pr.Transforms) {
			return nil, fmt.Errorf("ref: proposal announces %d transforms, carries %d", nt, len(pr.Transforms))
		}
		r.p = end
		if o.Strict {
			want := uint8(2)
			if r.left() == 0 {
				want = 0
			}
			if last != want {
				return nil, fmt.Errorf("ref: proposal last-substructure marker %d, want %d", last, want)
			}
		}
		lastSeen = last == 0
		sa.Proposals = append(sa.Proposals, pr)
	}
	return sa, nil
}
