package ref

import (
	"bytes"
	"crypto/aes"
	"crypto/cipher"
	"crypto/hmac"
	"encoding/hex"
	"hash"
	"math/big"
	"testing"

	"pgregory.net/rapid"

	"verif/gen"
	"verif/model"
)

// Self-tests of the reference: a failure here is a defect of the harness, never a violation.

func TestHMACAgainstStd(t *testing.T) {
	rapid.Check(t, func(t *rapid.T) {
		a := rapid.SampledFrom([]HashAlg{MD5, SHA1, SHA256}).Draw(t, "alg")
		key := rapid.SliceOfN(rapid.Byte(), 0, 200).Draw(t, "key")
		msg := rapid.SliceOfN(rapid.Byte(), 0, 300).Draw(t, "msg")
		h := hmac.New(func() hash.Hash { return newHash(a) }, key)
		h.Write(msg)
		if !bytes.Equal(h.Sum(nil), HMAC(a, key, msg)) {
			t.Fatalf("HMAC mismatch")
		}
	})
}

func TestHMACVectors(t *testing.T) {
	// RFC 2202 test case 1 (MD5, SHA-1), RFC 4231 test case 2 (SHA-256)
	k := bytes.Repeat([]byte{0x0b}, 16)
	if hex.EncodeToString(HMAC(MD5, k, []byte("Hi There"))) != "9294727a3638bb1c13f48ef8158bfc9d" {
		t.Fatal("RFC 2202 MD5 #1")
	}
	k = bytes.Repeat([]byte{0x0b}, 20)
	if hex.EncodeToString(HMAC(SHA1, k, []byte("Hi There"))) != "b617318655057264e28bc0b6fb378c8ef146be00" {
		t.Fatal("RFC 2202 SHA1 #1")
	}
	if hex.EncodeToString(HMAC(SHA256, []byte("Jefe"), []byte("what do ya want for nothing?"))) != "5bdcc146bf60754e6a042426089575c75a003f089d2739839dec58b964ec3843" {
		t.Fatal("RFC 4231 #2")
	}
}

func TestCBCAgainstStd(t *testing.T) {
	rapid.Check(t, func(t *rapid.T) {
		kl := rapid.SampledFrom([]int{16, 24, 32}).Draw(t, "kl")
		key := rapid.SliceOfN(rapid.Byte(), kl, kl).Draw(t, "key")
		iv := rapid.SliceOfN(rapid.Byte(), 16, 16).Draw(t, "iv")
		nb := rapid.IntRange(0, 8).Draw(t, "nb")
		pt := rapid.SliceOfN(rapid.Byte(), 16*nb, 16*nb).Draw(t, "pt")
		blk, _ := aes.NewCipher(key)
		want := make([]byte, len(pt))
		cipher.NewCBCEncrypter(blk, iv).CryptBlocks(want, pt)
		got, err := CBCEncrypt(key, iv, pt)
		if err != nil || !bytes.Equal(got, want) {
			t.Fatalf("CBC encrypt mismatch")
		}
		back, err := CBCDecrypt(key, iv, got)
		if err != nil || !bytes.Equal(back, pt) {
			t.Fatalf("CBC decrypt mismatch")
		}
	})
}

func TestCBCVectorRFC3602(t *testing.T) {
	key, _ := hex.DecodeString("06a9214036b8a15b512e03d534120006")
	iv, _ := hex.DecodeString("3dafba429d9eb430b422da802c9fac41")
	ct, _ := CBCEncrypt(key, iv, []byte("Single block msg"))
	if hex.EncodeToString(ct) != "e353779c1079aeb82708942dbe77181a" {
		t.Fatal("RFC 3602 case 1")
	}
}

func TestModExpAgainstStd(t *testing.T) {
	rapid.Check(t, func(t *rapid.T) {
		b := new(big.Int).SetBytes(rapid.SliceOfN(rapid.Byte(), 0, 40).Draw(t, "b"))
		e := new(big.Int).SetBytes(rapid.SliceOfN(rapid.Byte(), 0, 40).Draw(t, "e"))
		m := new(big.Int).SetBytes(rapid.SliceOfN(rapid.Byte(), 1, 40).Draw(t, "m"))
		if m.Sign() == 0 {
			m.SetInt64(7)
		}
		if ModExp(b, e, m).Cmp(new(big.Int).Exp(b, e, m)) != 0 {
			t.Fatalf("modexp mismatch")
		}
	})
}

func TestPrimes(t *testing.T) {
	for _, bits := range []int{1024, 2048} {
		p := ModpPrime(bits)
		if p.BitLen() != bits || !p.ProbablyPrime(16) {
			t.Fatalf("MODP %d: not a %d-bit prime", bits, bits)
		}
		q := new(big.Int).Rsh(p, 1)
		if !q.ProbablyPrime(16) {
			t.Fatalf("MODP %d: (p-1)/2 not prime", bits)
		}
		h := hex.EncodeToString(p.Bytes())
		if h[:32] != "ffffffffffffffffc90fdaa22168c234" || h[len(h)-16:] != "ffffffffffffffff" {
			t.Fatalf("MODP %d: unexpected digits %s", bits, h[:40])
		}
	}
	// RFC 2409 section 6.2, last words before the trailing FFFF...: "49286651 ECE65381"
	h := hex.EncodeToString(ModpPrime(1024).Bytes())
	if h[len(h)-32:len(h)-16] != "49286651ece65381" {
		t.Fatal("group 2 tail")
	}
	// RFC 3526 section 3: "... DE2BCBF6 95581718 3995497C EA956AE5 15D22618 98FA0510 15728E5A 8AACAA68"
	h = hex.EncodeToString(ModpPrime(2048).Bytes())
	if h[len(h)-32:len(h)-16] != "15728e5a8aacaa68" {
		t.Fatal("group 14 tail")
	}
}

func TestCodecRoundTrip(t *testing.T) {
	rapid.Check(t, func(t *rapid.T) {
		m := gen.Message(t, gen.Opts{})
		w, err := EncodeMessage(m, nil)
		if err != nil {
			t.Fatalf("encode: %v", err)
		}
		if len(w) != 28+model.ChainSize(m.Payloads) {
			t.Fatalf("size arithmetic: %d != %d", len(w), 28+model.ChainSize(m.Payloads))
		}
		back, err := ParseMessage(w, Parse{Strict: true})
		if err != nil {
			t.Fatalf("strict parse of canonical image: %v", err)
		}
		// wire order of transforms is preserved by the reference itself
		if !bytes.Equal(model.JSON(normKeepOrder(m)), model.JSON(normKeepOrder(back))) {
			t.Fatalf("round trip: %s", model.Diff(m, back))
		}
		// with liberties
		lib := rapid.SliceOfN(rapid.Byte(), 0, 64).Draw(t, "lib")
		e := &Enc{Lib: lib, CriticalOnSupported: true}
		w2, err := EncodeMessage(m, e)
		if err != nil {
			t.Fatalf("encode: %v", err)
		}
		back2, err := ParseMessage(w2, Parse{})
		if err != nil {
			t.Fatalf("lenient parse: %v", err)
		}
		if !m.Equal(back2) {
			t.Fatalf("round trip with liberties: %s", model.Diff(m, back2))
		}
		if e.NonZero > 0 {
			if _, err := ParseMessage(w2, Parse{Strict: true}); err == nil {
				t.Fatalf("strict parser accepted non-zero reserved fields")
			}
		}
	})
}

func normKeepOrder(m model.Message) model.Message { return m.Normalize() }

func TestEAPRoundTrip(t *testing.T) {
	rapid.Check(t, func(t *rapid.T) {
		e := gen.EAP(t, false)
		w, err := EncodeEAP(e, nil)
		if err != nil {
			t.Fatalf("encode: %v", err)
		}
		if len(w) != model.EAPSize(e) {
			t.Fatalf("size")
		}
		back, err := ParseEAP(w, e.Code != 3 && e.Code != 4 || e.Kind == model.ENone)
		if err != nil {
			t.Fatalf("parse: %v", err)
		}
		if !e.Equal(back) {
			t.Fatalf("EAP round trip: %s vs %s", model.JSON(e), model.JSON(back))
		}
	})
}

func TestSKRoundTrip(t *testing.T) {
	rapid.Check(t, func(t *rapid.T) {
		s := Suite{Encr: rapid.SampledFrom(Encrs).Draw(t, "encr"), Integ: rapid.SampledFrom(Integs).Draw(t, "integ")}
		k := DirKeys{E: rapid.SliceOfN(rapid.Byte(), s.Encr.KeyLen, s.Encr.KeyLen).Draw(t, "ke"), A: rapid.SliceOfN(rapid.Byte(), s.Integ.KeyLen, s.Integ.KeyLen).Draw(t, "ka")}
		inner := rapid.SliceOfN(rapid.Byte(), 0, 100).Draw(t, "inner")
		iv := rapid.SliceOfN(rapid.Byte(), 16, 16).Draw(t, "iv")
		base := 15 - len(inner)%16
		pl := base + 16*rapid.IntRange(0, (255-base)/16).Draw(t, "padblocks")
		pad := rapid.SliceOfN(rapid.Byte(), pl, pl).Draw(t, "pad")
		hdr := make([]byte, 28)
		w, err := Protect(s, k, hdr, 33, inner, iv, pl, pad, 0)
		if err != nil {
			t.Fatalf("protect: %v", err)
		}
		o, err := Open(s, k, w)
		if err != nil {
			t.Fatalf("open: %v", err)
		}
		if !bytes.Equal(o.Inner, inner) || o.PadLen != pl || o.FirstInner != 33 {
			t.Fatalf("SK round trip")
		}
		w[len(w)-1] ^= 1
		if _, err := Open(s, k, w); err == nil {
			t.Fatalf("forged ICV accepted")
		}
	})
}

// Known answers that do not come from this harness: the vectors pinned in the repository's own tests, re-used purely
// as data (typed in, not imported).
func TestKnownAnswersFromTheRepositorysVectors(t *testing.T) {
	hx := func(s string) []byte { b, _ := hex.DecodeString(s); return b }
	k := DeriveIKE(Prfs[1], Integs[1], Encrs[2], []byte{1, 2, 3, 4}, []byte{5, 6, 7, 8}, 0x456, 0x123)
	for _, c := range []struct {
		name string
		got  []byte
		want string
	}{{"SK_d", k.D, "276e1a8f0d65dae5309da66277ff7c82d39a8956"}, {"SK_ai", k.Ai, "58a17edd463b4b5062359c1c98b1736d80219691"},
		{"SK_ar", k.Ar, "eb2e18e9a8f9643ea0d0107a28cf5947ecd1597e"}, {"SK_ei", k.Ei, "3dcbcbb2d71d1806d5e5356a5600727eb482101de1868ae9cf71c4117d22cddb"},
		{"SK_er", k.Er, "ba3b43cf173435c449f3098c01944f2d9a66c2ca1d967f06a69f36e945a4754b"}, {"SK_pi", k.Pi, "aff4def6c9113c6942f31fa2d8b74f6c054e0e73"},
		{"SK_pr", k.Pr, "c06bd0c0dd3e0b3f9c5b4cbe35c88fdd3948430f"}} {
		if hex.EncodeToString(c.got) != c.want {
			t.Fatalf("%s = %x, pinned vector %s", c.name, c.got, c.want)
		}
	}
	// PRF' (TS 33.501 style vector pinned in eap tests)
	mk := PRFPrime(append(hx("4bf4f64b21b59444277f2c60c417d4c7"), hx("403075840723643618b6fae83236c86d")...), []byte("EAP-AKA'208930123456789"), 208)
	if hex.EncodeToString(mk[:16]) != "d2e0e54aa01d48959e38ca1aff6c38fb" || hex.EncodeToString(mk[16:48]) != "a56e1733adf3747cfe045dacebedeb33dd53e0f5200f6697c0855e2f856c4e40" ||
		hex.EncodeToString(mk[48:80]) != "c362f256003483d0766bf877191741254446986158e66d57fcdc251d531fdec4" {
		t.Fatalf("PRF' differs from the pinned vector")
	}
	// AT_MAC vector: Response id 64, Challenge, AT_RES e2f5c0ab3685b3b4, AT_CHECKCODE empty
	e := model.EAP{Code: 2, Identifier: 64, Kind: model.EAka, Sub: 1, Attrs: []model.AkaAttr{
		{Type: model.AT_RES, Value: hx("e2f5c0ab3685b3b4")}, {Type: model.AT_MAC, Value: make([]byte, 16)}, {Type: model.AT_CHECKCODE, Value: nil}}}
	w, err := EncodeEAP(e, nil)
	if err != nil {
		t.Fatal(err)
	}
	mac := HMAC(SHA256, hx("7e28ba2f666944737f6c8a0a008e834895206a02725b5b4b925a399ae6f09cf0"), w)[:16]
	if hex.EncodeToString(mac) != "fd69971493e2b7f873a06e72e2051e8a" {
		t.Fatalf("AT_MAC over the reference encoding = %x, pinned vector fd69971493e2b7f873a06e72e2051e8a", mac)
	}
}
