package ref

import (
	"crypto/aes"
	"crypto/md5"
	"crypto/sha1"
	"crypto/sha256"
	"errors"
	"fmt"
	"hash"
	"math/big"
)

// Algorithm tables typed in from RFC 2403/2404/4868 (integrity), RFC 7296 / 4868 (PRF), RFC 3602 (AES-CBC).

type HashAlg string

const (
	MD5    HashAlg = "md5"
	SHA1   HashAlg = "sha1"
	SHA256 HashAlg = "sha256"
)

func newHash(a HashAlg) hash.Hash {
	switch a {
	case MD5:
		return md5.New()
	case SHA1:
		return sha1.New()
	case SHA256:
		return sha256.New()
	}
	panic("ref: unknown hash " + string(a))
}

type IntegAlg struct {
	Name   string
	ID     uint16
	Hash   HashAlg
	KeyLen int
	OutLen int
}

type PrfAlg struct {
	Name   string
	ID     uint16
	Hash   HashAlg
	KeyLen int // preferred key length = output length
}

type EncrAlg struct {
	Name   string
	ID     uint16
	KeyLen int
}

var Integs = []IntegAlg{
	{"AUTH_HMAC_MD5_96", 1, MD5, 16, 12},
	{"AUTH_HMAC_SHA1_96", 2, SHA1, 20, 12},
	{"AUTH_HMAC_SHA2_256_128", 12, SHA256, 32, 16},
}

var Prfs = []PrfAlg{
	{"PRF_HMAC_MD5", 1, MD5, 16},
	{"PRF_HMAC_SHA1", 2, SHA1, 20},
	{"PRF_HMAC_SHA2_256", 5, SHA256, 32},
}

var Encrs = []EncrAlg{
	{"ENCR_AES_CBC_128", 12, 16},
	{"ENCR_AES_CBC_192", 12, 24},
	{"ENCR_AES_CBC_256", 12, 32},
}

type DHGroup struct {
	Name string
	ID   uint16
	Bits int
}

var DHs = []DHGroup{{"DH_1024_BIT_MODP", 2, 1024}, {"DH_2048_BIT_MODP", 14, 2048}}

// HMAC per RFC 2104, written out.
func HMAC(a HashAlg, key, msg []byte) []byte {
	const block = 64 // MD5, SHA-1 and SHA-256 all have 64-octet blocks
	k := make([]byte, block)
	if len(key) > block {
		h := newHash(a)
		h.Write(key)
		copy(k, h.Sum(nil))
	} else {
		copy(k, key)
	}
	ipad, opad := make([]byte, block), make([]byte, block)
	for i := range k {
		ipad[i] = k[i] ^ 0x36
		opad[i] = k[i] ^ 0x5c
	}
	in := newHash(a)
	in.Write(ipad)
	in.Write(msg)
	inner := in.Sum(nil)
	out := newHash(a)
	out.Write(opad)
	out.Write(inner)
	return out.Sum(nil)
}

// PrfPlus per RFC 7296 section 2.13: T1 = prf(K, S|0x01), Tn = prf(K, Tn-1|S|n).
func PrfPlus(a HashAlg, key, seed []byte, n int) []byte {
	var out, prev []byte
	for i := 1; len(out) < n; i++ {
		if i > 255 {
			panic("ref: prf+ beyond 255 blocks")
		}
		in := append(append(append([]byte(nil), prev...), seed...), byte(i))
		prev = HMAC(a, key, in)
		out = append(out, prev...)
	}
	return out[:n]
}

// IKEKeys are the seven keys of RFC 7296 section 2.14.
type IKEKeys struct {
	SKEYSEED, D, Ai, Ar, Ei, Er, Pi, Pr []byte
}

func be64(v uint64) []byte {
	return []byte{byte(v >> 56), byte(v >> 48), byte(v >> 40), byte(v >> 32), byte(v >> 24), byte(v >> 16), byte(v >> 8), byte(v)}
}

// DeriveIKE: SKEYSEED = prf(Ni|Nr, g^ir); keys = prf+(SKEYSEED, Ni|Nr|SPIi|SPIr).
func DeriveIKE(prf PrfAlg, integ IntegAlg, encr EncrAlg, nonces, secret []byte, spii, spir uint64) IKEKeys {
	var k IKEKeys
	k.SKEYSEED = HMAC(prf.Hash, nonces, secret)
	seed := append(append(append([]byte(nil), nonces...), be64(spii)...), be64(spir)...)
	total := 3*prf.KeyLen + 2*integ.KeyLen + 2*encr.KeyLen
	s := PrfPlus(prf.Hash, k.SKEYSEED, seed, total)
	cut := func(n int) []byte {
		v := s[:n]
		s = s[n:]
		return v
	}
	k.D = cut(prf.KeyLen)
	k.Ai = cut(integ.KeyLen)
	k.Ar = cut(integ.KeyLen)
	k.Ei = cut(encr.KeyLen)
	k.Er = cut(encr.KeyLen)
	k.Pi = cut(prf.KeyLen)
	k.Pr = cut(prf.KeyLen)
	return k
}

// ChildKeys per RFC 7296 section 2.17.
type ChildKeys struct{ EncrI2R, IntegI2R, EncrR2I, IntegR2I []byte }

func DeriveChild(prf PrfAlg, skd, nonces []byte, encrLen, integLen int) ChildKeys {
	s := PrfPlus(prf.Hash, skd, nonces, 2*(encrLen+integLen))
	var c ChildKeys
	c.EncrI2R, s = s[:encrLen], s[encrLen:]
	c.IntegI2R, s = s[:integLen], s[integLen:]
	c.EncrR2I, s = s[:encrLen], s[encrLen:]
	c.IntegR2I = s[:integLen]
	return c
}

// PRFPrime per RFC 5448 section 3.4.1 (HMAC-SHA-256 based).
func PRFPrime(key, s []byte, n int) []byte {
	var out, prev []byte
	for i := 1; len(out) < n; i++ {
		in := append(append(append([]byte(nil), prev...), s...), byte(i))
		prev = HMAC(SHA256, key, in)
		out = append(out, prev...)
	}
	return out[:n]
}

// ---------------------------------------------------------------------------------------------
// Textbook AES-CBC (block primitive from std, chaining by hand)

func CBCEncrypt(key, iv, pt []byte) ([]byte, error) {
	blk, err := aes.NewCipher(key)
	if err != nil {
		return nil, err
	}
	if len(iv) != 16 || len(pt)%16 != 0 {
		return nil, errors.New("ref: CBC sizes")
	}
	out := make([]byte, len(pt))
	prev := iv
	for i := 0; i < len(pt); i += 16 {
		var x [16]byte
		for j := 0; j < 16; j++ {
			x[j] = pt[i+j] ^ prev[j]
		}
		blk.Encrypt(out[i:i+16], x[:])
		prev = out[i : i+16]
	}
	return out, nil
}

func CBCDecrypt(key, iv, ct []byte) ([]byte, error) {
	blk, err := aes.NewCipher(key)
	if err != nil {
		return nil, err
	}
	if len(iv) != 16 || len(ct)%16 != 0 {
		return nil, errors.New("ref: CBC sizes")
	}
	out := make([]byte, len(ct))
	prev := iv
	for i := 0; i < len(ct); i += 16 {
		var x [16]byte
		blk.Decrypt(x[:], ct[i:i+16])
		for j := 0; j < 16; j++ {
			out[i+j] = x[j] ^ prev[j]
		}
		prev = ct[i : i+16]
	}
	return out, nil
}

// TransformDecrypt is the reference for the ENCR transform's Decrypt: input IV|C. Returns the
// plaintext without padding, or an error for input that is too short (no IV plus one block),
// misaligned, or whose pad-length octet exceeds what precedes it.
func TransformDecrypt(key, ivct []byte) ([]byte, error) {
	if len(ivct) < 32 {
		return nil, errors.New("ref: ciphertext shorter than IV plus one block")
	}
	if len(ivct)%16 != 0 {
		return nil, errors.New("ref: ciphertext not block aligned")
	}
	pt, err := CBCDecrypt(key, ivct[:16], ivct[16:])
	if err != nil {
		return nil, err
	}
	pad := int(pt[len(pt)-1])
	if pad+1 > len(pt) {
		return nil, errors.New("ref: impossible pad length")
	}
	return pt[:len(pt)-pad-1], nil
}

// ---------------------------------------------------------------------------------------------
// SK payload (RFC 7296 section 3.14)

type Suite struct {
	Encr  EncrAlg
	Integ IntegAlg
}

// DirKeys are the keys of ONE direction (the sender's SK_e / SK_a).
type DirKeys struct{ E, A []byte }

// Protect builds header | SK{ IV | E(inner | pad | padlen) | ICV } with everything chosen by the caller.
// hdr28 is a 28-octet IKE header whose next-payload and length fields are overwritten.
func Protect(s Suite, k DirKeys, hdr28 []byte, firstInner uint8, inner, iv []byte, padLen int, padOctets []byte, skFlags byte) ([]byte, error) {
	if len(hdr28) != 28 || len(iv) != 16 || padLen < 0 || padLen > 255 || len(padOctets) != padLen {
		return nil, errors.New("ref: Protect arguments")
	}
	if (len(inner)+padLen+1)%16 != 0 {
		return nil, errors.New("ref: pad length incompatible with block size")
	}
	pt := append(append(append([]byte(nil), inner...), padOctets...), byte(padLen))
	ct, err := CBCEncrypt(k.E, iv, pt)
	if err != nil {
		return nil, err
	}
	skLen := 4 + 16 + len(ct) + s.Integ.OutLen
	if skLen > 0xffff {
		return nil, errors.New("ref: SK payload exceeds 16 bits")
	}
	total := 28 + skLen
	w := append([]byte(nil), hdr28...)
	w[16] = 46
	w[24], w[25], w[26], w[27] = byte(total>>24), byte(total>>16), byte(total>>8), byte(total)
	w = append(w, firstInner, skFlags, byte(skLen>>8), byte(skLen))
	w = append(w, iv...)
	w = append(w, ct...)
	mac := HMAC(s.Integ.Hash, k.A, w)[:s.Integ.OutLen]
	w = append(w, mac...)
	return w, nil
}

// Opened is what an independent receiver recovers.
type Opened struct {
	FirstInner uint8
	Inner      []byte
	IV         []byte
	PadLen     int
	Pad        []byte
}

// Open verifies and decrypts a protected datagram as an independent receiver would.
func Open(s Suite, k DirKeys, w []byte) (*Opened, error) {
	if len(w) < 28+4 {
		return nil, errors.New("ref: too short for header + SK header")
	}
	if w[16] != 46 {
		return nil, fmt.Errorf("ref: first payload %d, not SK", w[16])
	}
	total := int(w[24])<<24 | int(w[25])<<16 | int(w[26])<<8 | int(w[27])
	if total != len(w) {
		return nil, fmt.Errorf("ref: header length %d != datagram %d", total, len(w))
	}
	if w[29] != 0 {
		return nil, errors.New("ref: SK generic header flags non-zero")
	}
	skLen := int(w[30])<<8 | int(w[31])
	if skLen != len(w)-28 {
		return nil, fmt.Errorf("ref: SK length %d != %d (SK must be the only/last payload)", skLen, len(w)-28)
	}
	body := w[32:]
	if len(body) < 16+16+s.Integ.OutLen {
		return nil, errors.New("ref: SK body shorter than IV + one block + ICV")
	}
	icv := body[len(body)-s.Integ.OutLen:]
	mac := HMAC(s.Integ.Hash, k.A, w[:len(w)-s.Integ.OutLen])[:s.Integ.OutLen]
	if string(mac) != string(icv) {
		return nil, errors.New("ref: ICV mismatch")
	}
	iv := body[:16]
	ct := body[16 : len(body)-s.Integ.OutLen]
	if len(ct)%16 != 0 {
		return nil, errors.New("ref: ciphertext not block aligned")
	}
	pt, err := CBCDecrypt(k.E, iv, ct)
	if err != nil {
		return nil, err
	}
	p := int(pt[len(pt)-1])
	if p+1 > len(pt) {
		return nil, errors.New("ref: pad length exceeds plaintext")
	}
	return &Opened{FirstInner: w[28], Inner: pt[:len(pt)-p-1], IV: iv, PadLen: p, Pad: pt[len(pt)-p-1 : len(pt)-1]}, nil
}

// ---------------------------------------------------------------------------------------------
// MODP groups: primes from the RFC 2409 / 3526 formula, square-and-multiply modexp.

// piScaled returns floor(2^k * pi) using Machin's formula with integer arithmetic.
func piScaled(k int) *big.Int {
	guard := 64
	one := new(big.Int).Lsh(big.NewInt(1), uint(k+guard))
	arctanInv := func(x int64) *big.Int {
		// arctan(1/x) * 2^(k+guard)
		sum := new(big.Int)
		xb := big.NewInt(x)
		x2 := new(big.Int).Mul(xb, xb)
		term := new(big.Int).Quo(one, xb)
		n := int64(1)
		sign := 1
		for term.Sign() != 0 {
			t := new(big.Int).Quo(term, big.NewInt(n))
			if sign > 0 {
				sum.Add(sum, t)
			} else {
				sum.Sub(sum, t)
			}
			term.Quo(term, x2)
			n += 2
			sign = -sign
		}
		return sum
	}
	// pi = 16 arctan(1/5) - 4 arctan(1/239)
	a := arctanInv(5)
	a.Mul(a, big.NewInt(16))
	b := arctanInv(239)
	b.Mul(b, big.NewInt(4))
	a.Sub(a, b)
	return a.Rsh(a, uint(guard))
}

// ModpPrime computes 2^n - 2^(n-64) - 1 + 2^64 * (floor(2^(n-130) * pi) + c).
func ModpPrime(bits int) *big.Int {
	var c int64
	switch bits {
	case 1024:
		c = 129093
	case 2048:
		c = 124476
	default:
		panic("ref: unsupported MODP size")
	}
	p := new(big.Int).Lsh(big.NewInt(1), uint(bits))
	p.Sub(p, new(big.Int).Lsh(big.NewInt(1), uint(bits-64)))
	p.Sub(p, big.NewInt(1))
	t := piScaled(bits - 130)
	t.Add(t, big.NewInt(c))
	t.Lsh(t, 64)
	return p.Add(p, t)
}

// ModExp computes b^e mod m by left-to-right square and multiply (math/big Mul and Mod only).
func ModExp(b, e, m *big.Int) *big.Int {
	if m.Cmp(big.NewInt(1)) == 0 {
		return new(big.Int)
	}
	r := big.NewInt(1)
	base := new(big.Int).Mod(b, m)
	for i := e.BitLen() - 1; i >= 0; i-- {
		r.Mul(r, r)
		r.Mod(r, m)
		if e.Bit(i) == 1 {
			r.Mul(r, base)
			r.Mod(r, m)
		}
	}
	return r
}

// LeftPad returns the big-endian image of v in exactly n octets.
func LeftPad(v *big.Int, n int) []byte {
	b := v.Bytes()
	if len(b) > n {
		panic("ref: value longer than modulus")
	}
	out := make([]byte, n)
	copy(out[n-len(b):], b)
	return out
}

// ProtectPlain is Protect with a caller-supplied complete plaintext (a multiple of 16 octets,
// whose last octet is whatever the caller wants the pad-length octet to be - possibly impossible).
func ProtectPlain(s Suite, k DirKeys, hdr28 []byte, firstInner uint8, plaintext, iv []byte, skFlags byte) ([]byte, error) {
	if len(hdr28) != 28 || len(iv) != 16 || len(plaintext)%16 != 0 {
		return nil, errors.New("ref: ProtectPlain arguments")
	}
	ct, err := CBCEncrypt(k.E, iv, plaintext)
	if err != nil {
		return nil, err
	}
	return ProtectBody(s, k, hdr28, firstInner, append(append([]byte(nil), iv...), ct...), skFlags)
}

// ProtectBody wraps arbitrary octets as the SK payload content and appends a valid ICV.
func ProtectBody(s Suite, k DirKeys, hdr28 []byte, firstInner uint8, body []byte, skFlags byte) ([]byte, error) {
	skLen := 4 + len(body) + s.Integ.OutLen
	if len(hdr28) != 28 || skLen > 0xffff {
		return nil, errors.New("ref: ProtectBody arguments")
	}
	total := 28 + skLen
	w := append([]byte(nil), hdr28...)
	w[16] = 46
	w[24], w[25], w[26], w[27] = byte(total>>24), byte(total>>16), byte(total>>8), byte(total)
	w = append(w, firstInner, skFlags, byte(skLen>>8), byte(skLen))
	w = append(w, body...)
	mac := HMAC(s.Integ.Hash, k.A, w)[:s.Integ.OutLen]
	return append(w, mac...), nil
}

// Header28 encodes the fixed IKE header (next payload and length are placeholders).
func Header28(ispi, rspi uint64, major, minor, exch, flags uint8, msgid uint32) []byte {
	b := append(be64(ispi), be64(rspi)...)
	b = append(b, 0, major<<4|minor&15, exch, flags, byte(msgid>>24), byte(msgid>>16), byte(msgid>>8), byte(msgid), 0, 0, 0, 0)
	return b
}

// SplitLenient follows a payload chain through next-payload and length fields until the
// octets run out, without judging the final next-payload value (what a lenient receiver does).
func SplitLenient(first uint8, b []byte) ([]RawPayload, error) {
	var out []RawPayload
	next := first
	for len(b) > 0 {
		if len(b) < 4 {
			return out, errors.New("ref: truncated generic payload header")
		}
		l := int(b[2])<<8 | int(b[3])
		if l < 4 || l > len(b) {
			return out, errors.New("ref: payload length out of range")
		}
		out = append(out, RawPayload{Type: next, Flags: b[1], Body: b[4:l]})
		next = b[0]
		b = b[l:]
	}
	return out, nil
}

// ProtectOuter is Protect for a datagram whose outer chain carries further (raw) payloads in front of the SK payload:
// header | front payloads | SK{IV | E(inner|pad|padlen) | ICV}, with the ICV over everything before it.
func ProtectOuter(s Suite, k DirKeys, hdr28 []byte, front []RawPayload, firstInner uint8, inner, iv []byte, padLen int, padOctets []byte) ([]byte, error) {
	if len(hdr28) != 28 || len(iv) != 16 || len(padOctets) != padLen || (len(inner)+padLen+1)%16 != 0 {
		return nil, errors.New("ref: ProtectOuter arguments")
	}
	pt := append(append(append([]byte(nil), inner...), padOctets...), byte(padLen))
	ct, err := CBCEncrypt(k.E, iv, pt)
	if err != nil {
		return nil, err
	}
	w := append([]byte(nil), hdr28...)
	w[16] = 46
	if len(front) > 0 {
		w[16] = front[0].Type
	}
	for i, p := range front {
		next := uint8(46)
		if i+1 < len(front) {
			next = front[i+1].Type
		}
		l := 4 + len(p.Body)
		if l > 0xffff {
			return nil, errors.New("ref: front payload too long")
		}
		w = append(w, next, p.Flags, byte(l>>8), byte(l))
		w = append(w, p.Body...)
	}
	skLen := 4 + 16 + len(ct) + s.Integ.OutLen
	if skLen > 0xffff {
		return nil, errors.New("ref: SK payload exceeds 16 bits")
	}
	w = append(w, firstInner, 0, byte(skLen>>8), byte(skLen))
	w = append(w, iv...)
	w = append(w, ct...)
	total := len(w) + s.Integ.OutLen
	w[24], w[25], w[26], w[27] = byte(total>>24), byte(total>>16), byte(total>>8), byte(total)
	mac := HMAC(s.Integ.Hash, k.A, w)[:s.Integ.OutLen]
	return append(w, mac...), nil
}
