package ref

import "verif/model"

// 3GPP TS 24.502 layouts (clause 9.3.1 Notify payloads, 9.3.2 EAP-5G), built from the arguments.

const (
	Vendor3GPP    = 10415
	VendorEAP5G   = 3
	Notify5GQoS   = 55501
	NotifyNASIP4  = 55502
	NotifyUPIP4   = 55504
	NotifyNASPort = 55506
)

// EAP5GStart: EAP-Request/5G-Start = expanded type, vendor 10415, vendor type 3, message-id 1, spare.
func EAP5GStart(id uint8) model.EAP {
	return model.EAP{Code: 1, Identifier: id, Kind: model.EExpanded, VendorID: Vendor3GPP, VendorType: VendorEAP5G, Data: model.Bytes{1, 0}}
}

// EAP5GNAS: EAP-Request/5G-NAS = message-id 2, spare, 16-bit NAS-PDU length, NAS-PDU.
func EAP5GNAS(id uint8, nas []byte) model.EAP {
	d := model.Bytes{2, 0, byte(len(nas) >> 8), byte(len(nas))}
	d = append(d, nas...)
	return model.EAP{Code: 1, Identifier: id, Kind: model.EExpanded, VendorID: Vendor3GPP, VendorType: VendorEAP5G, Data: d}
}

// QoSInfo: 5G_QOS_INFO notify data = length | PDU session id | number of QFIs | QFIs | flags (DCSI=2, DSCPI=1) | [DSCP].
func QoSInfo(psi uint8, qfis []uint8, isDefault, dscpSpecified bool, dscp uint8) model.Bytes {
	d := model.Bytes{0, psi, byte(len(qfis))}
	d = append(d, qfis...)
	var fl byte
	if isDefault {
		fl |= 2
	}
	if dscpSpecified {
		fl |= 1
	}
	d = append(d, fl)
	if dscpSpecified {
		d = append(d, dscp)
	}
	d[0] = byte(len(d))
	return d
}
