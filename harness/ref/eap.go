package ref

import (
	"errors"
	"fmt"

	"verif/model"
)

// EAP codec written from RFC 3748 (packet, expanded types), RFC 4187 / 5448 (AKA' attributes).

// EncodeEAP encodes one EAP packet. order, when non-nil, is a permutation of the attribute
// indices of an AKA' packet (the wire order of attributes).
func EncodeEAP(p model.EAP, order []int) ([]byte, error) {
	e := &Enc{AkaOrder: order}
	if err := e.eap(p); err != nil {
		return nil, err
	}
	return append([]byte(nil), e.b...), nil
}

// EncodeEAPLayout is EncodeEAP that also returns the field layout.
func EncodeEAPLayout(p model.EAP, order []int) ([]byte, []Field, error) {
	e := &Enc{AkaOrder: order}
	if err := e.eap(p); err != nil {
		return nil, nil, err
	}
	return append([]byte(nil), e.b...), e.Fields, nil
}

func (e *Enc) eap(p model.EAP) error {
	start := len(e.b)
	e.u8(p.Code, FData)
	e.u8(p.Identifier, FData)
	lenOff := len(e.b)
	e.u16(0, FEAPLen)
	switch p.Kind {
	case model.ENone:
	case model.EIdentity:
		e.u8(1, FEAPType)
		e.raw(p.Data)
	case model.ENotification:
		e.u8(2, FEAPType)
		e.raw(p.Data)
	case model.ENak:
		e.u8(3, FEAPType)
		e.raw(p.Data)
	case model.EExpanded:
		if p.VendorID >= 1<<24 {
			return errors.New("ref: vendor id needs 24 bits")
		}
		e.u8(254, FEAPType)
		e.u8(uint8(p.VendorID>>16), FData)
		e.u16(uint16(p.VendorID), FData)
		e.u32(p.VendorType, FData)
		e.raw(p.Data)
	case model.EAka:
		e.u8(50, FEAPType)
		e.u8(p.Sub, FData)
		e.u8(e.eaplib(), FAkaRes)
		e.u8(e.eaplib(), FAkaRes)
		idx := make([]int, len(p.Attrs))
		for i := range idx {
			idx[i] = i
		}
		if e.AkaOrder != nil && len(e.AkaOrder) == len(idx) {
			idx = e.AkaOrder
		}
		for _, i := range idx {
			if err := e.akaAttr(p.Attrs[i]); err != nil {
				return err
			}
		}
	default:
		return fmt.Errorf("ref: EAP kind %q", p.Kind)
	}
	return e.patch16(lenOff, len(e.b)-start)
}

func (e *Enc) akaAttr(a model.AkaAttr) error {
	n := len(a.Value)
	switch a.Type {
	case model.AT_RAND, model.AT_AUTN, model.AT_MAC:
		if n != 16 {
			return fmt.Errorf("ref: attribute %d needs 16 octets", a.Type)
		}
		e.u8(a.Type, FAkaAttrType)
		e.u8(5, FAkaAttrLen)
		e.u8(e.eaplib(), FAkaRes)
		e.u8(e.eaplib(), FAkaRes)
		e.raw(a.Value)
	case model.AT_RES, model.AT_KDF_INPUT:
		words := (4 + n + 3) / 4
		if words > 255 || n*8 > 0xffff {
			return errors.New("ref: attribute too long")
		}
		e.u8(a.Type, FAkaAttrType)
		e.u8(uint8(words), FAkaAttrLen)
		e.u16(uint16(n*8), FAkaBits)
		e.raw(a.Value)
		for i := 4 + n; i < 4*words; i++ {
			e.u8(0, FAkaRes)
		}
	case model.AT_KDF:
		if n != 2 {
			return errors.New("ref: AT_KDF needs 2 octets")
		}
		e.u8(a.Type, FAkaAttrType)
		e.u8(1, FAkaAttrLen)
		e.raw(a.Value)
	case model.AT_CHECKCODE:
		if n%4 != 0 || (4+n)/4 > 255 {
			return errors.New("ref: AT_CHECKCODE length")
		}
		e.u8(a.Type, FAkaAttrType)
		e.u8(uint8((4+n)/4), FAkaAttrLen)
		e.u8(e.eaplib(), FAkaRes)
		e.u8(e.eaplib(), FAkaRes)
		e.raw(a.Value)
	default:
		// an attribute this model has no layout for (RFC 4187 8.1: type, length in words, value): the value is taken as the
		// 4L-2 octets behind the length octet, whatever they mean
		if !e.AkaGeneric {
			return fmt.Errorf("ref: AKA' attribute %d outside the model", a.Type)
		}
		if (n+2)%4 != 0 || (n+2)/4 > 255 || n < 2 {
			return fmt.Errorf("ref: generic attribute %d needs 4L-2 octets (L <= 255), got %d", a.Type, n)
		}
		e.u8(a.Type, FAkaAttrType)
		e.u8(uint8((n+2)/4), FAkaAttrLen)
		e.raw(a.Value)
	}
	return nil
}

// EncodeEAPGeneric is EncodeEAP that also accepts attributes of types outside the model (encoded as type | length | value).
func EncodeEAPGeneric(p model.EAP, order []int) ([]byte, error) {
	e := &Enc{AkaOrder: order, AkaGeneric: true}
	if err := e.eap(p); err != nil {
		return nil, err
	}
	return append([]byte(nil), e.b...), nil
}

// AkaAttrSpan locates an attribute's value octets inside an encoded EAP packet (offset, length),
// parsing independently. Returns ok=false if absent.
func AkaAttrSpan(pkt []byte, typ uint8) (off, n int, ok bool) {
	if len(pkt) < 8 || pkt[4] != 50 {
		return 0, 0, false
	}
	p := 8
	for p+2 <= len(pkt) {
		t, l := pkt[p], int(pkt[p+1])*4
		if l == 0 || p+l > len(pkt) {
			return 0, 0, false
		}
		if t == typ {
			switch t {
			case model.AT_KDF:
				return p + 2, 2, true
			case model.AT_RES, model.AT_KDF_INPUT:
				bits := int(pkt[p+2])<<8 | int(pkt[p+3])
				return p + 4, bits / 8, true
			default:
				return p + 4, l - 4, true
			}
		}
		p += l
	}
	return 0, 0, false
}

// ParseEAP parses an EAP packet. strict additionally demands: zero reserved octets, zero
// padding, every attribute at most once, only attributes of the model.
func ParseEAP(b []byte, strict bool) (model.EAP, error) {
	var p model.EAP
	r := &rd{b: b}
	var err error
	if p.Code, err = r.u8(); err != nil {
		return p, err
	}
	if p.Identifier, err = r.u8(); err != nil {
		return p, err
	}
	l, err := r.u16()
	if err != nil {
		return p, err
	}
	if int(l) != len(b) {
		return p, fmt.Errorf("ref: EAP length %d != packet size %d", l, len(b))
	}
	if r.left() == 0 {
		p.Kind = model.ENone
		return p, nil
	}
	if strict && (p.Code == 3 || p.Code == 4) {
		return p, errors.New("ref: Success/Failure with data")
	}
	t, _ := r.u8()
	switch t {
	case 1, 2, 3:
		p.Kind = map[uint8]string{1: model.EIdentity, 2: model.ENotification, 3: model.ENak}[t]
		p.Data = cp(r.rest())
		if strict && len(p.Data) == 0 {
			return p, errors.New("ref: empty method data")
		}
	case 254:
		p.Kind = model.EExpanded
		v, err := r.take(3)
		if err != nil {
			return p, err
		}
		p.VendorID = uint32(v[0])<<16 | uint32(v[1])<<8 | uint32(v[2])
		if p.VendorType, err = r.u32(); err != nil {
			return p, err
		}
		p.Data = cp(r.rest())
	case 50:
		p.Kind = model.EAka
		if p.Sub, err = r.u8(); err != nil {
			return p, err
		}
		rs, err := r.take(2)
		if err != nil {
			return p, err
		}
		if strict && (rs[0] != 0 || rs[1] != 0) {
			return p, errors.New("ref: AKA' reserved octets non-zero")
		}
		seen := map[uint8]bool{}
		for r.left() > 0 {
			at, err := r.u8()
			if err != nil {
				return p, err
			}
			words, err := r.u8()
			if err != nil {
				return p, err
			}
			if words == 0 {
				return p, errors.New("ref: attribute length 0")
			}
			body, err := r.take(int(words)*4 - 2)
			if err != nil {
				return p, fmt.Errorf("ref: attribute %d of %d words exceeds packet", at, words)
			}
			if seen[at] && strict {
				return p, fmt.Errorf("ref: attribute %d twice", at)
			}
			seen[at] = true
			var val []byte
			switch at {
			case model.AT_RAND, model.AT_AUTN, model.AT_MAC:
				if words != 5 {
					return p, fmt.Errorf("ref: attribute %d length %d words", at, words)
				}
				if strict && (body[0] != 0 || body[1] != 0) {
					return p, errors.New("ref: attribute reserved octets non-zero")
				}
				val = body[2:]
			case model.AT_RES, model.AT_KDF_INPUT:
				if len(body) < 2 {
					return p, errors.New("ref: short attribute")
				}
				bits := int(body[0])<<8 | int(body[1])
				if bits%8 != 0 {
					return p, errors.New("ref: bit length not a multiple of 8")
				}
				n := bits / 8
				if n > len(body)-2 {
					return p, errors.New("ref: bit length exceeds attribute")
				}
				if strict && len(body)-2-n >= 4 {
					return p, errors.New("ref: more than 3 padding octets")
				}
				val = body[2 : 2+n]
				if strict {
					for _, x := range body[2+n:] {
						if x != 0 {
							return p, errors.New("ref: non-zero padding")
						}
					}
				}
			case model.AT_KDF:
				if words != 1 {
					return p, errors.New("ref: AT_KDF length")
				}
				val = body
			case model.AT_CHECKCODE:
				if strict && (body[0] != 0 || body[1] != 0) {
					return p, errors.New("ref: attribute reserved octets non-zero")
				}
				val = body[2:]
			default:
				if strict {
					return p, fmt.Errorf("ref: attribute %d outside the model", at)
				}
				val = body
			}
			p.Attrs = append(p.Attrs, model.AkaAttr{Type: at, Value: cp(val)})
		}
	default:
		return p, fmt.Errorf("ref: EAP type %d outside the model", t)
	}
	return p, nil
}
