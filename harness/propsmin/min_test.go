// Package propsmin is a test binary that links ONLY the algorithm packages (security/encr, integ, prf, dh, esn) - not the
// security package, not ike: a program that uses the registries on their own gets the same advertised set as one that links
// everything (C11: "every algorithm the library advertises (by name ...) converts to a transform ... and back"). Registration
// that happens as a side effect of importing some other package would go unnoticed in the main test binary.
package propsmin

import (
	"fmt"
	"testing"

	"github.com/free5gc/ike/message"
	"github.com/free5gc/ike/security/dh"
	"github.com/free5gc/ike/security/encr"
	"github.com/free5gc/ike/security/esn"
	"github.com/free5gc/ike/security/integ"
	"github.com/free5gc/ike/security/prf"
)

func TestC11Minimal(t *testing.T) {
	fail := func(format string, a ...any) {
		fmt.Printf("FAILURE property=C11 check=minimal-binary :: "+format+"\n", a...)
		t.Fail()
	}
	for i, n := range []string{"ENCR_AES_CBC_128", "ENCR_AES_CBC_192", "ENCR_AES_CBC_256"} {
		kl := 16 + 8*i
		e, ek := encr.StrToType(n), encr.StrToKType(n)
		if e == nil || ek == nil {
			fail("in a binary that links only the algorithm packages, %s is unknown (IKE variant known: %v, Child variant known: %v)", n, e != nil, ek != nil)
			continue
		}
		if e.GetKeyLength() != kl || ek.GetKeyLength() != kl || e.TransformID() != 12 || ek.TransformID() != 12 {
			fail("%s: key length %d / %d, id %d / %d", n, e.GetKeyLength(), ek.GetKeyLength(), e.TransformID(), ek.TransformID())
		}
		tr, err := encr.ToTransformChildSA(ek)
		if err != nil || tr == nil {
			fail("%s: ToTransformChildSA: %v", n, err)
			continue
		}
		if back := encr.DecodeTransformChildSA(tr); back == nil || back.GetKeyLength() != kl {
			fail("%s: the Child variant does not survive ToTransformChildSA / DecodeTransformChildSA", n)
		}
		tr2, err := encr.ToTransform(e)
		if err != nil || tr2 == nil {
			fail("%s: ToTransform: %v", n, err)
			continue
		}
		if back := encr.DecodeTransform(tr2); back == nil || back.GetKeyLength() != kl {
			fail("%s: the IKE variant does not survive ToTransform / DecodeTransform", n)
		}
	}
	for _, x := range []struct {
		n      string
		id     uint16
		kl, ol int
	}{{"AUTH_HMAC_MD5_96", 1, 16, 12}, {"AUTH_HMAC_SHA1_96", 2, 20, 12}, {"AUTH_HMAC_SHA2_256_128", 12, 32, 16}} {
		a, ak := integ.StrToType(x.n), integ.StrToKType(x.n)
		if a == nil || ak == nil {
			fail("in a binary that links only the algorithm packages, %s is unknown (IKE variant known: %v, Child variant known: %v)", x.n, a != nil, ak != nil)
			continue
		}
		if a.TransformID() != x.id || ak.TransformID() != x.id || a.GetKeyLength() != x.kl || ak.GetKeyLength() != x.kl || a.GetOutputLength() != x.ol {
			fail("%s: descriptor fields differ from the RFC table", x.n)
		}
		if back := integ.DecodeTransformChildSA(integ.ToTransformChildSA(ak)); back == nil || back.TransformID() != x.id {
			fail("%s: the Child variant does not survive its transform", x.n)
		}
		if back := integ.DecodeTransform(integ.ToTransform(a)); back == nil || back.TransformID() != x.id {
			fail("%s: the IKE variant does not survive its transform", x.n)
		}
	}
	for _, x := range []struct {
		n  string
		id uint16
	}{{"PRF_HMAC_MD5", 1}, {"PRF_HMAC_SHA1", 2}, {"PRF_HMAC_SHA2_256", 5}} {
		p := prf.StrToType(x.n)
		if p == nil || p.TransformID() != x.id {
			fail("%s unknown or wrong id in a minimal binary", x.n)
			continue
		}
		if back := prf.DecodeTransform(prf.ToTransform(p)); back == nil || back.TransformID() != x.id {
			fail("%s does not survive its transform", x.n)
		}
	}
	for _, x := range []struct {
		n  string
		id uint16
	}{{"DH_1024_BIT_MODP", 2}, {"DH_2048_BIT_MODP", 14}} {
		d := dh.StrToType(x.n)
		if d == nil || d.TransformID() != x.id {
			fail("%s unknown or wrong id in a minimal binary", x.n)
			continue
		}
		if back := dh.DecodeTransform(dh.ToTransform(d)); back == nil || back.TransformID() != x.id {
			fail("%s does not survive its transform", x.n)
		}
	}
	for _, n := range []string{"ESN_ENABLE", "ESN_DISABLE"} {
		e, err := esn.StrToType(n)
		if err != nil {
			fail("%s unknown in a minimal binary: %v", n, err)
			continue
		}
		if back, err := esn.DecodeTransform(esn.ToTransform(e)); err != nil || back.GetNeedESN() != e.GetNeedESN() {
			fail("%s does not survive its transform", n)
		}
	}
	_ = message.TypeEncryptionAlgorithm
}
