package gen

import (
	"strings"

	"pgregory.net/rapid"

	"verif/model"
)

// Mutate applies 1..4 structure-aware mutations to a wire image whose field layout is known.
// It returns the mutated octets and the list of mutation classes applied.
func Mutate(t *rapid.T, w []byte, fields []model.Field) ([]byte, []string) {
	out := append([]byte(nil), w...)
	var classes []string
	n := rapid.IntRange(1, 4).Draw(t, "mut.n")
	for i := 0; i < n; i++ {
		var c string
		out, c = mutateOnce(t, out, fields)
		classes = append(classes, c)
	}
	return out, classes
}

func isSize(kind string) bool {
	return strings.HasSuffix(kind, ".len") || strings.HasSuffix(kind, "size") || strings.HasSuffix(kind, "count") ||
		strings.HasSuffix(kind, "ntrans") || strings.HasSuffix(kind, "attrlen") || strings.HasSuffix(kind, ".bits")
}

func put(b []byte, f model.Field, v uint64) {
	for i := f.Width - 1; i >= 0; i-- {
		if f.Off+i < len(b) {
			b[f.Off+i] = byte(v)
		}
		v >>= 8
	}
}

func get(b []byte, f model.Field) uint64 {
	var v uint64
	for i := 0; i < f.Width; i++ {
		v <<= 8
		if f.Off+i < len(b) {
			v |= uint64(b[f.Off+i])
		}
	}
	return v
}

func mutateOnce(t *rapid.T, b []byte, fields []model.Field) ([]byte, string) {
	var sizes, others []model.Field
	for _, f := range fields {
		if f.Off+f.Width > len(b) || f.Width > 8 {
			continue
		}
		if isSize(f.Kind) {
			sizes = append(sizes, f)
		} else if f.Kind != "data" {
			others = append(others, f)
		}
	}
	w := []int{4, 4, 2, 2, 1, 1, 1}
	if len(sizes) == 0 {
		w[0] = 0
	}
	if len(others) == 0 {
		w[1] = 0
	}
	if len(b) == 0 {
		w[2], w[3], w[4] = 0, 0, 0
	}
	switch Pick(t, "mut.kind", w...) {
	case 0: // size-like field to a boundary / neighbouring / random value
		f := rapid.SampledFrom(sizes).Draw(t, "mut.field")
		cur := get(b, f)
		max := uint64(1)<<(8*uint(f.Width)) - 1
		var v uint64
		switch rapid.IntRange(0, 5).Draw(t, "mut.sizeclass") {
		case 0:
			v = cur + 1
		case 1:
			v = cur - 1
		case 2:
			v = rapid.SampledFrom([]uint64{0, 1, 2, 3, 4, 5, 7, 8, 9, 11, 12, 16, 40, 0x7f, 0x80, 0xff, 0x100, 0x7fff, 0x8000, 0xfff0, 0xfffb, 0xfffc, 0xffff}).Draw(t, "mut.b")
		case 3:
			v = cur + uint64(rapid.IntRange(-8, 8).Draw(t, "mut.delta"))
		case 4:
			v = cur + 4
		default:
			v = rapid.Uint64().Draw(t, "mut.rand")
		}
		put(b, f, v&max)
		return b, "size:" + f.Kind
	case 1: // other structured field (types, flags, reserved, markers) to a random value
		f := rapid.SampledFrom(others).Draw(t, "mut.field")
		max := uint64(1)<<(8*uint(f.Width)) - 1
		put(b, f, rapid.Uint64().Draw(t, "mut.rand")&max)
		return b, "field:" + f.Kind
	case 2: // bit flip
		i := rapid.IntRange(0, len(b)-1).Draw(t, "mut.pos")
		b[i] ^= 1 << uint(rapid.IntRange(0, 7).Draw(t, "mut.bit"))
		return b, "bitflip"
	case 3: // overwrite an octet
		i := rapid.IntRange(0, len(b)-1).Draw(t, "mut.pos")
		b[i] = rapid.Byte().Draw(t, "mut.byte")
		return b, "byte"
	case 4: // truncate (at a field boundary when possible)
		cut := rapid.IntRange(0, len(b)-1).Draw(t, "mut.cut")
		if len(fields) > 0 && rapid.Bool().Draw(t, "mut.atfield") {
			f := rapid.SampledFrom(fields).Draw(t, "mut.field")
			if f.Off <= len(b) {
				cut = f.Off
			}
		}
		return b[:cut], "truncate"
	case 5: // extend
		ext := rapid.SliceOfN(rapid.Byte(), 1, 24).Draw(t, "mut.ext")
		return append(b, ext...), "extend"
	default: // delete or duplicate a slice
		if len(b) < 2 {
			return append(b, 0), "extend"
		}
		i := rapid.IntRange(0, len(b)-1).Draw(t, "mut.i")
		j := rapid.IntRange(i, min(len(b), i+64)).Draw(t, "mut.j")
		if rapid.Bool().Draw(t, "mut.dup") {
			out := append([]byte(nil), b[:j]...)
			out = append(out, b[i:j]...)
			return append(out, b[j:]...), "duplicate"
		}
		return append(append([]byte(nil), b[:i]...), b[j:]...), "delete"
	}
}

// FixHeaderLength rewrites the IKE header length field to the datagram size.
func FixHeaderLength(b []byte) {
	if len(b) >= 28 {
		n := len(b)
		b[24], b[25], b[26], b[27] = byte(n>>24), byte(n>>16), byte(n>>8), byte(n)
	}
}
