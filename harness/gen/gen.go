// Package gen holds the rapid generators for the model ("encodable domain" of C01/C03/C05),
// for keys and suites, and byte-string helpers. Every random choice goes through rapid.
package gen

import (
	"encoding/json"
	"os"
	"strings"

	"pgregory.net/rapid"

	"verif/model"
)

// Exclude holds the narrow input classes switched off while a listed known finding still
// reproduces (set by the driver through VERIF_EXCLUDE; empty on a tree without known findings).
var Exclude = map[string]bool{}

// Excluded counts how often a generator had to steer around an excluded class.
var Excluded = map[string]int{}

func init() {
	for _, k := range strings.Split(os.Getenv("VERIF_EXCLUDE"), ",") {
		if k = strings.TrimSpace(k); k != "" {
			Exclude[k] = true
		}
	}
}

func excl(key string) bool {
	if Exclude[key] {
		Excluded[key]++
		return true
	}
	return false
}

// Pick draws an index according to integer weights.
func Pick(t *rapid.T, label string, weights ...int) int {
	total := 0
	for _, w := range weights {
		total += w
	}
	x := rapid.IntRange(0, total-1).Draw(t, label)
	for i, w := range weights {
		if x < w {
			return i
		}
		x -= w
	}
	return len(weights) - 1
}

// Fill makes n octets out of a handful of drawn values (cheap for large n).
func Fill(t *rapid.T, label string, n int) model.Bytes {
	if n <= 0 {
		return nil
	}
	if n <= 40 {
		b := rapid.SliceOfN(rapid.Byte(), n, n).Draw(t, label)
		switch rapid.IntRange(0, 9).Draw(t, label+".edge") {
		case 8: // leading zero / all-ones octet
			b[0] = []byte{0x00, 0xff}[int(b[0])&1]
		case 9: // trailing zero octets
			b[n-1] = 0
			if n > 1 {
				b[n-2] = b[n-2] &^ 0x7f
			}
		}
		return b
	}
	seed := rapid.SliceOfN(rapid.Byte(), 8, 8).Draw(t, label+".seed")
	mode := rapid.IntRange(0, 4).Draw(t, label+".mode")
	out := make(model.Bytes, n)
	switch mode {
	case 0: // repeated pattern
		for i := range out {
			out[i] = seed[i%8]
		}
	case 1: // counter xor pattern
		for i := range out {
			out[i] = seed[i%8] ^ byte(i) ^ byte(i>>8)
		}
	case 2: // constant
		for i := range out {
			out[i] = seed[0]
		}
	case 4: // octet values with a meaning somewhere in the protocol (payload type codes, flag bits, zero, all-ones)
		hostile := []byte{0x00, 0xff, 0x80, 0x7f, 0x2e, 0x21, 0x30, 0x29, 0x01, 0x25, 0x0e, 0x8e}
		for i := range out {
			out[i] = hostile[int(seed[i%8]>>1+byte(i))%len(hostile)]
		}
	default: // LCG keyed by the seed (looks random)
		var s uint64
		for _, b := range seed {
			s = s<<8 | uint64(b)
		}
		for i := range out {
			s = s*6364136223846793005 + 1442695040888963407
			out[i] = byte(s >> 56)
		}
	}
	return out
}

// Len draws a length in [min,max] from a mixture of small values, the given boundary values
// and the uniform distribution.
func Len(t *rapid.T, label string, min, max int, boundary ...int) int {
	if max < min {
		max = min
	}
	var ok []int
	for _, b := range boundary {
		if b >= min && b <= max {
			ok = append(ok, b)
		}
	}
	w := []int{6, 0, 1}
	if len(ok) > 0 {
		w[1] = 3
	}
	switch Pick(t, label+".lenclass", w...) {
	case 0:
		hi := min + 20
		if hi > max {
			hi = max
		}
		return rapid.IntRange(min, hi).Draw(t, label+".len")
	case 1:
		return rapid.SampledFrom(ok).Draw(t, label+".len")
	default:
		hi := max
		if hi > 2000 {
			hi = 2000 // really large values come from the dedicated big-payload generator
		}
		if hi < min {
			hi = min
		}
		return rapid.IntRange(min, hi).Draw(t, label+".len")
	}
}

func BytesLen(t *rapid.T, label string, min, max int, boundary ...int) model.Bytes {
	return Fill(t, label, Len(t, label, min, max, boundary...))
}

func u8(t *rapid.T, label string) uint8 { return rapid.Uint8().Draw(t, label) }

func u16b(t *rapid.T, label string, boundary ...uint16) uint16 {
	if len(boundary) > 0 && rapid.IntRange(0, 2).Draw(t, label+".b") == 2 {
		return rapid.SampledFrom(boundary).Draw(t, label)
	}
	return rapid.Uint16().Draw(t, label)
}

// Opts steer the message generator.
type Opts struct {
	MaxPayloads int // default 12
	MaxChain    int // maximum total size of the payload chain (default: no limit but each payload <= 65535)
	NoBig       bool
	// OnlyKinds restricts the payload kinds (nil = all 15).
	OnlyKinds []string
}

func Header(t *rapid.T) model.Header {
	h := model.Header{
		ISPI:     rapid.Uint64().Draw(t, "ispi"),
		RSPI:     rapid.Uint64().Draw(t, "rspi"),
		Major:    uint8(rapid.IntRange(0, 15).Draw(t, "major")),
		Minor:    uint8(rapid.IntRange(0, 15).Draw(t, "minor")),
		Exchange: u8(t, "exch"),
		Flags:    u8(t, "flags"),
		MsgID:    rapid.Uint32().Draw(t, "msgid"),
	}
	if rapid.IntRange(0, 5).Draw(t, "hdr.edges") == 5 {
		// ... and SPIs whose first octets are what a transport shim looks for at the start of a datagram: the RFC 8229 stream
		// prefix "IKETCP", the four zero octets of the non-ESP marker (RFC 3948), the 0xff of a NAT keep-alive
		h.ISPI = rapid.SampledFrom([]uint64{0, 1, 1<<63 - 1, 1 << 63, 1<<64 - 1, h.ISPI, 0x494b455443500000 | h.ISPI&0xffff, h.ISPI & 0xffffffff, 0xff00000000000000 | h.ISPI>>8}).Draw(t, "ispi.edge")
		h.RSPI = rapid.SampledFrom([]uint64{0, 1, 1<<64 - 1, h.ISPI, h.RSPI}).Draw(t, "rspi.edge")
		h.MsgID = rapid.SampledFrom([]uint32{0, 1, 0x7fffffff, 0x80000000, 0xffffffff, h.MsgID}).Draw(t, "msgid.edge")
		h.Exchange = rapid.SampledFrom([]uint8{0, 33, 34, 37, 38, 255, h.Exchange}).Draw(t, "exch.edge")
		h.Flags = rapid.SampledFrom([]uint8{0, 0xff, 0x10, 0x38, 0xc7, h.Flags}).Draw(t, "flags.edge")
	}
	if rapid.IntRange(0, 3).Draw(t, "hdr.typical") == 3 {
		h.Major, h.Minor = 2, 0
		h.Exchange = uint8(rapid.IntRange(34, 37).Draw(t, "exch2"))
		h.Flags = rapid.SampledFrom([]uint8{0, 0x08, 0x20, 0x28}).Draw(t, "flags2")
	}
	return h
}

// Message draws a message of the encodable domain.
func Message(t *rapid.T, o Opts) model.Message {
	m := model.Message{Header: Header(t)}
	m.Payloads = Payloads(t, o)
	if rapid.IntRange(0, 7).Draw(t, "msg.relate") == 7 {
		// relate may lengthen SPIs: the message stays within the chain budget of the caller (a protected message has one), or
		// it stays as it was
		before := model.JSON(m)
		relate(t, &m)
		if o.MaxChain > 0 && model.ChainSize(m.Payloads) > o.MaxChain {
			var back model.Message
			if err := json.Unmarshal(before, &back); err != nil {
				panic("gen: " + err.Error())
			}
			m = back
		}
	}
	return m
}

// relate makes a field of one payload EQUAL to a field elsewhere in the message, as happens in genuine exchanges: a proposal
// or notification carrying the IKE SPI of the header, the KE group naming the group of a proposal, the header of an initial
// exchange, a nonce equal to the key exchange value.
func relate(t *rapid.T, m *model.Message) {
	spi := func() model.Bytes {
		v := m.Header.ISPI
		if rapid.Bool().Draw(t, "rel.rspi") {
			v = m.Header.RSPI
		}
		out := make(model.Bytes, 8)
		for i := 0; i < 8; i++ {
			out[i] = byte(v >> (56 - 8*uint(i)))
		}
		return out
	}
	if rapid.Bool().Draw(t, "rel.init") {
		m.Header.Exchange = rapid.SampledFrom([]uint8{34, 34, 36}).Draw(t, "rel.exch")
		m.Header.Major, m.Header.Minor = 2, 0
		if rapid.Bool().Draw(t, "rel.nonzero") && m.Header.ISPI == 0 {
			m.Header.ISPI = 0x0102030405060708
		}
	}
	var group uint16
	haveGroup := false
	for i := range m.Payloads {
		p := &m.Payloads[i]
		switch {
		case p.SA != nil:
			if model.PayloadSize(*p) > 60000 {
				continue // no room left for longer SPIs
			}
			for j := range p.SA.Proposals {
				pr := &p.SA.Proposals[j]
				if rapid.IntRange(0, 2).Draw(t, "rel.propspi") != 0 {
					pr.SPI = spi()
					pr.Protocol = rapid.SampledFrom([]uint8{1, 1, 1, 2, 3}).Draw(t, "rel.proto")
				}
				if j > 0 && rapid.IntRange(0, 2).Draw(t, "rel.propsame") == 0 {
					// the same number, protocol and SPI as the proposal before it
					q := p.SA.Proposals[j-1]
					pr.Number, pr.Protocol, pr.SPI = q.Number, q.Protocol, append(model.Bytes(nil), q.SPI...)
				}
				for _, tr := range pr.Transforms {
					if tr.Type == 4 {
						group, haveGroup = tr.ID, true
					}
				}
			}
		case p.Notify != nil && model.PayloadSize(*p) < 60000 && rapid.Bool().Draw(t, "rel.notifyspi"):
			p.Notify.SPI = spi()
			p.Notify.Protocol = 1
		case p.KE != nil && haveGroup && rapid.Bool().Draw(t, "rel.kegroup"):
			p.KE.Group = group
		}
	}
}

// allowLarge: payloads of tens of KiB may be drawn (set by Payloads from Opts.NoBig for the duration of the call)
var allowLarge bool

func Payloads(t *rapid.T, o Opts) []model.Payload {
	defer func(prev bool) { allowLarge = prev }(allowLarge)
	allowLarge = !o.NoBig
	if o.MaxPayloads == 0 {
		o.MaxPayloads = 12
		if o.OnlyKinds == nil && (o.MaxChain == 0 || o.MaxChain >= 62000) && rapid.IntRange(0, 39).Draw(t, "manypayloads") == 39 {
			// a long chain of small payloads (no limit on their number exists in the format)
			n := rapid.SampledFrom([]int{64, 127, 128, 129, 200, 255, 256, 257, 300}).Draw(t, "npayloads.many")
			small := []string{model.KNonce, model.KVendor, model.KNotify, model.KDelete, model.KKE, model.KIDi, model.KCP}
			var ps []model.Payload
			for i := 0; i < n; i++ {
				k := small[rapid.IntRange(0, len(small)-1).Draw(t, "kind.many")]
				var p model.Payload
				switch k {
				case model.KNonce, model.KVendor:
					p = model.Payload{Kind: k, Data: model.Bytes{byte(i), byte(i >> 8), 0x5a}}
				case model.KNotify:
					p = model.Payload{Kind: k, Notify: &model.Notify{Protocol: 1, Type: uint16(16384 + i%60), Data: model.Bytes{byte(i)}}}
				default:
					p = Payload(t, k, true)
					if model.PayloadSize(p) > 200 {
						p = model.Payload{Kind: model.KNonce, Data: model.Bytes{byte(i)}}
					}
				}
				ps = append(ps, p)
			}
			return ps
		}
	}
	kinds := o.OnlyKinds
	if kinds == nil {
		kinds = model.Kinds
	}
	budget := o.MaxChain
	if budget == 0 {
		budget = 1 << 30
	}
	var n int
	switch Pick(t, "npayloads.class", 1, 3, 8, 3, 1) {
	case 0:
		n = 0
	case 1:
		n = 1
	case 2:
		hi := 5
		if hi > o.MaxPayloads {
			hi = o.MaxPayloads
		}
		n = rapid.IntRange(minInt(2, hi), hi).Draw(t, "npayloads")
	case 3:
		lo := 6
		if lo > o.MaxPayloads {
			lo = o.MaxPayloads
		}
		n = rapid.IntRange(lo, o.MaxPayloads).Draw(t, "npayloads")
	default:
		n = -1 // all kinds once, shuffled
	}
	var ps []model.Payload
	if n == -1 {
		perm := rapid.Permutation(kinds).Draw(t, "kindperm")
		for _, k := range perm {
			p := Payload(t, k, false)
			if s := model.PayloadSize(p); s <= budget {
				budget -= s
				ps = append(ps, p)
			}
		}
		return ps
	}
	bigAt := -1
	if !o.NoBig && n > 0 && rapid.IntRange(0, 24).Draw(t, "bigpayload") == 24 {
		bigAt = rapid.IntRange(0, n-1).Draw(t, "bigat")
	}
	prevKind := ""
	for i := 0; i < n; i++ {
		k := rapid.SampledFrom(kinds).Draw(t, "kind")
		if prevKind != "" && rapid.IntRange(0, 5).Draw(t, "samekind") == 5 {
			k = prevKind // two payloads of the same kind next to each other
		}
		prevKind = k
		var p model.Payload
		if i == bigAt {
			lim := 65535
			if budget < lim {
				lim = budget
			}
			if lim >= 1000 {
				p = BigPayload(t, k, lim)
			} else {
				p = Payload(t, k, false)
			}
		} else {
			p = Payload(t, k, false)
		}
		s := model.PayloadSize(p)
		if s > budget {
			continue
		}
		budget -= s
		ps = append(ps, p)
	}
	// the very same payload once more somewhere in the list (the bridge then uses ONE library object for both places, as a
	// caller does who appends a payload it already holds: a Notify sent twice, one vendor id before and after)
	if len(ps) > 0 && len(ps) < o.MaxPayloads && rapid.IntRange(0, 7).Draw(t, "repeat-object") == 7 {
		src := ps[rapid.IntRange(0, len(ps)-1).Draw(t, "repeat-src")]
		if s := model.PayloadSize(src); s <= budget && s < 4000 {
			at := rapid.IntRange(0, len(ps)).Draw(t, "repeat-at")
			out := append([]model.Payload(nil), ps[:at]...)
			out = append(out, src)
			ps = append(out, ps[at:]...)
		}
	}
	return ps
}

// BigPayload draws a payload of kind k whose encoded size is close to (at most) limit<=65535.
func BigPayload(t *rapid.T, k string, limit int) model.Payload {
	if limit > 65535 {
		limit = 65535
	}
	target := limit - rapid.SampledFrom([]int{0, 0, 1, 2, 3, 16, 300, limit / 2}).Draw(t, "big.slack")
	p := Payload(t, k, true)
	// grow one variable field until the payload reaches target
	grow := func(cur *model.Bytes) {
		need := target - model.PayloadSize(p) + len(*cur)
		if need > len(*cur) {
			*cur = Fill(t, "big.data", need)
		}
	}
	switch {
	case p.KE != nil:
		grow(&p.KE.Data)
	case p.ID != nil:
		grow(&p.ID.Data)
	case p.Cert != nil:
		grow(&p.Cert.Data)
	case p.Auth != nil:
		grow(&p.Auth.Data)
	case p.Notify != nil:
		grow(&p.Notify.Data)
	case p.CP != nil:
		grow(&p.CP.Attrs[len(p.CP.Attrs)-1].Value)
	case p.SA != nil:
		// a TLV attribute with a large value
		pr := &p.SA.Proposals[len(p.SA.Proposals)-1]
		tr := &pr.Transforms[len(pr.Transforms)-1]
		if !excl("sa-tlv") {
			tr.Attr = &model.Attr{TV: false, Type: uint16(rapid.IntRange(0, 0x7fff).Draw(t, "big.attrtype"))}
			if excl2 := Exclude["sa-attrtype128"]; excl2 {
				tr.Attr.Type &= 0x7f
			}
			tr.Attr.Var = model.Bytes{1}
			need := target - model.PayloadSize(p) + 1
			if need > 1 {
				tr.Attr.Var = Fill(t, "big.data", need)
			}
		}
	case p.EAP != nil:
		switch p.EAP.Kind {
		case model.EIdentity, model.ENotification, model.ENak, model.EExpanded:
			grow(&p.EAP.Data)
		}
	case p.Kind == model.KNonce || p.Kind == model.KVendor:
		grow(&p.Data)
	}
	if model.PayloadSize(p) > 65535 {
		panic("gen: big payload exceeds 16 bits")
	}
	return p
}

// Payload draws one payload of the given kind. small keeps nested counts minimal.
func Payload(t *rapid.T, k string, small bool) model.Payload {
	p := model.Payload{Kind: k}
	switch k {
	case model.KSA:
		p.SA = SA(t, small)
	case model.KKE:
		p.KE = &model.KE{Group: u16b(t, "ke.group", 2, 14, 0, 65535), Data: BytesLen(t, "ke.data", 1, 600, 1, 128, 256)}
		if rapid.IntRange(0, 5).Draw(t, "ke.shaped") == 5 {
			p.KE.Group, p.KE.Data = KEShaped(t)
		}
	case model.KIDi, model.KIDr:
		p.ID = &model.ID{Type: u8(t, "id.type"), Data: BytesLen(t, "id.data", 1, 300, 1, 4, 16)}
		if rapid.IntRange(0, 4).Draw(t, "id.text") == 4 {
			// identities that are text (mixed case, trailing dot, NUL) under the ID types that carry text - and under any other
			p.ID.Data = model.Bytes(rapid.SampledFrom([]string{"Host.Example.ORG", "User@Example.ORG", "gw.example.org.", "UPPER", "a\x00b", "xn--Bcher-kva.example"}).Draw(t, "id.textdata"))
			if rapid.Bool().Draw(t, "id.3gpp") {
				if id := Identity(t, "id.identity"); id != "" {
					p.ID.Data = model.Bytes(id)
				}
			}
			if rapid.Bool().Draw(t, "id.texttype") {
				p.ID.Type = rapid.SampledFrom([]uint8{2, 3, 11}).Draw(t, "id.texttype2")
			}
		}
	case model.KCERT, model.KCERTREQ:
		p.Cert = &model.Cert{Encoding: u8(t, "cert.enc"), Data: BytesLen(t, "cert.data", 1, 1500, 1, 20)}
		if rapid.IntRange(0, 5).Draw(t, "cert.pem") == 5 {
			// the octets a PEM-armoured certificate consists of (with the encoding that usually goes with it, or any)
			p.Cert.Data = model.Bytes("-----BEGIN CERTIFICATE-----\nMIIBszCCAVmgAwIBAgIUQ0FGRUJBQkU=\n-----END CERTIFICATE-----\n")
			if rapid.Bool().Draw(t, "cert.x509") {
				p.Cert.Encoding = 4
			}
		} else if k == model.KCERTREQ && rapid.IntRange(0, 3).Draw(t, "certreq.hashes") == 3 {
			// a certificate request is a list of 20-octet hashes of trust anchors: some of them listed twice
			var hs []model.Bytes
			for i := rapid.IntRange(1, 3).Draw(t, "certreq.n"); i > 0; i-- {
				hs = append(hs, Fill(t, "certreq.hash", 20))
			}
			p.Cert.Data = nil
			for i := rapid.IntRange(2, 6).Draw(t, "certreq.len"); i > 0; i-- {
				p.Cert.Data = append(p.Cert.Data, hs[rapid.IntRange(0, len(hs)-1).Draw(t, "certreq.pick")]...)
			}
			p.Cert.Encoding = rapid.SampledFrom([]uint8{4, 4, 4, 12, 13}).Draw(t, "certreq.enc")
		} else if rapid.IntRange(0, 5).Draw(t, "cert.der") == 5 {
			p.Cert.Data = DERLike(t, "cert.der")
			if rapid.IntRange(0, 3).Draw(t, "cert.x509") != 0 {
				p.Cert.Encoding = rapid.SampledFrom([]uint8{4, 4, 4, 1, 7, 12, 13}).Draw(t, "cert.derenc")
			}
		}
	case model.KAUTH:
		p.Auth = &model.Auth{Method: u8(t, "auth.method"), Data: BytesLen(t, "auth.data", 1, 600, 1, 12, 20, 32, 256)}
	case model.KNonce:
		p.Data = BytesLen(t, "nonce", 0, 300, 0, 16, 32, 256)
	case model.KVendor:
		p.Data = VendorID(t)
	case model.KNotify:
		p.Notify = Notify(t)
	case model.KDelete:
		p.Delete = Delete(t)
	case model.KTSi, model.KTSr:
		p.TS = TS(t, small)
	case model.KCP:
		p.CP = CP(t, small)
	case model.KEAP:
		e := EAP(t, true)
		p.EAP = &e
	default:
		panic("gen: kind " + k)
	}
	return p
}

func spiLen(t *rapid.T, label string, critical int) int {
	return Len(t, label, 0, 255, 0, 1, 4, 8, 16, 247, 248, 251, 252, 255)
}

func SA(t *rapid.T, small bool) *model.SA {
	sa := &model.SA{}
	np := 1
	if !small {
		np = []int{0, 1, 1, 1, 2, 3}[rapid.IntRange(0, 5).Draw(t, "sa.nprop")]
		if np == 3 {
			np = rapid.IntRange(3, 6).Draw(t, "sa.nprop2")
		}
	}
	for i := 0; i < np; i++ {
		sa.Proposals = append(sa.Proposals, Proposal(t, small))
	}
	return sa
}

func Proposal(t *rapid.T, small bool) model.Proposal {
	pr := model.Proposal{Number: u8(t, "prop.num"), Protocol: u8(t, "prop.proto")}
	n := spiLen(t, "prop.spi", 248)
	if n >= 248 && excl("sa-spi248") {
		n = 8
	}
	pr.SPI = Fill(t, "prop.spi", n)
	nt := 1
	if !small {
		nt = Len(t, "prop.ntrans", 1, 255, 1, 2, 5, 6, 255)
		if nt > 12 && rapid.IntRange(0, 3).Draw(t, "prop.manytrans") != 0 {
			nt = rapid.IntRange(1, 8).Draw(t, "prop.ntrans2")
		}
	}
	for i := 0; i < nt; i++ {
		pr.Transforms = append(pr.Transforms, Transform(t))
	}
	return pr
}

var attrTypeBoundary = []uint16{0, 1, 13, 14, 15, 127, 128, 142, 255, 256, 0x3fff, 0x4000, 0x400e, 0x7fff}

func Transform(t *rapid.T) model.Transform {
	tr := model.Transform{Type: uint8(rapid.IntRange(1, 5).Draw(t, "tr.type")), ID: u16b(t, "tr.id", 0, 1, 2, 5, 12, 14, 65535)}
	switch Pick(t, "tr.attr", 5, 4, 2) {
	case 1:
		tr.Attr = &model.Attr{TV: true, Type: attrType(t), Value: u16b(t, "attr.value", 0, 128, 192, 256, 65535)}
	case 2:
		if !excl("sa-tlv") {
			tr.Attr = &model.Attr{TV: false, Type: attrType(t), Var: BytesLen(t, "attr.var", 1, 300, 1, 2, 3, 4, 255, 256)}
		}
	}
	return tr
}

func attrType(t *rapid.T) uint16 {
	v := u16b(t, "attr.type", attrTypeBoundary...) & 0x7fff
	if v >= 128 && excl("sa-attrtype128") {
		v &= 0x7f
	}
	return v
}

func Notify(t *rapid.T) *model.Notify {
	n := &model.Notify{Protocol: u8(t, "n.proto"), Type: u16b(t, "n.type", 0, 1, 16384, 16388, 55501, 65535)}
	l := spiLen(t, "n.spi", 252)
	if l >= 252 && excl("notify-spi252") {
		l = 4
	}
	n.SPI = Fill(t, "n.spi", l)
	n.Data = BytesLen(t, "n.data", 0, 600, 0, 1, 20)
	return n
}

func Delete(t *rapid.T) *model.Delete {
	d := &model.Delete{Protocol: u8(t, "d.proto")}
	if rapid.Bool().Draw(t, "d.withspis") {
		d.SPISize = 4
		n := Len(t, "d.count", 0, 400, 0, 1, 2, 255, 256)
		if allowLarge && rapid.IntRange(0, 39).Draw(t, "d.many") == 39 {
			n = rapid.SampledFrom([]int{4096, 8191, 8192, 16380, 16381}).Draw(t, "d.count.many") // up to the most that fit a payload
		}
		for i := 0; i < n; i++ {
			d.SPIs = append(d.SPIs, rapid.Uint32().Draw(t, "d.spi"))
		}
		d.Count = uint16(n)
	}
	return d
}

func TS(t *rapid.T, small bool) *model.TS {
	ts := &model.TS{}
	n := 1
	if !small {
		n = Len(t, "ts.count", 1, 255, 1, 2, 255)
	}
	for i := 0; i < n; i++ {
		sel := Selector(t)
		// a selector RELATED to the one before it: the same, or the adjacent address range (start = previous end + 1) with the
		// same type, protocol and ports - which a decoder or builder might be tempted to merge
		if i > 0 && rapid.IntRange(0, 5).Draw(t, "sel.related") == 5 {
			prev := ts.Selectors[i-1]
			sel = prev
			switch rapid.IntRange(0, 3).Draw(t, "sel.relation") {
			case 0:
				sel.StartAddr = addrSucc(prev.EndAddr)
				sel.EndAddr = addrSucc(addrSucc(sel.StartAddr))
			case 1:
				// ONE packet's selector inside a selector listed earlier (RFC 7296 2.9: the first selector of a TSi / TSr may be
				// the packet that triggered the negotiation): single address, single port, a definite protocol
				first := ts.Selectors[rapid.IntRange(0, i-1).Draw(t, "sel.container")]
				sel = first
				sel.EndAddr = append(model.Bytes(nil), sel.StartAddr...)
				if rapid.Bool().Draw(t, "sel.inner") {
					sel.StartAddr = append(model.Bytes(nil), first.EndAddr...)
					sel.EndAddr = append(model.Bytes(nil), first.EndAddr...)
				}
				sel.EndPort = sel.StartPort
				if sel.Protocol == 0 || rapid.Bool().Draw(t, "sel.proto17") {
					sel.Protocol = rapid.SampledFrom([]uint8{1, 6, 17, 58}).Draw(t, "sel.protoval")
				}
			}
		}
		ts.Selectors = append(ts.Selectors, sel)
	}
	return ts
}

// addrSucc returns the address after a (wrapping around at the all-ones address).
func addrSucc(a model.Bytes) model.Bytes {
	out := append(model.Bytes(nil), a...)
	for i := len(out) - 1; i >= 0; i-- {
		out[i]++
		if out[i] != 0 {
			break
		}
	}
	return out
}

// wellKnownVendorIDs: vendor ids that implementations look for (with and without their trailing version octets)
var wellKnownVendorIDs = []string{
	"afcad71368a1f1c96b8696fc77570100", "afcad71368a1f1c96b8696fc7757", // DPD (RFC 3706)
	"4048b7d56ebce88525e7de7f00d6c2d3", "4048b7d56ebce88525e7de7f00d6c2d380000000", // FRAGMENTATION
	"4a131c81070358455c5728f20e95452f",                                     // NAT-T RFC 3947
	"7d9419a65310ca6f2c179d9215529d56", "90cb80913ebb696e086381b5ec427b1f", // NAT-T drafts
	"882fe56d6fd20dbc2251613b2ebe5beb",                                 // strongSwan
	"12f5f28c457168a9702d9fe274cc0100", "12f5f28c457168a9702d9fe274cc", // Cisco Unity
	"09002689dfd6b712",                         // XAUTH
	"1e2b516905991c7d7c96fcbfb587e46100000009", // MS NT5 ISAKMPOAKLEY
	"4f45755c645c6a795c5c6170",                 // Openswan
	"43697363 6f2d44656c6574652d526561736f6e",  // Cisco delete reason (text)
}

// KnownVendorIDs returns the well-known vendor ids as octet strings.
func KnownVendorIDs() []model.Bytes {
	var out []model.Bytes
	for _, h := range wellKnownVendorIDs {
		out = append(out, unhex(h))
	}
	return out
}

func unhex(hexs string) model.Bytes {
	var out model.Bytes
	var v byte
	n := 0
	for i := 0; i < len(hexs); i++ {
		c := hexs[i]
		var d byte
		switch {
		case c >= '0' && c <= '9':
			d = c - '0'
		case c >= 'a' && c <= 'f':
			d = c - 'a' + 10
		default:
			continue
		}
		v = v<<4 | d
		n++
		if n%2 == 0 {
			out = append(out, v)
			v = 0
		}
	}
	return out
}

// VendorID draws vendor id data: arbitrary octets, or one of the ids implementations look for (possibly with a tail).
func VendorID(t *rapid.T) model.Bytes {
	if rapid.IntRange(0, 5).Draw(t, "vendor.known") != 5 {
		return BytesLen(t, "vendor", 0, 300, 0, 16)
	}
	out := unhex(rapid.SampledFrom(wellKnownVendorIDs).Draw(t, "vendor.id"))
	if rapid.IntRange(0, 3).Draw(t, "vendor.tail") == 3 {
		out = append(out, rapid.SliceOfN(rapid.Byte(), 1, 4).Draw(t, "vendor.tailoctets")...)
	}
	return out
}

func Selector(t *rapid.T) model.Selector {
	s := model.Selector{Protocol: u8(t, "sel.proto"), StartPort: rapid.Uint16().Draw(t, "sel.sport"), EndPort: rapid.Uint16().Draw(t, "sel.eport")}
	if rapid.Bool().Draw(t, "sel.v6") {
		s.Type = 8
		s.StartAddr = Addr(t, "sel.saddr", 16)
		s.EndAddr = Addr(t, "sel.eaddr", 16)
	} else {
		s.Type = 7
		s.StartAddr = Addr(t, "sel.saddr", 4)
		s.EndAddr = Addr(t, "sel.eaddr", 4)
	}
	return s
}

// Addr draws an IPv4 (n = 4) or IPv6 (n = 16) address: arbitrary octets, or one of the addresses that mean something to
// address-handling code (unspecified, broadcast, loopback, multicast, link-local, IPv4-mapped and IPv4-compatible IPv6).
func Addr(t *rapid.T, label string, n int) model.Bytes {
	if n != 4 && n != 16 {
		return Fill(t, label, n)
	}
	k := rapid.IntRange(0, 15).Draw(t, label+".class")
	if k > 8 {
		return Fill(t, label, n)
	}
	v4 := rapid.SliceOfN(rapid.Byte(), 4, 4).Draw(t, label+".v4")
	switch k {
	case 0:
		v4 = []byte{0, 0, 0, 0}
	case 1:
		v4 = []byte{255, 255, 255, 255}
	case 2:
		v4 = []byte{127, 0, 0, 1}
	case 3:
		v4 = []byte{224, 0, 0, 1}
	case 4:
		v4[0] = 10
	case 5, 6, 7, 8:
		if n == 4 {
			// the special-purpose IPv4 blocks (RFC 6890): link-local, private, shared, documentation, benchmarking, 6to4 relay,
			// multicast, reserved, "this network"
			pre := rapid.SampledFrom([][]byte{{169, 254}, {192, 168}, {172, 16}, {172, 31}, {100, 64}, {192, 0, 2}, {198, 18}, {198, 51, 100},
				{203, 0, 113}, {192, 88, 99}, {192, 0, 0}, {239, 255}, {240}, {0}, {127}, {169, 254, 169, 254}, {255, 255, 255}}).Draw(t, label+".block")
			copy(v4, pre)
		}
	}
	if n == 4 {
		return append(model.Bytes(nil), v4...)
	}
	out := make(model.Bytes, 16)
	switch k {
	case 0: // ::
	case 1:
		for i := range out {
			out[i] = 0xff
		}
	case 2:
		out[15] = 1 // ::1
	case 3:
		out[0], out[1], out[15] = 0xff, 0x02, 1 // ff02::1
	case 4:
		out[0], out[1] = 0xfe, 0x80 // fe80::/10 + interface id
		copy(out[12:], v4)
	case 5, 6:
		out[10], out[11] = 0xff, 0xff // ::ffff:a.b.c.d (IPv4-mapped)
		copy(out[12:], v4)
	case 7:
		copy(out[12:], v4) // ::a.b.c.d (IPv4-compatible)
	case 8:
		out[0], out[1] = 0x00, 0x64
		out[2], out[3] = 0xff, 0x9b // 64:ff9b::a.b.c.d (NAT64)
		copy(out[12:], v4)
	}
	return out
}

func CP(t *rapid.T, small bool) *model.CP {
	c := &model.CP{Type: u8(t, "cp.type")}
	n := 1
	if !small {
		n = Len(t, "cp.nattr", 1, 40, 1, 2)
	}
	for i := 0; i < n; i++ {
		c.Attrs = append(c.Attrs, model.CPAttr{
			Type:  u16b(t, "cp.attrtype", 0, 1, 8, 13, 0x3fff, 0x4000, 0x7fff) & 0x7fff,
			Value: BytesLen(t, "cp.value", 0, 600, 0, 1, 4, 8, 16, 17, 255, 256),
		})
	}
	return c
}

// EAP draws an EAP packet. domain=true restricts to the C01/C03 domain (Success/Failure bare,
// Request/Response with a method); domain=false additionally allows any code and bare packets
// with any code (C14).
func EAP(t *rapid.T, domain bool) model.EAP {
	e := model.EAP{Identifier: u8(t, "eap.id")}
	kind := Pick(t, "eap.kind", 2, 2, 1, 1, 4, 8)
	if kind == 0 {
		e.Kind = model.ENone
		if domain {
			e.Code = uint8(rapid.IntRange(3, 4).Draw(t, "eap.code"))
		} else {
			e.Code = u8(t, "eap.code")
		}
		return e
	}
	if domain || rapid.IntRange(0, 3).Draw(t, "eap.typicalcode") != 0 {
		e.Code = uint8(rapid.IntRange(1, 2).Draw(t, "eap.code"))
	} else {
		e.Code = u8(t, "eap.code")
	}
	switch kind {
	case 1:
		// data lengths around the places where the 16-bit packet length crosses an octet boundary (total = 5 + data)
		e.Kind = model.EIdentity
		e.Data = BytesLen(t, "eap.data", 1, 1100, 1, 250, 251, 252, 255, 505, 506, 507, 508, 761, 762, 1018, 1019, 1020)
		if rapid.IntRange(0, 5).Draw(t, "eap.identity") == 5 {
			if id := Identity(t, "eap.identity"); id != "" {
				e.Data = model.Bytes(id)
			}
		}
	case 2:
		e.Kind = model.ENotification
		e.Data = BytesLen(t, "eap.data", 1, 1100, 1, 250, 251, 252, 506, 507)
	case 3:
		e.Kind = model.ENak
		e.Data = BytesLen(t, "eap.data", 1, 600, 1, 250, 251, 252, 506, 507)
	case 4:
		e.Kind = model.EExpanded
		switch v := rapid.IntRange(0, 7).Draw(t, "eap.vendorclass"); {
		case v <= 3:
			e.VendorID, e.VendorType = 10415, 3
		case v == 4:
			// IETF vendor id 0 with a type that also exists as a native EAP method (RFC 3748 5.7), or its neighbours
			e.VendorID, e.VendorType = 0, rapid.SampledFrom([]uint32{0, 1, 2, 3, 4, 50, 254, 255}).Draw(t, "eap.vtype0")
		default:
			e.VendorID = uint32(rapid.IntRange(0, 1<<24-1).Draw(t, "eap.vid"))
			e.VendorType = rapid.Uint32().Draw(t, "eap.vtype")
		}
		e.Data = BytesLen(t, "eap.vdata", 0, 1100, 0, 1, 2, 4, 243, 244, 245, 498, 499, 500, 501, 1011, 1012)
		if e.VendorID == 10415 && e.VendorType == 3 && rapid.IntRange(0, 2).Draw(t, "eap.5gstructured") == 2 {
			e.Data = EAP5GData(t)
		}
	default:
		e.Kind = model.EAka
		e.Sub = u8(t, "aka.sub")
		if rapid.IntRange(0, 2).Draw(t, "aka.typicalsub") == 2 {
			e.Sub = rapid.SampledFrom([]uint8{1, 2, 4, 5, 12, 13, 14, 0}).Draw(t, "aka.sub2")
		}
		e.Attrs = AkaAttrs(t)
	}
	return e
}

// EAP5GData draws vendor data laid out like a TS 24.502 EAP-5G message: message id, spare, [AN-parameter length and
// parameters,] NAS-PDU length and NAS-PDU - with lengths that are consistent or off by a little, and possibly octets behind
// the NAS-PDU ("extensions").
func EAP5GData(t *rapid.T) model.Bytes {
	id := rapid.SampledFrom([]uint8{1, 2, 2, 2, 3, 4, 0}).Draw(t, "5g.msgid")
	out := model.Bytes{id, 0}
	put16 := func(n int) { out = append(out, byte(n>>8), byte(n)) }
	fudge := func(label string, n int) int {
		switch rapid.IntRange(0, 7).Draw(t, label) {
		case 6:
			return n + 1
		case 7:
			if n > 0 {
				return n - 1
			}
		}
		return n
	}
	if rapid.Bool().Draw(t, "5g.anparams") {
		an := rapid.SliceOfN(rapid.Byte(), 0, 24).Draw(t, "5g.an")
		put16(fudge("5g.anlen", len(an)))
		out = append(out, an...)
	}
	nas := append(model.Bytes{rapid.SampledFrom([]byte{0x7e, 0x2e, 0x00}).Draw(t, "5g.epd")}, rapid.SliceOfN(rapid.Byte(), 0, 40).Draw(t, "5g.nas")...)
	put16(fudge("5g.naslen", len(nas)))
	out = append(out, nas...)
	if rapid.Bool().Draw(t, "5g.extensions") {
		out = append(out, rapid.SliceOfN(rapid.Byte(), 1, 12).Draw(t, "5g.ext")...)
	}
	return out
}

var akaTypes = []uint8{model.AT_RAND, model.AT_AUTN, model.AT_RES, model.AT_MAC, model.AT_KDF_INPUT, model.AT_KDF, model.AT_CHECKCODE}

// AkaAttrs draws a subset of the settable attributes, ascending by type.
func AkaAttrs(t *rapid.T) []model.AkaAttr {
	var out []model.AkaAttr
	all := rapid.IntRange(0, 7).Draw(t, "aka.all") == 7
	for _, ty := range akaTypes {
		if !all && !rapid.Bool().Draw(t, "aka.has") {
			continue
		}
		if ty == model.AT_CHECKCODE && excl("aka-checkcode") {
			continue
		}
		out = append(out, model.AkaAttr{Type: ty, Value: AkaValue(t, ty)})
	}
	// ascending type order
	for i := 1; i < len(out); i++ {
		for j := i; j > 0 && out[j].Type < out[j-1].Type; j-- {
			out[j], out[j-1] = out[j-1], out[j]
		}
	}
	return out
}

func AkaValue(t *rapid.T, ty uint8) model.Bytes {
	switch ty {
	case model.AT_RAND, model.AT_AUTN, model.AT_MAC:
		return Fill(t, "aka.v16", 16)
	case model.AT_KDF:
		return Fill(t, "aka.kdf", 2)
	case model.AT_RES:
		n := rapid.SampledFrom([]int{4, 5, 6, 7, 8, 9, 12, 15, 16}).Draw(t, "aka.reslen")
		if n%4 != 0 && excl("aka-padded") {
			n = 8
		}
		return Fill(t, "aka.res", n)
	case model.AT_KDF_INPUT:
		n := Len(t, "aka.kdfinput", 0, 300, 0, 1, 3, 4, 5, 251, 252, 253, 255, 256, 300)
		if n%4 != 0 && excl("aka-padded") {
			n = n / 4 * 4
		}
		if n >= 252 && excl("aka-kdfinput252") {
			n = 248
		}
		if rapid.IntRange(0, 4).Draw(t, "aka.kdfinput.name") == 4 && !excl("aka-padded") && !excl("aka-kdfinput252") {
			return model.Bytes(NetworkName(t))
		}
		return Fill(t, "aka.kdfinput", n)
	case model.AT_CHECKCODE:
		if rapid.IntRange(0, 4).Draw(t, "aka.checkcode.known") == 4 {
			// the digests of NO octets (what a checkcode over an empty set of messages would be), and of one zero octet
			return unhex(rapid.SampledFrom([]string{
				"da39a3ee5e6b4b0d3255bfef95601890afd80709",
				"e3b0c44298fc1c149afbf4c8996fb92427ae41e4649b934ca495991b7852b855",
				"5ba93c9db0cff93f52b521d7420e43f6eda2784f",
				"6e340b9cffb37a989ca544e6bb780a2c78901d3fb33738768511a30617afa01d",
				"0000000000000000000000000000000000000000",
			}).Draw(t, "aka.checkcode.digest"))
		}
		return Fill(t, "aka.checkcode", rapid.SampledFrom([]int{0, 20, 32}).Draw(t, "aka.cclen"))
	}
	panic("gen: aka type")
}

// RawBytes draws an arbitrary byte string, mostly short.
func RawBytes(t *rapid.T, label string, max int) []byte {
	switch Pick(t, label+".class", 10, 4, 1) {
	case 0:
		return rapid.SliceOfN(rapid.Byte(), 0, 64).Draw(t, label)
	case 1:
		n := rapid.IntRange(0, 300).Draw(t, label+".n")
		return Fill(t, label, n)
	default:
		n := rapid.IntRange(0, max).Draw(t, label+".n")
		return Fill(t, label, n)
	}
}

func minInt(a, b int) int {
	if a < b {
		return a
	}
	return b
}

// KEShape is a key exchange value with the size (and format) that goes with its group.
type KEShape struct {
	Group uint16
	Data  model.Bytes
}

// KEShapes enumerates, for every group of the IANA registry with a fixed value size (MODP groups at their modulus length, ECP
// groups as x|y, the Curve groups at 32 / 56 octets), the value in the formats somebody might send or look for: exactly the
// size, as a SEC1 uncompressed point (0x04 in front), with a zero octet in front, with the first four octets of the payload
// body (group, RESERVED) repeated in front, one octet short, and exactly the size but starting 0x04 / 0x00.
func KEShapes() []KEShape {
	sizes := [][2]int{{1, 96}, {2, 128}, {5, 192}, {14, 256}, {15, 384}, {16, 512}, {17, 768}, {18, 1024}, {19, 64}, {20, 96}, {21, 132},
		{22, 128}, {23, 256}, {24, 256}, {25, 48}, {26, 56}, {27, 56}, {28, 64}, {29, 96}, {30, 128}, {31, 32}, {32, 56}, {33, 64}, {34, 128}}
	var out []KEShape
	for _, gs := range sizes {
		g, n := uint16(gs[0]), gs[1]
		fill := func(k int) model.Bytes {
			b := make(model.Bytes, k)
			for i := range b {
				b[i] = byte(i*7+int(g)) | 1
			}
			return b
		}
		lead := func(pre model.Bytes, k int) model.Bytes { return append(append(model.Bytes(nil), pre...), fill(k)...) }
		out = append(out, KEShape{g, fill(n)}, KEShape{g, lead(model.Bytes{4}, n)}, KEShape{g, lead(model.Bytes{0}, n)},
			KEShape{g, lead(model.Bytes{byte(g >> 8), byte(g), 0, 0}, n)}, KEShape{g, fill(n - 1)}, KEShape{g, lead(model.Bytes{4}, n-1)}, KEShape{g, lead(model.Bytes{0}, n-1)},
			KEShape{g, lead(model.Bytes{2}, n/2)}, KEShape{g, lead(model.Bytes{3}, n/2)}) // SEC1 compressed points
	}
	return out
}

// KEShaped draws one of KEShapes with the octets behind the first four drawn anew.
func KEShaped(t *rapid.T) (uint16, model.Bytes) {
	sh := rapid.SampledFrom(KEShapes()).Draw(t, "ke.shape")
	d := append(model.Bytes(nil), sh.Data...)
	if len(d) > 4 {
		copy(d[4:], Fill(t, "ke.shape.data", len(d)-4))
	}
	return sh.Group, d
}

// DERLike draws octets that begin like a DER SEQUENCE (30 82 LL LL / 30 81 LL / 30 LL) whose declared length is exactly the
// rest, shorter than the rest (octets behind the sequence) or longer than the rest.
func DERLike(t *rapid.T, label string) model.Bytes {
	body := rapid.SliceOfN(rapid.Byte(), 0, 400).Draw(t, label+".body")
	decl := len(body) + rapid.SampledFrom([]int{0, 0, -1, -7, 1, 9, 300, -len(body)}).Draw(t, label+".delta")
	if decl < 0 {
		decl = 0
	}
	var out model.Bytes
	switch form := rapid.IntRange(0, 3).Draw(t, label+".form"); {
	case form <= 1 || decl > 255:
		out = model.Bytes{0x30, 0x82, byte(decl >> 8), byte(decl)}
	case form == 2 || decl > 127:
		out = model.Bytes{0x30, 0x81, byte(decl)}
	default:
		out = model.Bytes{0x30, byte(decl)}
	}
	return append(out, body...)
}

// NetworkName draws an AT_KDF_INPUT value as it occurs: a 3GPP serving network name (TS 24.501 9.12.1, with a three-digit or a
// two-digit MNC, with or without NID), the names of RFC 5448 / 9048 examples, and near misses of them.
func NetworkName(t *rapid.T) string {
	digits := func(label string, n int) string {
		b := make([]byte, n)
		for i := range b {
			b[i] = byte('0' + rapid.IntRange(0, 9).Draw(t, label))
		}
		return string(b)
	}
	switch rapid.IntRange(0, 7).Draw(t, "nn.kind") {
	case 0:
		return "5G:mnc" + digits("nn.mnc", 3) + ".mcc" + digits("nn.mcc", 3) + ".3gppnetwork.org"
	case 1:
		return "5G:mnc" + digits("nn.mnc", 2) + ".mcc" + digits("nn.mcc", 3) + ".3gppnetwork.org"
	case 2:
		return "5G:mnc" + digits("nn.mnc", 3) + ".mcc" + digits("nn.mcc", 3) + ".3gppnetwork.org:" + digits("nn.nid", 11)
	case 3:
		return "5G:NSWO"
	case 4:
		return rapid.SampledFrom([]string{"WLAN", "HRPD", "WIMAX", "ETHERNET", "5G", "5G:", "5g:mnc01.mcc001.3gppnetwork.org", "mnc001.mcc001.3gppnetwork.org"}).Draw(t, "nn.other")
	case 5:
		return "5G:mnc" + digits("nn.mnc", rapid.IntRange(0, 4).Draw(t, "nn.nmnc")) + ".mcc" + digits("nn.mcc", rapid.IntRange(0, 4).Draw(t, "nn.nmcc"))
	case 6:
		return "5G:mnc" + digits("nn.mnc", 2) + ".mcc" + digits("nn.mcc", 3)
	}
	return "5G:mnc0" + digits("nn.mnc", 2) + ".mcc" + digits("nn.mcc", 3) + ".3gppnetwork.org"
}

// Identity draws an identity string as it occurs in EAP-AKA' and 5G: SUPI / IMSI notations, NAI forms with the leading
// digit of RFC 4187 / 5448 ('0' AKA, '6' AKA'), SUCI NAIs, anonymous identities - and arbitrary octets.
func Identity(t *rapid.T, label string) string {
	digits := func(n int) string {
		b := make([]byte, n)
		for i := range b {
			b[i] = byte('0' + rapid.IntRange(0, 9).Draw(t, label+".digit"))
		}
		return string(b)
	}
	realm := "@nai.5gc.mnc" + digits(3) + ".mcc" + digits(3) + ".3gppnetwork.org"
	switch rapid.IntRange(0, 11).Draw(t, label+".kind") {
	case 0:
		return "imsi-" + digits(15)
	case 1:
		return "imsi-" + digits(rapid.IntRange(0, 16).Draw(t, label+".n"))
	case 2:
		return rapid.SampledFrom([]string{"0", "6", "2", "7", "1"}).Draw(t, label+".lead") + digits(15) + realm
	case 3:
		return "type0.rid" + digits(2) + ".schid0.userid" + digits(10) + realm
	case 4:
		return "anonymous" + realm
	case 5:
		return rapid.SampledFrom([]string{"nai-", "suci-0-", "supi-", "IMSI-", "imsi", "imsi-", "gci-", "gli-", "imei-", "imeisv-", "mac-", "eui-"}).Draw(t, label+".prefix") + digits(rapid.IntRange(0, 15).Draw(t, label+".n2"))
	case 6:
		return digits(15)
	case 7:
		return digits(rapid.SampledFrom([]int{1, 5, 14, 16, 17, 20, 32, 64, 255}).Draw(t, label+".ndigits")) // digits only, of any length
	case 8:
		return rapid.SampledFrom([]string{"\xef\xbb\xbf", "", " ", "\t"}).Draw(t, label+".lead") + digits(15) + realm + rapid.SampledFrom([]string{"\r\n", "\n", "", " ", "\x00"}).Draw(t, label+".trail")
	case 9:
		return ""
	}
	return string(rapid.SliceOfN(rapid.Byte(), 0, 80).Draw(t, label+".raw"))
}

// Semantic draws a small message that MEANS something in the protocol (and might be taken for an instruction by code that
// looks at what it protects or unprotects): empty and Delete INFORMATIONAL exchanges, error and status notifications,
// re-keying requests, an IKE_AUTH exchange - as request and as response, from either end.
func Semantic(t *rapid.T) model.Message {
	h := model.Header{ISPI: rapid.Uint64().Draw(t, "sem.ispi") | 1, RSPI: rapid.Uint64().Draw(t, "sem.rspi") | 1, Major: 2,
		Flags: rapid.SampledFrom([]uint8{0x08, 0x00, 0x20, 0x28}).Draw(t, "sem.flags"), MsgID: uint32(rapid.IntRange(0, 5).Draw(t, "sem.msgid"))}
	spi4 := func() model.Bytes { return Fill(t, "sem.spi", 4) }
	notify := func(ty uint16, proto uint8, spi, data model.Bytes) model.Payload {
		return model.Payload{Kind: model.KNotify, Notify: &model.Notify{Protocol: proto, Type: ty, SPI: spi, Data: data}}
	}
	sa := func(proto uint8, spi model.Bytes) model.Payload {
		trs := []model.Transform{{Type: 1, ID: 12, Attr: &model.Attr{TV: true, Type: 14, Value: 256}}, {Type: 3, ID: 12}}
		if proto == 1 {
			trs = append(trs, model.Transform{Type: 2, ID: 5}, model.Transform{Type: 4, ID: 14})
		} else {
			trs = append(trs, model.Transform{Type: 5, ID: 0})
		}
		return model.Payload{Kind: model.KSA, SA: &model.SA{Proposals: []model.Proposal{{Number: 1, Protocol: proto, SPI: spi, Transforms: trs}}}}
	}
	ts := func(k string) model.Payload {
		return model.Payload{Kind: k, TS: &model.TS{Selectors: []model.Selector{{Type: 7, StartPort: 0, EndPort: 65535, StartAddr: model.Bytes{0, 0, 0, 0}, EndAddr: model.Bytes{255, 255, 255, 255}}}}}
	}
	nonce := model.Payload{Kind: model.KNonce, Data: Fill(t, "sem.nonce", 32)}
	var m model.Message
	switch rapid.IntRange(0, 15).Draw(t, "sem.kind") {
	case 0:
		h.Exchange = 37 // liveness check
	case 1:
		h.Exchange = 37
		m.Payloads = []model.Payload{{Kind: model.KDelete, Delete: &model.Delete{Protocol: 1}}} // delete the IKE SA
	case 2:
		h.Exchange = 37
		n := rapid.IntRange(1, 3).Draw(t, "sem.nspi")
		d := &model.Delete{Protocol: 3, SPISize: 4, Count: uint16(n)}
		for i := 0; i < n; i++ {
			d.SPIs = append(d.SPIs, rapid.Uint32().Draw(t, "sem.dspi"))
		}
		m.Payloads = []model.Payload{{Kind: model.KDelete, Delete: d}}
	case 3, 4, 5:
		h.Exchange = uint8(rapid.SampledFrom([]int{35, 36, 37}).Draw(t, "sem.exch"))
		ty := rapid.SampledFrom([]uint16{1, 4, 5, 7, 9, 11, 14, 17, 24, 34, 35, 36, 37, 38, 39, 40, 41, 43, 44, 16384, 16385, 16386, 16387, 16390, 16391, 16392, 16394, 16395, 16404, 16406, 16407, 16408}).Draw(t, "sem.ntype")
		m.Payloads = []model.Payload{notify(ty, 0, nil, nil)}
		if ty == 17 {
			m.Payloads[0].Notify.Data = model.Bytes{0, 14}
		}
	case 6:
		h.Exchange = 36 // rekey a Child SA
		m.Payloads = []model.Payload{notify(16393, 3, spi4(), nil), sa(3, spi4()), nonce, ts(model.KTSi), ts(model.KTSr)}
	case 7:
		h.Exchange = 36 // rekey the IKE SA
		m.Payloads = []model.Payload{sa(1, Fill(t, "sem.spi8", 8)), nonce, {Kind: model.KKE, KE: &model.KE{Group: 14, Data: Fill(t, "sem.ke", 256)}}}
	case 8:
		h.Exchange = 36 // new Child SA
		m.Payloads = []model.Payload{sa(3, spi4()), nonce, ts(model.KTSi), ts(model.KTSr)}
	case 9:
		h.Exchange = 35
		m.Payloads = []model.Payload{{Kind: model.KIDi, ID: &model.ID{Type: 2, Data: model.Bytes("ue.example.org")}}, {Kind: model.KAUTH, Auth: &model.Auth{Method: 2, Data: Fill(t, "sem.auth", 32)}},
			sa(3, spi4()), ts(model.KTSi), ts(model.KTSr)}
	case 10:
		h.Exchange = 35
		e := model.EAP{Code: 3, Identifier: 7, Kind: model.ENone}
		m.Payloads = []model.Payload{{Kind: model.KEAP, EAP: &e}}
	case 11:
		h.Exchange = 35
		e := model.EAP{Code: 4, Identifier: 7, Kind: model.ENone}
		m.Payloads = []model.Payload{{Kind: model.KEAP, EAP: &e}, notify(24, 0, nil, nil)}
	case 12:
		h.Exchange = 37
		m.Payloads = []model.Payload{{Kind: model.KCP, CP: &model.CP{Type: 1, Attrs: []model.CPAttr{{Type: 1}, {Type: 3}}}}}
	case 13:
		h.Exchange = 37
		m.Payloads = []model.Payload{notify(16384, 0, nil, nil), {Kind: model.KDelete, Delete: &model.Delete{Protocol: 1}}}
	case 14:
		h.Exchange = 34 // an initial exchange message under protection (unusual, legal in the domain)
		m.Payloads = []model.Payload{sa(1, nil), nonce}
	default:
		h.Exchange = 37
		m.Payloads = []model.Payload{{Kind: model.KVendor, Data: VendorID(t)}}
	}
	m.Header = h
	return m
}
