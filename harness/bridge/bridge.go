// Package bridge converts between the harness model and the library's values, using only what
// a user of the library has: exported fields, constructors, SetAttr/GetAttr/SubType.
package bridge

import (
	"fmt"
	"reflect"

	"github.com/free5gc/ike/eap"
	"github.com/free5gc/ike/message"

	"verif/model"
)

func cp(b []byte) []byte {
	if len(b) == 0 {
		return nil
	}
	return append([]byte(nil), b...)
}

// ToLib builds a library message from the model.
func ToLib(m model.Message) (*message.IKEMessage, error) {
	ps, err := ToLibPayloads(m.Payloads)
	if err != nil {
		return nil, err
	}
	lm := &message.IKEMessage{IKEHeader: ToLibHeader(m.Header), Payloads: ps}
	// every other message (a function of the header, so runs stay reproducible) is housed in shared backing arrays
	if (m.Header.MsgID^uint32(m.Header.ISPI))&1 == 1 {
		Arena(lm)
	}
	return lm, nil
}

// ToLibHeader builds the header object. NextPayload and PayloadBytes are bookkeeping the encoder recomputes; they are
// deliberately filled with stale values (a function of the header, so runs stay reproducible), as they are on a header
// object that was decoded or encoded before.
func ToLibHeader(h model.Header) *message.IKEHeader {
	stale := uint8(h.ISPI>>3) ^ uint8(h.MsgID)
	return &message.IKEHeader{
		InitiatorSPI: h.ISPI, ResponderSPI: h.RSPI, MajorVersion: h.Major, MinorVersion: h.Minor,
		ExchangeType: h.Exchange, Flags: h.Flags, MessageID: h.MsgID,
		NextPayload: stale, PayloadBytes: []byte{stale, 0xde, 0xad},
	}
}

func FromLibHeader(h *message.IKEHeader) model.Header {
	return model.Header{ISPI: h.InitiatorSPI, RSPI: h.ResponderSPI, Major: h.MajorVersion, Minor: h.MinorVersion,
		Exchange: h.ExchangeType, Flags: h.Flags, MsgID: h.MessageID}
}

func ToLibPayloads(ps []model.Payload) (message.IKEPayloadContainer, error) {
	var out message.IKEPayloadContainer
	// payloads with identical content are ONE library object listed several times (see gen.Payloads): encoding a list is a
	// function of its elements' contents, not of their identity
	seen := map[string]message.IKEPayload{}
	for i, p := range ps {
		key := string(model.JSON(p))
		if lp, ok := seen[key]; ok && len(key) < 20000 {
			out = append(out, lp)
			continue
		}
		lp, err := ToLibPayload(p)
		if err != nil {
			return nil, fmt.Errorf("payload %d: %w", i, err)
		}
		seen[key] = lp
		out = append(out, lp)
	}
	return out, nil
}

func ToLibPayload(p model.Payload) (message.IKEPayload, error) {
	switch p.Kind {
	case model.KSA:
		sa := &message.SecurityAssociation{}
		for _, pr := range p.SA.Proposals {
			lp := &message.Proposal{ProposalNumber: pr.Number, ProtocolID: pr.Protocol, SPI: cp(pr.SPI)}
			for _, tr := range pr.Transforms {
				lt := &message.Transform{TransformType: tr.Type, TransformID: tr.ID}
				if a := tr.Attr; a != nil {
					lt.AttributePresent = true
					lt.AttributeType = a.Type
					if a.TV {
						lt.AttributeFormat = message.AttributeFormatUseTV
						lt.AttributeValue = a.Value
					} else {
						lt.AttributeFormat = message.AttributeFormatUseTLV
						lt.VariableLengthAttributeValue = cp(a.Var)
					}
				}
				switch tr.Type {
				case message.TypeEncryptionAlgorithm:
					lp.EncryptionAlgorithm = append(lp.EncryptionAlgorithm, lt)
				case message.TypePseudorandomFunction:
					lp.PseudorandomFunction = append(lp.PseudorandomFunction, lt)
				case message.TypeIntegrityAlgorithm:
					lp.IntegrityAlgorithm = append(lp.IntegrityAlgorithm, lt)
				case message.TypeDiffieHellmanGroup:
					lp.DiffieHellmanGroup = append(lp.DiffieHellmanGroup, lt)
				case message.TypeExtendedSequenceNumbers:
					lp.ExtendedSequenceNumbers = append(lp.ExtendedSequenceNumbers, lt)
				default:
					return nil, fmt.Errorf("bridge: transform type %d cannot be filed", tr.Type)
				}
			}
			sa.Proposals = append(sa.Proposals, lp)
		}
		return sa, nil
	case model.KKE:
		return &message.KeyExchange{DiffieHellmanGroup: p.KE.Group, KeyExchangeData: cp(p.KE.Data)}, nil
	case model.KIDi:
		return &message.IdentificationInitiator{IDType: p.ID.Type, IDData: cp(p.ID.Data)}, nil
	case model.KIDr:
		return &message.IdentificationResponder{IDType: p.ID.Type, IDData: cp(p.ID.Data)}, nil
	case model.KCERT:
		return &message.Certificate{CertificateEncoding: p.Cert.Encoding, CertificateData: cp(p.Cert.Data)}, nil
	case model.KCERTREQ:
		return &message.CertificateRequest{CertificateEncoding: p.Cert.Encoding, CertificationAuthority: cp(p.Cert.Data)}, nil
	case model.KAUTH:
		return &message.Authentication{AuthenticationMethod: p.Auth.Method, AuthenticationData: cp(p.Auth.Data)}, nil
	case model.KNonce:
		return &message.Nonce{NonceData: cp(p.Data)}, nil
	case model.KVendor:
		return &message.VendorID{VendorIDData: cp(p.Data)}, nil
	case model.KNotify:
		return &message.Notification{ProtocolID: p.Notify.Protocol, NotifyMessageType: p.Notify.Type, SPI: cp(p.Notify.SPI), NotificationData: cp(p.Notify.Data)}, nil
	case model.KDelete:
		d := &message.Delete{ProtocolID: p.Delete.Protocol, SPISize: p.Delete.SPISize, NumberOfSPI: p.Delete.Count}
		if len(p.Delete.SPIs) > 0 {
			d.SPIs = append([]uint32(nil), p.Delete.SPIs...)
		}
		return d, nil
	case model.KTSi:
		return &message.TrafficSelectorInitiator{TrafficSelectors: toLibSelectors(p.TS)}, nil
	case model.KTSr:
		return &message.TrafficSelectorResponder{TrafficSelectors: toLibSelectors(p.TS)}, nil
	case model.KCP:
		c := &message.Configuration{ConfigurationType: p.CP.Type}
		for _, a := range p.CP.Attrs {
			c.ConfigurationAttribute = append(c.ConfigurationAttribute, &message.IndividualConfigurationAttribute{Type: a.Type, Value: cp(a.Value)})
		}
		return c, nil
	case model.KEAP:
		e, err := ToLibEAP(*p.EAP)
		if err != nil {
			return nil, err
		}
		return &message.PayloadEap{EAP: e}, nil
	}
	return nil, fmt.Errorf("bridge: kind %q has no library type", p.Kind)
}

func toLibSelectors(ts *model.TS) message.IndividualTrafficSelectorContainer {
	var out message.IndividualTrafficSelectorContainer
	for _, s := range ts.Selectors {
		out = append(out, &message.IndividualTrafficSelector{TSType: s.Type, IPProtocolID: s.Protocol, StartPort: s.StartPort,
			EndPort: s.EndPort, StartAddress: cp(s.StartAddr), EndAddress: cp(s.EndAddr)})
	}
	return out
}

// ToLibEAP builds the EAP packet through the public API (SetAttr in the given order).
func ToLibEAP(e model.EAP) (*eap.EAP, error) {
	out := &eap.EAP{Code: eap.EapCode(e.Code), Identifier: e.Identifier}
	switch e.Kind {
	case model.ENone:
	case model.EIdentity:
		out.EapTypeData = &eap.EapIdentity{IdentityData: cp(e.Data)}
	case model.ENotification:
		out.EapTypeData = &eap.EapNotification{NotificationData: cp(e.Data)}
	case model.ENak:
		out.EapTypeData = &eap.EapNak{NakData: cp(e.Data)}
	case model.EExpanded:
		out.EapTypeData = &eap.EapExpanded{VendorID: e.VendorID, VendorType: e.VendorType, VendorData: cp(e.Data)}
	case model.EAka:
		a := eap.NewEapAkaPrime(eap.EapAkaSubtype(e.Sub))
		if e.Sub == 0 && e.Identifier%2 == 1 {
			a = new(eap.EapAkaPrime) // the zero value is a packet of subtype 0 without attributes; the setter makes it usable
		}
		for i, at := range e.Attrs {
			// an empty value is handed over as nil or as an empty slice, a non-empty one as a private copy
			v := append([]byte(nil), at.Value...)
			if len(v) == 0 && e.Identifier%2 == 1 {
				v = []byte{}
			}
			if e.Identifier%4 >= 2 {
				// the caller looks whether the attribute is there before it sets it (it is not: an error, nothing else)
				if _, err := a.GetAttr(eap.EapAkaPrimeAttrType(at.Type)); err == nil && i == 0 {
					return nil, fmt.Errorf("bridge: GetAttr(%d) on a packet without attributes reports success", at.Type)
				}
			}
			if err := a.SetAttr(eap.EapAkaPrimeAttrType(at.Type), v); err != nil {
				return nil, fmt.Errorf("bridge: SetAttr(%d, %d octets): %w", at.Type, len(v), err)
			}
			// a message may be encoded while it is still being put together (e.g. to compute a MAC): the intermediate
			// encoding must not leave anything behind that the final encoding depends on
			if i+1 < len(e.Attrs) {
				if _, err := a.Marshal(); err != nil {
					return nil, fmt.Errorf("bridge: intermediate Marshal: %w", err)
				}
			}
		}
		out.EapTypeData = a
	default:
		return nil, fmt.Errorf("bridge: EAP kind %q", e.Kind)
	}
	return out, nil
}

// FromLib reads a library message back into the model.
func FromLib(m *message.IKEMessage) (model.Message, error) {
	var out model.Message
	if m.IKEHeader == nil {
		return out, fmt.Errorf("bridge: message without header")
	}
	out.Header = FromLibHeader(m.IKEHeader)
	ps, err := FromLibPayloads(m.Payloads)
	out.Payloads = ps
	return out, err
}

func FromLibPayloads(c message.IKEPayloadContainer) ([]model.Payload, error) {
	var out []model.Payload
	for i, lp := range c {
		p, err := FromLibPayload(lp)
		if err != nil {
			return nil, fmt.Errorf("payload %d: %w", i, err)
		}
		out = append(out, p)
	}
	// An Encrypted payload's NextPayload field names the first inner payload only when SK is the last payload
	// (RFC 7296 3.14); elsewhere it is chain plumbing that the encoder recomputes, so it is not part of the model.
	for i := range out {
		if out[i].Raw != nil && out[i].Raw.Type == 46 && i+1 < len(out) {
			out[i].Data = nil
		}
	}
	return out, nil
}

func fromTransforms(dst *[]model.Transform, c message.TransformContainer, container uint8) {
	for _, lt := range c {
		tr := model.Transform{Type: lt.TransformType, ID: lt.TransformID}
		if lt.TransformType != container {
			tr.FiledUnder = container
		}
		if lt.AttributePresent {
			a := &model.Attr{Type: lt.AttributeType, TV: lt.AttributeFormat == message.AttributeFormatUseTV,
				Value: lt.AttributeValue, Var: cp(lt.VariableLengthAttributeValue)}
			tr.Attr = a
		}
		*dst = append(*dst, tr)
	}
}

func FromLibPayload(lp message.IKEPayload) (model.Payload, error) {
	switch v := lp.(type) {
	case *message.SecurityAssociation:
		sa := &model.SA{}
		for _, lpr := range v.Proposals {
			pr := model.Proposal{Number: lpr.ProposalNumber, Protocol: lpr.ProtocolID, SPI: cp(lpr.SPI)}
			fromTransforms(&pr.Transforms, lpr.EncryptionAlgorithm, 1)
			fromTransforms(&pr.Transforms, lpr.PseudorandomFunction, 2)
			fromTransforms(&pr.Transforms, lpr.IntegrityAlgorithm, 3)
			fromTransforms(&pr.Transforms, lpr.DiffieHellmanGroup, 4)
			fromTransforms(&pr.Transforms, lpr.ExtendedSequenceNumbers, 5)
			sa.Proposals = append(sa.Proposals, pr)
		}
		return model.Payload{Kind: model.KSA, SA: sa}, nil
	case *message.KeyExchange:
		return model.Payload{Kind: model.KKE, KE: &model.KE{Group: v.DiffieHellmanGroup, Data: cp(v.KeyExchangeData)}}, nil
	case *message.IdentificationInitiator:
		return model.Payload{Kind: model.KIDi, ID: &model.ID{Type: v.IDType, Data: cp(v.IDData)}}, nil
	case *message.IdentificationResponder:
		return model.Payload{Kind: model.KIDr, ID: &model.ID{Type: v.IDType, Data: cp(v.IDData)}}, nil
	case *message.Certificate:
		return model.Payload{Kind: model.KCERT, Cert: &model.Cert{Encoding: v.CertificateEncoding, Data: cp(v.CertificateData)}}, nil
	case *message.CertificateRequest:
		return model.Payload{Kind: model.KCERTREQ, Cert: &model.Cert{Encoding: v.CertificateEncoding, Data: cp(v.CertificationAuthority)}}, nil
	case *message.Authentication:
		return model.Payload{Kind: model.KAUTH, Auth: &model.Auth{Method: v.AuthenticationMethod, Data: cp(v.AuthenticationData)}}, nil
	case *message.Nonce:
		return model.Payload{Kind: model.KNonce, Data: cp(v.NonceData)}, nil
	case *message.VendorID:
		return model.Payload{Kind: model.KVendor, Data: cp(v.VendorIDData)}, nil
	case *message.Notification:
		return model.Payload{Kind: model.KNotify, Notify: &model.Notify{Protocol: v.ProtocolID, Type: v.NotifyMessageType, SPI: cp(v.SPI), Data: cp(v.NotificationData)}}, nil
	case *message.Delete:
		d := &model.Delete{Protocol: v.ProtocolID, SPISize: v.SPISize, Count: v.NumberOfSPI}
		if len(v.SPIs) > 0 {
			d.SPIs = append([]uint32(nil), v.SPIs...)
		}
		return model.Payload{Kind: model.KDelete, Delete: d}, nil
	case *message.TrafficSelectorInitiator:
		return model.Payload{Kind: model.KTSi, TS: fromSelectors(v.TrafficSelectors)}, nil
	case *message.TrafficSelectorResponder:
		return model.Payload{Kind: model.KTSr, TS: fromSelectors(v.TrafficSelectors)}, nil
	case *message.Configuration:
		c := &model.CP{Type: v.ConfigurationType}
		for _, a := range v.ConfigurationAttribute {
			c.Attrs = append(c.Attrs, model.CPAttr{Type: a.Type, Value: cp(a.Value)})
		}
		return model.Payload{Kind: model.KCP, CP: c}, nil
	case *message.PayloadEap:
		if v.EAP == nil {
			return model.Payload{}, fmt.Errorf("bridge: EAP payload without packet")
		}
		e, err := FromLibEAP(v.EAP)
		if err != nil {
			return model.Payload{}, err
		}
		return model.Payload{Kind: model.KEAP, EAP: &e}, nil
	case *message.Encrypted:
		// not part of the plain model; represented as a raw payload of type 46
		return model.Payload{Kind: model.KRaw, Raw: &model.Raw{Type: 46, Body: cp(v.EncryptedData), Critical: false}, Data: model.Bytes{v.NextPayload}}, nil
	}
	return model.Payload{}, fmt.Errorf("bridge: unexpected payload type %T", lp)
}

func fromSelectors(c message.IndividualTrafficSelectorContainer) *model.TS {
	ts := &model.TS{}
	for _, s := range c {
		ts.Selectors = append(ts.Selectors, model.Selector{Type: s.TSType, Protocol: s.IPProtocolID, StartPort: s.StartPort,
			EndPort: s.EndPort, StartAddr: cp(s.StartAddress), EndAddr: cp(s.EndAddress)})
	}
	return ts
}

// FromLibEAP reads an EAP packet; AKA' through SubType() and GetAttr(t) for all 256 t.
func FromLibEAP(e *eap.EAP) (model.EAP, error) {
	out := model.EAP{Code: uint8(e.Code), Identifier: e.Identifier}
	switch v := e.EapTypeData.(type) {
	case nil:
		out.Kind = model.ENone
	case *eap.EapIdentity:
		out.Kind, out.Data = model.EIdentity, cp(v.IdentityData)
	case *eap.EapNotification:
		out.Kind, out.Data = model.ENotification, cp(v.NotificationData)
	case *eap.EapNak:
		out.Kind, out.Data = model.ENak, cp(v.NakData)
	case *eap.EapExpanded:
		out.Kind, out.Data, out.VendorID, out.VendorType = model.EExpanded, cp(v.VendorData), v.VendorID, v.VendorType
	case *eap.EapAkaPrime:
		out.Kind = model.EAka
		out.Sub = uint8(v.SubType())
		for t := 0; t < 256; t++ {
			a, err := v.GetAttr(eap.EapAkaPrimeAttrType(t))
			if err != nil {
				continue
			}
			out.Attrs = append(out.Attrs, model.AkaAttr{Type: uint8(t), Value: cp(a.GetValue())})
		}
	default:
		return out, fmt.Errorf("bridge: unexpected EAP type data %T", e.EapTypeData)
	}
	return out, nil
}

// Arena re-houses every octet string and every list reachable through the exported fields of a library message in shared
// backing arrays: each slice keeps its length and content but gets spare capacity, and what lies behind it in memory is
// ANOTHER field of the same message (the fields are laid out in reverse of their natural order, followed by a guard area).
// Callers build messages like that all the time - addresses carved out of one table, SPIs out of one buffer, transform lists
// out of one array - and a library that append()s to a caller's slice then writes into the neighbouring field. Values built
// with exact capacity (what ToLib produces otherwise) can never show that.
func Arena(m *message.IKEMessage) {
	type slot struct{ v reflect.Value }
	byType := map[reflect.Type][]slot{}
	var order []reflect.Type
	seen := map[uintptr]bool{}
	var walk func(v reflect.Value)
	walk = func(v reflect.Value) {
		switch v.Kind() {
		case reflect.Ptr:
			if v.IsNil() || seen[v.Pointer()] {
				return
			}
			seen[v.Pointer()] = true
			walk(v.Elem())
		case reflect.Interface:
			if !v.IsNil() {
				walk(v.Elem())
			}
		case reflect.Struct:
			for i := 0; i < v.NumField(); i++ {
				if v.Type().Field(i).PkgPath == "" { // exported
					walk(v.Field(i))
				}
			}
		case reflect.Slice:
			if v.Len() == 0 {
				return
			}
			if v.CanSet() {
				t := v.Type()
				if _, ok := byType[t]; !ok {
					order = append(order, t)
				}
				byType[t] = append(byType[t], slot{v})
			}
			switch v.Type().Elem().Kind() {
			case reflect.Ptr, reflect.Interface, reflect.Struct:
				for i := 0; i < v.Len(); i++ {
					walk(v.Index(i))
				}
			}
		}
	}
	walk(reflect.ValueOf(&m.Payloads))
	const guard = 48
	for _, t := range order {
		slots := byType[t]
		total := guard
		for _, s := range slots {
			total += s.v.Len()
		}
		arena := reflect.MakeSlice(t, total, total)
		off := 0
		for i := len(slots) - 1; i >= 0; i-- { // reverse of the natural order
			s := slots[i].v
			n := s.Len()
			reflect.Copy(arena.Slice(off, off+n), s)
			s.Set(arena.Slice(off, off+n)) // capacity runs to the end of the arena
			off += n
		}
		if t.Elem().Kind() == reflect.Uint8 {
			g := arena.Slice(off, total).Bytes()
			for i := range g {
				g[i] = 0xC3
			}
		}
	}
}
