package bridge

import (
	"fmt"

	"github.com/free5gc/ike/message"
	"github.com/free5gc/ike/security"
	"github.com/free5gc/ike/security/dh"
	"github.com/free5gc/ike/security/encr"
	"github.com/free5gc/ike/security/integ"
	"github.com/free5gc/ike/security/prf"

	"verif/model"
	"verif/ref"
)

// SuiteSel selects algorithms by index into the reference tables (ref.Encrs, ref.Integs, ref.Prfs, ref.DHs).
type SuiteSel struct {
	Encr  int `json:"encr"`
	Integ int `json:"integ"`
	Prf   int `json:"prf"`
	DH    int `json:"dh"`
	// ViaProposal: the algorithm descriptors are obtained from transforms (DecodeTransform) rather than by name (StrToType)
	ViaProposal bool `json:"via_proposal,omitempty"`
}

func (s SuiteSel) Ref() ref.Suite {
	return ref.Suite{Encr: ref.Encrs[s.Encr], Integ: ref.Integs[s.Integ]}
}

func (s SuiteSel) String() string {
	return fmt.Sprintf("%s+%s", ref.Encrs[s.Encr].Name, ref.Integs[s.Integ].Name)
}

// KeySet holds the four direction keys of an IKE SA used for message protection.
type KeySet struct {
	Ei model.Bytes `json:"sk_ei"`
	Er model.Bytes `json:"sk_er"`
	Ai model.Bytes `json:"sk_ai"`
	Ar model.Bytes `json:"sk_ar"`
	D  model.Bytes `json:"sk_d,omitempty"`
}

// Dir returns the reference keys of the direction "sent by initiator" (true) or "sent by responder".
func (k KeySet) Dir(fromInitiator bool) ref.DirKeys {
	if fromInitiator {
		return ref.DirKeys{E: k.Ei, A: k.Ai}
	}
	return ref.DirKeys{E: k.Er, A: k.Ar}
}

// NewSA builds an IKESAKey the way callers (and the repository's tests) do: descriptors by name,
// raw keys into the SK_* fields, objects from NewCrypto / Init.
func NewSA(s SuiteSel, k KeySet) (*security.IKESAKey, error) {
	sa := &security.IKESAKey{
		EncrInfo:  encr.StrToType(ref.Encrs[s.Encr].Name),
		IntegInfo: integ.StrToType(ref.Integs[s.Integ].Name),
		PrfInfo:   prf.StrToType(ref.Prfs[s.Prf].Name),
		DhInfo:    dh.StrToType(ref.DHs[s.DH].Name),
	}
	if s.ViaProposal && sa.EncrInfo != nil && sa.IntegInfo != nil && sa.PrfInfo != nil && sa.DhInfo != nil {
		// the other way a caller obtains the descriptors: from the transforms of a negotiated proposal
		et, err := encr.ToTransform(sa.EncrInfo)
		if err != nil {
			return nil, fmt.Errorf("bridge: encr.ToTransform: %w", err)
		}
		sa.EncrInfo = encr.DecodeTransform(et)
		sa.IntegInfo = integ.DecodeTransform(integ.ToTransform(sa.IntegInfo))
		sa.PrfInfo = prf.DecodeTransform(prf.ToTransform(sa.PrfInfo))
		sa.DhInfo = dh.DecodeTransform(dh.ToTransform(sa.DhInfo))
	}
	if sa.EncrInfo == nil || sa.IntegInfo == nil || sa.PrfInfo == nil || sa.DhInfo == nil {
		return nil, fmt.Errorf("bridge: an advertised algorithm name is unknown to StrToType (%+v)", s)
	}
	cp := func(b []byte) []byte { return append([]byte(nil), b...) }
	sa.SK_ei, sa.SK_er, sa.SK_ai, sa.SK_ar = cp(k.Ei), cp(k.Er), cp(k.Ai), cp(k.Ar)
	var err error
	if sa.Encr_i, err = sa.EncrInfo.NewCrypto(sa.SK_ei); err != nil {
		return nil, fmt.Errorf("bridge: NewCrypto(SK_ei): %w", err)
	}
	if sa.Encr_r, err = sa.EncrInfo.NewCrypto(sa.SK_er); err != nil {
		return nil, fmt.Errorf("bridge: NewCrypto(SK_er): %w", err)
	}
	sa.Integ_i = sa.IntegInfo.Init(sa.SK_ai)
	sa.Integ_r = sa.IntegInfo.Init(sa.SK_ar)
	if sa.Integ_i == nil || sa.Integ_r == nil {
		return nil, fmt.Errorf("bridge: integrity Init returned nil")
	}
	if len(k.D) > 0 {
		sa.SK_d = cp(k.D)
		sa.Prf_d = sa.PrfInfo.Init(sa.SK_d)
	}
	return sa, nil
}

// Role converts "sender/receiver is the initiator" into the library's Role.
func Role(initiator bool) message.Role {
	if initiator {
		return message.Role_Initiator
	}
	return message.Role_Responder
}
