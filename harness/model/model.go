// Package model is the harness's own plain-struct model of IKEv2 messages, EAP packets and
// key material. It imports nothing from the library under test.
package model

import (
	"bytes"
	"encoding/hex"
	"encoding/json"
	"fmt"
	"hash/fnv"
	"sort"
)

// Bytes is a byte string that prints as hex in JSON. nil and empty are the same value.
type Bytes []byte

func (b Bytes) MarshalJSON() ([]byte, error) {
	if len(b) > 96 {
		// long strings are written in a compact run-length aware form only if trivially
		// compressible; otherwise plain hex (replay files must be loss-free)
		return json.Marshal(hex.EncodeToString(b))
	}
	return json.Marshal(hex.EncodeToString(b))
}

func (b *Bytes) UnmarshalJSON(d []byte) error {
	var s string
	if err := json.Unmarshal(d, &s); err != nil {
		return err
	}
	v, err := hex.DecodeString(s)
	if err != nil {
		return err
	}
	*b = v
	return nil
}

func (b Bytes) Equal(o Bytes) bool { return bytes.Equal(b, o) }

func (b Bytes) Clone() Bytes {
	if len(b) == 0 {
		return nil
	}
	return append(Bytes(nil), b...)
}

// Payload kinds (model names).
const (
	KSA      = "SA"
	KKE      = "KE"
	KIDi     = "IDi"
	KIDr     = "IDr"
	KCERT    = "CERT"
	KCERTREQ = "CERTREQ"
	KAUTH    = "AUTH"
	KNonce   = "Nonce"
	KNotify  = "Notify"
	KDelete  = "Delete"
	KVendor  = "Vendor"
	KTSi     = "TSi"
	KTSr     = "TSr"
	KCP      = "CP"
	KEAP     = "EAP"
	KRaw     = "Raw" // an arbitrary payload of any type code (C13); never produced by FromLib
)

var Kinds = []string{KSA, KKE, KIDi, KIDr, KCERT, KCERTREQ, KAUTH, KNonce, KNotify, KDelete, KVendor, KTSi, KTSr, KCP, KEAP}

// TypeCode is the RFC 7296 payload type number of each kind.
var TypeCode = map[string]uint8{
	KSA: 33, KKE: 34, KIDi: 35, KIDr: 36, KCERT: 37, KCERTREQ: 38, KAUTH: 39, KNonce: 40, KNotify: 41,
	KDelete: 42, KVendor: 43, KTSi: 44, KTSr: 45, KCP: 47, KEAP: 48,
}

var KindOfCode = func() map[uint8]string {
	m := map[uint8]string{}
	for k, v := range TypeCode {
		m[v] = k
	}
	return m
}()

type Header struct {
	ISPI     uint64 `json:"ispi"`
	RSPI     uint64 `json:"rspi"`
	Major    uint8  `json:"major"`
	Minor    uint8  `json:"minor"`
	Exchange uint8  `json:"exch"`
	Flags    uint8  `json:"flags"`
	MsgID    uint32 `json:"msgid"`
}

type Message struct {
	Header   Header    `json:"header"`
	Payloads []Payload `json:"payloads"`
}

type Payload struct {
	Kind string `json:"kind"`

	SA     *SA     `json:"sa,omitempty"`
	KE     *KE     `json:"ke,omitempty"`
	ID     *ID     `json:"id,omitempty"`     // IDi, IDr
	Cert   *Cert   `json:"cert,omitempty"`   // CERT, CERTREQ
	Auth   *Auth   `json:"auth,omitempty"`   // AUTH
	Data   Bytes   `json:"data,omitempty"`   // Nonce, Vendor
	Notify *Notify `json:"notify,omitempty"` // Notify
	Delete *Delete `json:"delete,omitempty"`
	TS     *TS     `json:"ts,omitempty"` // TSi, TSr
	CP     *CP     `json:"cp,omitempty"`
	EAP    *EAP    `json:"eap,omitempty"`
	Raw    *Raw    `json:"raw,omitempty"`
}

type Raw struct {
	Type     uint8 `json:"type"`
	Critical bool  `json:"critical"`
	Body     Bytes `json:"body"`
}

type SA struct {
	Proposals []Proposal `json:"proposals"`
}

type Proposal struct {
	Number     uint8       `json:"num"`
	Protocol   uint8       `json:"proto"`
	SPI        Bytes       `json:"spi"`
	Transforms []Transform `json:"transforms"` // wire order
}

type Transform struct {
	Type uint8  `json:"type"`
	ID   uint16 `json:"id"`
	Attr *Attr  `json:"attr,omitempty"`
	// FiledUnder is set (by the bridge, when reading a library proposal) only if the transform sits in the container of
	// another transform type than its own TransformType field says - which a correct decoder never produces.
	FiledUnder uint8 `json:"filed_under,omitempty"`
}

type Attr struct {
	TV    bool   `json:"tv"` // true: fixed 2-octet value (AF=1); false: TLV
	Type  uint16 `json:"type"`
	Value uint16 `json:"value"` // TV only
	Var   Bytes  `json:"var"`   // TLV only
}

type KE struct {
	Group uint16 `json:"group"`
	Data  Bytes  `json:"data"`
}

type ID struct {
	Type uint8 `json:"type"`
	Data Bytes `json:"data"`
}

type Cert struct {
	Encoding uint8 `json:"enc"`
	Data     Bytes `json:"data"`
}

type Auth struct {
	Method uint8 `json:"method"`
	Data   Bytes `json:"data"`
}

type Notify struct {
	Protocol uint8  `json:"proto"`
	Type     uint16 `json:"type"`
	SPI      Bytes  `json:"spi"`
	Data     Bytes  `json:"data"`
}

type Delete struct {
	Protocol uint8    `json:"proto"`
	SPISize  uint8    `json:"spisize"`
	Count    uint16   `json:"count"`
	SPIs     []uint32 `json:"spis"`
}

type TS struct {
	Selectors []Selector `json:"selectors"`
}

type Selector struct {
	Type      uint8  `json:"type"`
	Protocol  uint8  `json:"proto"`
	StartPort uint16 `json:"sport"`
	EndPort   uint16 `json:"eport"`
	StartAddr Bytes  `json:"saddr"`
	EndAddr   Bytes  `json:"eaddr"`
}

type CP struct {
	Type  uint8    `json:"type"`
	Attrs []CPAttr `json:"attrs"`
}

type CPAttr struct {
	Type  uint16 `json:"type"`
	Value Bytes  `json:"value"`
}

// EAP method kinds.
const (
	ENone         = "none" // no type data (Success / Failure, or any bare packet)
	EIdentity     = "identity"
	ENotification = "notification"
	ENak          = "nak"
	EExpanded     = "expanded"
	EAka          = "aka"
)

type EAP struct {
	Code       uint8     `json:"code"`
	Identifier uint8     `json:"id"`
	Kind       string    `json:"kind"`
	Data       Bytes     `json:"data,omitempty"` // identity / notification / nak / expanded vendor data
	VendorID   uint32    `json:"vid,omitempty"`
	VendorType uint32    `json:"vtype,omitempty"`
	Sub        uint8     `json:"sub,omitempty"`   // AKA' subtype
	Attrs      []AkaAttr `json:"attrs,omitempty"` // AKA' attributes; normalised = ascending type
}

type AkaAttr struct {
	Type  uint8 `json:"type"`
	Value Bytes `json:"value"`
}

// AKA' attribute type numbers.
const (
	AT_RAND      = 1
	AT_AUTN      = 2
	AT_RES       = 3
	AT_MAC       = 11
	AT_KDF_INPUT = 23
	AT_KDF       = 24
	AT_CHECKCODE = 134
)

// ---------------------------------------------------------------------------------------------
// Normalisation, equality, hashing

// Normalize returns a deep copy in canonical form: nil == empty for byte strings, transforms
// grouped by type (stable) because that is all the library's data model can hold, AKA'
// attributes sorted by type.
func (m Message) Normalize() Message {
	out := Message{Header: m.Header}
	for _, p := range m.Payloads {
		out.Payloads = append(out.Payloads, p.Normalize())
	}
	return out
}

func nb(b Bytes) Bytes {
	if len(b) == 0 {
		return nil
	}
	return append(Bytes(nil), b...)
}

func (p Payload) Normalize() Payload {
	o := Payload{Kind: p.Kind}
	switch {
	case p.SA != nil:
		sa := &SA{}
		for _, pr := range p.SA.Proposals {
			np := Proposal{Number: pr.Number, Protocol: pr.Protocol, SPI: nb(pr.SPI)}
			for ty := 1; ty <= 5; ty++ {
				for _, tr := range pr.Transforms {
					if int(tr.Type) != ty {
						continue
					}
					nt := Transform{Type: tr.Type, ID: tr.ID, FiledUnder: tr.FiledUnder}
					if tr.Attr != nil {
						// both Value and Var are kept whatever the format: a decoder that leaves something in the
						// field the format does not use is observable through the exported struct fields
						a := *tr.Attr
						a.Var = nb(a.Var)
						nt.Attr = &a
					}
					np.Transforms = append(np.Transforms, nt)
				}
			}
			// transforms of a type outside 1..5 cannot be held by the library; keep them at the end so
			// that a model containing them never equals a decoded one
			for _, tr := range pr.Transforms {
				if tr.Type < 1 || tr.Type > 5 {
					np.Transforms = append(np.Transforms, tr)
				}
			}
			sa.Proposals = append(sa.Proposals, np)
		}
		o.SA = sa
	case p.KE != nil:
		o.KE = &KE{Group: p.KE.Group, Data: nb(p.KE.Data)}
	case p.ID != nil:
		o.ID = &ID{Type: p.ID.Type, Data: nb(p.ID.Data)}
	case p.Cert != nil:
		o.Cert = &Cert{Encoding: p.Cert.Encoding, Data: nb(p.Cert.Data)}
	case p.Auth != nil:
		o.Auth = &Auth{Method: p.Auth.Method, Data: nb(p.Auth.Data)}
	case p.Notify != nil:
		o.Notify = &Notify{Protocol: p.Notify.Protocol, Type: p.Notify.Type, SPI: nb(p.Notify.SPI), Data: nb(p.Notify.Data)}
	case p.Delete != nil:
		d := &Delete{Protocol: p.Delete.Protocol, SPISize: p.Delete.SPISize, Count: p.Delete.Count}
		if len(p.Delete.SPIs) > 0 {
			d.SPIs = append([]uint32(nil), p.Delete.SPIs...)
		}
		o.Delete = d
	case p.TS != nil:
		ts := &TS{}
		for _, s := range p.TS.Selectors {
			s.StartAddr, s.EndAddr = nb(s.StartAddr), nb(s.EndAddr)
			ts.Selectors = append(ts.Selectors, s)
		}
		o.TS = ts
	case p.CP != nil:
		cp := &CP{Type: p.CP.Type}
		for _, a := range p.CP.Attrs {
			cp.Attrs = append(cp.Attrs, CPAttr{Type: a.Type, Value: nb(a.Value)})
		}
		o.CP = cp
	case p.EAP != nil:
		e := p.EAP.Normalize()
		o.EAP = &e
	case p.Raw != nil:
		o.Raw = &Raw{Type: p.Raw.Type, Critical: p.Raw.Critical, Body: nb(p.Raw.Body)}
	default:
		o.Data = nb(p.Data)
	}
	return o
}

func (e EAP) Normalize() EAP {
	o := EAP{Code: e.Code, Identifier: e.Identifier, Kind: e.Kind}
	switch e.Kind {
	case EIdentity, ENotification, ENak:
		o.Data = nb(e.Data)
	case EExpanded:
		o.Data, o.VendorID, o.VendorType = nb(e.Data), e.VendorID, e.VendorType
	case EAka:
		o.Sub = e.Sub
		for _, a := range e.Attrs {
			o.Attrs = append(o.Attrs, AkaAttr{Type: a.Type, Value: nb(a.Value)})
		}
		sort.SliceStable(o.Attrs, func(i, j int) bool { return o.Attrs[i].Type < o.Attrs[j].Type })
	}
	return o
}

// JSON returns the canonical JSON of v (used for equality, hashing and reports).
func JSON(v any) []byte {
	b, err := json.Marshal(v)
	if err != nil {
		panic(err)
	}
	return b
}

// Equal compares two messages after normalisation.
func (m Message) Equal(o Message) bool {
	return bytes.Equal(JSON(m.Normalize()), JSON(o.Normalize()))
}

func (e EAP) Equal(o EAP) bool { return bytes.Equal(JSON(e.Normalize()), JSON(o.Normalize())) }

// Diff gives a short human-readable description of the first difference between two messages.
func Diff(a, b Message) string {
	a, b = a.Normalize(), b.Normalize()
	if a.Header != b.Header {
		return fmt.Sprintf("header: %+v != %+v", a.Header, b.Header)
	}
	if len(a.Payloads) != len(b.Payloads) {
		return fmt.Sprintf("payload count %d != %d", len(a.Payloads), len(b.Payloads))
	}
	for i := range a.Payloads {
		ja, jb := JSON(a.Payloads[i]), JSON(b.Payloads[i])
		if !bytes.Equal(ja, jb) {
			return fmt.Sprintf("payload %d: %s != %s", i, clip(ja), clip(jb))
		}
	}
	return ""
}

func DiffPayloads(a, b []Payload) string {
	return Diff(Message{Payloads: a}, Message{Payloads: b})
}

func clip(b []byte) string {
	if len(b) > 600 {
		return string(b[:300]) + " ... " + string(b[len(b)-200:])
	}
	return string(b)
}

func Clip(b []byte) string { return clip(b) }

// Hash64 hashes any JSON-serialisable value (used to count distinct cases).
func Hash64(v any) uint64 {
	h := fnv.New64a()
	switch x := v.(type) {
	case []byte:
		h.Write(x)
	case string:
		h.Write([]byte(x))
	default:
		h.Write(JSON(v))
	}
	return h.Sum64()
}

// HasVariableField reports whether the payload carries at least one variable-length field.
func (p Payload) Labels() []string {
	var l []string
	l = append(l, "kind:"+p.Kind)
	switch {
	case p.SA != nil:
		if len(p.SA.Proposals) > 1 {
			l = append(l, "sa:multi-proposal")
		}
		if len(p.SA.Proposals) == 0 {
			l = append(l, "sa:no-proposal")
		}
		for _, pr := range p.SA.Proposals {
			if len(pr.SPI) >= 248 {
				l = append(l, "sa:spi>=248")
			}
			if len(pr.Transforms) > 5 {
				l = append(l, "sa:transforms>5")
			}
			for _, tr := range pr.Transforms {
				if tr.Attr != nil {
					if !tr.Attr.TV {
						l = append(l, "sa:tlv-attr")
					}
					if tr.Attr.Type >= 128 {
						l = append(l, "sa:attrtype>=128")
					}
				}
			}
		}
	case p.Notify != nil:
		if len(p.Notify.SPI) >= 252 {
			l = append(l, "notify:spi>=252")
		}
	case p.TS != nil:
		v4, v6 := false, false
		for _, s := range p.TS.Selectors {
			if s.Type == 7 {
				v4 = true
			} else {
				v6 = true
			}
		}
		if v4 && v6 {
			l = append(l, "ts:v4+v6")
		}
		if v6 {
			l = append(l, "ts:v6")
		}
	case p.CP != nil:
		for _, a := range p.CP.Attrs {
			if len(a.Value) > 255 {
				l = append(l, "cp:value>255")
			}
		}
	case p.Delete != nil:
		if len(p.Delete.SPIs) > 0 {
			l = append(l, "delete:spis")
		}
	case p.EAP != nil:
		l = append(l, "eap:"+p.EAP.Kind)
		if p.EAP.Kind == EAka {
			for _, a := range p.EAP.Attrs {
				if (a.Type == AT_RES || a.Type == AT_KDF_INPUT) && len(a.Value)%4 != 0 {
					l = append(l, "aka:padded")
				}
				if a.Type == AT_CHECKCODE {
					l = append(l, "aka:checkcode")
				}
				if a.Type == AT_KDF_INPUT && len(a.Value) >= 252 {
					l = append(l, "aka:kdfinput>=252")
				}
			}
		}
	}
	return l
}

func (m Message) Labels() []string {
	seen := map[string]bool{}
	var out []string
	add := func(s string) {
		if !seen[s] {
			seen[s] = true
			out = append(out, s)
		}
	}
	if len(m.Payloads) == 0 {
		add("msg:empty")
	}
	if len(m.Payloads) > 1 {
		add("msg:multi")
	}
	kinds := map[string]int{}
	for _, p := range m.Payloads {
		kinds[p.Kind]++
		for _, l := range p.Labels() {
			add(l)
		}
	}
	for _, c := range kinds {
		if c > 1 {
			add("msg:repeated-kind")
			break
		}
	}
	if len(kinds) == 15 {
		add("msg:all-kinds")
	}
	return out
}

// ---------------------------------------------------------------------------------------------
// Sizes (arithmetic from RFC 7296 section 3; used by the generators to stay inside 16-bit lengths)

// EAPSize is the encoded size of an EAP packet.
func EAPSize(e EAP) int {
	switch e.Kind {
	case ENone:
		return 4
	case EIdentity, ENotification, ENak:
		return 5 + len(e.Data)
	case EExpanded:
		return 12 + len(e.Data)
	case EAka:
		n := 8
		for _, a := range e.Attrs {
			switch a.Type {
			case AT_KDF:
				n += 4
			case AT_RES, AT_KDF_INPUT:
				n += (4 + len(a.Value) + 3) / 4 * 4
			default:
				n += 4 + len(a.Value)
			}
		}
		return n
	}
	return 4
}

// BodySize is the size of a payload body (without the 4-octet generic header).
func BodySize(p Payload) int {
	switch {
	case p.Raw != nil:
		return len(p.Raw.Body)
	case p.SA != nil:
		n := 0
		for _, pr := range p.SA.Proposals {
			n += 8 + len(pr.SPI)
			for _, tr := range pr.Transforms {
				n += 8
				if tr.Attr != nil {
					n += 4
					if !tr.Attr.TV {
						n += len(tr.Attr.Var)
					}
				}
			}
		}
		return n
	case p.KE != nil:
		return 4 + len(p.KE.Data)
	case p.ID != nil:
		return 4 + len(p.ID.Data)
	case p.Cert != nil:
		return 1 + len(p.Cert.Data)
	case p.Auth != nil:
		return 4 + len(p.Auth.Data)
	case p.Notify != nil:
		return 4 + len(p.Notify.SPI) + len(p.Notify.Data)
	case p.Delete != nil:
		return 4 + int(p.Delete.SPISize)*len(p.Delete.SPIs)
	case p.TS != nil:
		n := 4
		for _, s := range p.TS.Selectors {
			n += 8 + len(s.StartAddr) + len(s.EndAddr)
		}
		return n
	case p.CP != nil:
		n := 4
		for _, a := range p.CP.Attrs {
			n += 4 + len(a.Value)
		}
		return n
	case p.EAP != nil:
		return EAPSize(*p.EAP)
	}
	return len(p.Data)
}

func PayloadSize(p Payload) int { return 4 + BodySize(p) }

func ChainSize(ps []Payload) int {
	n := 0
	for _, p := range ps {
		n += PayloadSize(p)
	}
	return n
}

// Field describes one field written by the reference encoder (offset, width, kind); used by the
// structure-aware mutators.
type Field struct {
	Off   int    `json:"off"`
	Width int    `json:"w"`
	Kind  string `json:"kind"`
}

// InDomain reports whether the message lies in the "encodable domain" the properties quantify over (the structural
// conditions of the C01/C03/C05 quantifier; sizes are not checked here).
func (m Message) InDomain() bool {
	if m.Header.Major > 15 || m.Header.Minor > 15 {
		return false
	}
	for _, p := range m.Payloads {
		switch {
		case p.Raw != nil:
			return false
		case p.SA != nil:
			for _, pr := range p.SA.Proposals {
				if len(pr.Transforms) < 1 || len(pr.Transforms) > 255 || len(pr.SPI) > 255 {
					return false
				}
				for _, tr := range pr.Transforms {
					if tr.Type < 1 || tr.Type > 5 {
						return false
					}
					if a := tr.Attr; a != nil && (a.Type >= 0x8000 || (!a.TV && len(a.Var) == 0)) {
						return false
					}
				}
			}
		case p.KE != nil:
			if len(p.KE.Data) == 0 {
				return false
			}
		case p.ID != nil:
			if len(p.ID.Data) == 0 {
				return false
			}
		case p.Cert != nil:
			if len(p.Cert.Data) == 0 {
				return false
			}
		case p.Auth != nil:
			if len(p.Auth.Data) == 0 {
				return false
			}
		case p.Notify != nil:
			if len(p.Notify.SPI) > 255 {
				return false
			}
		case p.Delete != nil:
			d := p.Delete
			if !(d.SPISize == 0 && len(d.SPIs) == 0 && d.Count == 0) && !(d.SPISize == 4 && int(d.Count) == len(d.SPIs)) {
				return false
			}
		case p.TS != nil:
			if len(p.TS.Selectors) < 1 || len(p.TS.Selectors) > 255 {
				return false
			}
			for _, s := range p.TS.Selectors {
				if !(s.Type == 7 && len(s.StartAddr) == 4 && len(s.EndAddr) == 4) && !(s.Type == 8 && len(s.StartAddr) == 16 && len(s.EndAddr) == 16) {
					return false
				}
			}
		case p.CP != nil:
			if len(p.CP.Attrs) < 1 {
				return false
			}
			for _, a := range p.CP.Attrs {
				if a.Type >= 0x8000 {
					return false
				}
			}
		case p.EAP != nil:
			if !p.EAP.InDomain() {
				return false
			}
		}
	}
	return true
}

// InDomain: Success/Failure without data, Request/Response with a method of the model and legal AKA' value sizes.
func (e EAP) InDomain() bool {
	switch e.Kind {
	case ENone:
		return e.Code == 3 || e.Code == 4
	case EIdentity, ENotification, ENak:
		return (e.Code == 1 || e.Code == 2) && len(e.Data) >= 1
	case EExpanded:
		return (e.Code == 1 || e.Code == 2) && e.VendorID < 1<<24
	case EAka:
		if e.Code != 1 && e.Code != 2 {
			return false
		}
		seen := map[uint8]bool{}
		for _, a := range e.Attrs {
			if seen[a.Type] {
				return false
			}
			seen[a.Type] = true
			n := len(a.Value)
			switch a.Type {
			case AT_RAND, AT_AUTN, AT_MAC:
				if n != 16 {
					return false
				}
			case AT_KDF:
				if n != 2 {
					return false
				}
			case AT_RES:
				if n < 4 || n > 16 {
					return false
				}
			case AT_KDF_INPUT:
			case AT_CHECKCODE:
				if n != 0 && n != 20 && n != 32 {
					return false
				}
			default:
				return false
			}
		}
		return true
	}
	return false
}
