#!/usr/bin/env python3
"""Regenerates MANIFEST.json from propmeta.META (run after editing propmeta.py)."""
import json, os
from propmeta import META, NOT_APPLICABLE

ROOT = os.path.dirname(os.path.abspath(__file__))
ids = [json.loads(l)["id"] for l in open(os.path.join(ROOT, "properties.jsonl"))]
checks = []
for pid in ids:
    if pid not in META:
        continue
    m = META[pid]
    checks.append({
        "property_id": pid,
        "quick_cmd": "./check %s quick" % pid,
        "thorough_cmd": "./check %s thorough" % pid,
        "evidence_file": "/verif/evidence/%s.json" % pid,
        "replay_cmd_template": "./check replay {path}",
        "engine": "go-pbt",
        "level_claimed": {"category": m.get("level", "exploration"), "text": m["level_text"], "design_ref": m.get("design_ref", "DESIGN.md section 5")},
        "level_note": m["level_note"],
        "technique": m["technique"],
    })
na = [{"property_id": pid, "reason": NOT_APPLICABLE.get(pid, "check not built yet (work in progress; see DESIGN.md section 8)")} for pid in ids if pid not in META]
man = {
    "version": 1,
    "setup_cmd": "./check setup",
    "hooks": {
        "guard": "verif",
        "enable": "no hooks are needed: every observation point is public (exported interface-typed SA fields take spies, crypto/rand.Reader is a replaceable global); checks build /repo as it is via a go.mod replace directive",
        "baseline_off_cmd": "cd /repo && go test -vet=off -count=1 -timeout 25m ./...",
        "source_commits": [],
        "add_only": True,
    },
    "engines": [
        {"name": "go-pbt", "path": "/verif/harness", "serves_properties": [c["property_id"] for c in checks],
         "kind_free_text": "Go module: rapid v1.3.0 property-based tests (incl. state machines), deterministic exhaustive sweeps, native go fuzz targets (thorough tier), race detector for C18; python3 driver ./check"},
    ],
    "checks": checks,
    "notes": "All checks rebuild from /repo's working tree (go.mod replace => /repo). Exit 2 = inconclusive/infrastructure, never a VIOLATION line. Known findings: KNOWN_FINDINGS.txt.",
    "not_applicable": na,
}
json.dump(man, open(os.path.join(ROOT, "MANIFEST.json"), "w"), indent=1)
print("MANIFEST.json: %d checks, %d not_applicable" % (len(checks), len(na)))
